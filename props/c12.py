"""C12 — sink line = pattern with every attribute substituted for the statement, plus newline.
Proof: Props/Properties_C12.v (gen_print incl. literals with '%', C12_line for every oracle
apply_spec / value / spec, slot table, rejection at creation, multi-line on/off, MacroMetadata
fields, runtime-metadata split; literal text with braces and source locations of any length for
the repaired variant of the code; refutations for the empty pattern, duplicate attribute, and -
about the pinned variant - literal braces and >= 64 KiB source locations).
Variants: the model (Format/PatModel.v, record pvar) carries the width of the MacroMetadata
position members and whether _generate_fmt_format_string doubles the braces of the literal text;
the variant of the checked tree is read from T-src facts (tools/srcfacts.py c12_facts, TieC12.v:
mm_pos_bits = 64, pf_escapes_literal_braces = true) and sent as the header "9 <bits> <esc>" of every
pat line (and in the leading number of a patd line).
Tie: T-corr. The extracted M-PAT (constructor rewriting + format + multi-line + MacroMetadata) is
run against the real quill::PatternFormatter (direct), against the lines a recording sink receives
from the real backend (ManualBackendWorker; compile-time call sites and LOG_RUNTIME_METADATA), and
the mini-fmt parser alone against fmtquill::vformat_to.  What one field renders to is an oracle:
the harness evaluates fmtquill::format("{fs}", value) and the case line carries the table.
Monitor: the property itself (regex substitution of every %(attr:spec) by the oracle rendering,
+ "\\n"; line splitting) evaluated on the implementation's output, independent of the model.
Part (d), props/patd_common.py + Props/Properties_C12d.v: WHICH line each sink of a logger is handed
(BackendWorker::_write_log_statement / _process_multi_line_message / _dispatch_transit_event_to_sinks):
model M-PATD (Format/PatDispatch.v), T-src (skeletons of the three methods + "log_to_write is re-initialised
from log_statement inside the per-sink loop", TieC12d.v; the model's variant flag for the run is taken from
that fact), T-corr on "patd" cases through the real backend (k sinks in random order, with/without override
pattern options, level and user filters, one or two loggers, several statements), monitor = each sink's
lines are those of its own effective pattern for the message lines its filters pass."""
import json, os, re, sys
from vlib import Check, standard_proof_phase, correspond, ddmin, sh, VERIF, COQ

PID = 'C12'
MANIFEST = dict(
    text='Machine-checked (Coq) for every well-formed pattern (any subset/order of the 16 attributes, each once, any spec without ) { }, literal text without "%(" - including "%" and, on the code that doubles the braces of the literal text before handing it to fmt (T-src fact pf_escapes_literal_braces, TieC12.v), any "{" "}"), every attribute value and every per-field renderer: the constructor rewrites the printed pattern to exactly the expected fmt string / slot table (the restart-from-0 re-scan skips the rewritten prefix), format() yields the pattern with each attribute replaced by its rendered value plus "\\n", used attributes get distinct slots, unknown names and unterminated "%(" are rejected at creation, multi-line messages give one full line per message line (option on) or one statement minus at most one trailing newline (option off / named args), MacroMetadata file/line/path fields are the stated substrings for a source location of any length (size_t position members: T-src fact mm_pos_bits = 64; for narrower members the locations shorter than 2^width) and the runtime-metadata split is the stated one. Refutations (replayed on the code): empty pattern gives no newline, duplicate attribute throws at format time; about the pinned variant of the code (findings C12-brace-literal and C12-srcloc-64k, fixed): literal braces are fmt syntax, source locations >= 65536 bytes are truncated (uint16). Sink selection (Properties_C12d): for a logger with any ordered list of sinks (each with or without override pattern options, any filter outcome per message line), every sink that passes its filters is handed exactly the line of its own effective pattern (override if present, else the logger\'s) for each message line, independent of the other sinks and of their order (permutation theorem); filtered-out and foreign sinks get nothing; the formatter looked up in other loggers is one for the logger\'s own options; the variant with log_to_write declared outside the per-sink loop is refuted, and T-src (clang AST skeletons of _write_log_statement, _process_multi_line_message, _dispatch_transit_event_to_sinks) proves the code is the good variant. Also proved and replayed: the multi-line option of a sink\'s override options is never read (open finding), an override pattern rejected at creation starves the sinks behind it (outside the quantifier). Tied to the code by differential runs of the extracted model against PatternFormatter, the real backend sink path (one sink; and several sinks with override patterns and filters in random order) and fmtquill::vformat_to, plus a direct property monitor.',
    design='5 C12', technique='Coq proof over an executable model (mini-fmt + M-PAT + M-PATD sink dispatch, fmt field rendering as an oracle) + T-src skeleton tie for the dispatch methods + extracted-model/implementation differential correspondence')
TRUSTED = [
    'Coq 8.16.1 kernel (coqc, vm_compute for the refutation witnesses; no native_compute)',
    'axioms: none (every theorem Closed under the global context)',
    'oracle premise: what fmtquill renders for ONE replacement field "{fs}" with a string argument is the universally quantified function apply_spec (never re-implemented); in the runner it is a table filled by the real fmtquill::format',
    'mini-fmt = fmtquill::vformat_to on generated format strings: sampled each run (mode 2) against the real vformat_to',
    '%(time) text is an input (TimestampFormatter is C13); the harness renders it with the same options',
    'extraction: ExtrOcamlBasic only, OCaml 4.13.1 ocamlopt, extract/driver.ml',
    'correspondence harness harness/pat.cpp (recording sink, ManualBackendWorker, #line-pinned call sites, private->public for the constructor-state mode only), g++ -fsanitize=address,undefined',
    'modelled rather than verified: PatternFormatter / MacroMetadata / the multi-line dispatch are re-stated in Gallina (Format/PatModel.v); std::string index arithmetic is modelled by structural list functions',
    'model variant (pvar) of the run = T-src facts mm_pos_bits / pf_escapes_literal_braces (tools/srcfacts.py c12_facts: clang 14 JSON AST field / return types and skeletons of MacroMetadata::_calc_* and the accessors, skeleton of _generate_fmt_format_string; TieC12.v by vm_compute); a position member of 64 bits or more (size_t) is modelled without wrap-around: a string in memory is shorter than 2^64 bytes',
    'sink dispatch (Format/PatDispatch.v): Sink::apply_all_filters is a function of (level, message line, logger statement) per sink (user filters and Sink::write_log are assumed not to throw and not to touch other sinks); tools/srcfacts.py c12d_facts (clang 14 JSON AST skeletons of _write_log_statement, _process_multi_line_message, _dispatch_transit_event_to_sinks) for the T-src tie TieC12d.v',
]

ATTRS = ['time', 'file_name', 'caller_function', 'log_level', 'log_level_short_code', 'line_number', 'logger',
         'full_path', 'thread_id', 'thread_name', 'process_id', 'source_location', 'short_source_location',
         'message', 'tags', 'named_args']
E2E_ATTRS = [a for a in ATTRS if a not in ('time', 'thread_id', 'thread_name', 'process_id')]
SEP = b'\x01\x02\x03'
LEVELS = [('TRACE_L3', 'T3'), ('TRACE_L2', 'T2'), ('TRACE_L1', 'T1'), ('DEBUG', 'D'), ('INFO', 'I'), ('NOTICE', 'N'),
          ('WARNING', 'W'), ('ERROR', 'E'), ('CRITICAL', 'C')]
# compile-time call sites of harness/pat.cpp: site -> (srcloc, function, tags, level, short, named-arg key)
SITES = {1: (b'/src/app/main.cpp:4242', b'site1', None, b'INFO', b'I', None),
         2: (b'plain.cpp:7', b'site2', b'#net #io ', b'WARNING', b'W', None),
         3: (b'a/b/c/named.cpp:99', b'site3', None, b'ERROR', b'E', b'k')}
THROWS = [256]


# ------------------------------------------------------------------ encoding
def eb(b):
    return [len(b)] + list(b)


def enc_stmt(st):
    o = []
    for k in ('time', 'tid', 'tname', 'pid', 'logger', 'level', 'short', 'srcloc', 'func'):
        o += eb(st[k])
    o += [0] if st['tags'] is None else [1] + eb(st['tags'])
    if st['nargs'] is None:
        o += [0]
    else:
        o += [1, len(st['nargs'])]
        for k, v in st['nargs']:
            o += eb(k) + eb(v)
    o += eb(st['msg']) + [st['ts']]
    return o


def enc_table(tbl):
    o = [len(tbl)]
    for (fs, v), out in tbl:
        o += eb(fs) + eb(v) + [len(out)] + list(out)
    return o


class Rd:
    def __init__(self, t, i=0): self.t = t; self.i = i
    def num(self):
        v = self.t[self.i]; self.i += 1; return v
    def raw(self):
        n = self.num(); v = self.t[self.i:self.i + n]; self.i += n
        if len(v) != n: raise IndexError
        return v
    def bs(self):
        return bytes(x & 255 for x in self.raw())


def dec_stmt(r):
    st = {}
    for k in ('time', 'tid', 'tname', 'pid', 'logger', 'level', 'short', 'srcloc', 'func'):
        st[k] = r.bs()
    st['tags'] = r.bs() if r.num() else None
    if r.num():
        st['nargs'] = [(r.bs(), r.bs()) for _ in range(r.num())]
    else:
        st['nargs'] = None
    st['msg'] = r.bs(); st['ts'] = r.num()
    return st


def dec_table(r):
    tbl = {}
    for _ in range(r.num()):
        fs = r.bs(); v = r.bs(); out = r.raw()
        tbl[(fs, v)] = list(out)
    return tbl


def decode(case):
    """case line -> dict (mode, pattern, st, table, ...) or None"""
    t = case.split()
    if not t or t[0] != 'pat': return None
    try:
        r = Rd([int(x) for x in t[1:]])
        m = r.num(); var = None
        if m == 9:      # "9 <pv_bits> <pv_esc>": the model variant the case is run on
            var = (r.num(), r.num()); m = r.num()
        d = {'mode': m, 'variant': var}
        if m == 0:
            d['pattern'] = r.bs(); d['st'] = dec_stmt(r); d['table'] = dec_table(r)
        elif m == 1:
            d['add_meta'] = r.num(); d['site'] = r.num(); d['pattern'] = r.bs(); d['st'] = dec_stmt(r)
            d['rt_file'] = r.bs(); d['rt_line'] = r.bs(); d['table'] = dec_table(r)
        elif m == 2:
            d['fmt'] = r.bs(); n = r.num(); d['args'] = [(r.bs() if r.num() else None) for _ in range(n)]
            d['table'] = dec_table(r)
        elif m == 3:
            d['pattern'] = r.bs()
        return d
    except (IndexError, ValueError):
        return None


# ------------------------------------------------------------------ the property, in Python
FIELD_RE = re.compile(rb'%\(([^):]*)(:[^)]*)?\)', re.S)


def prop_values(d, msg=None):
    """the sixteen attribute values of the statement, as the property words them"""
    st = d['st']
    if d['mode'] == 1 and d['site'] == 0:
        srcloc = d['rt_file'] + b':' + d['rt_line']; tags = None
    else:
        srcloc = st['srcloc']; tags = st['tags']
    path, _, line = srcloc.rpartition(b':')
    fname = path.rpartition(b'/')[2]
    na = st['nargs']
    return {'time': st['time'], 'file_name': fname, 'caller_function': st['func'], 'log_level': st['level'],
            'log_level_short_code': st['short'], 'line_number': line, 'logger': st['logger'], 'full_path': path,
            'thread_id': st['tid'], 'thread_name': st['tname'], 'process_id': st['pid'], 'source_location': srcloc,
            'short_source_location': fname + b':' + line, 'message': st['msg'] if msg is None else msg,
            'tags': tags or b'', 'named_args': b', '.join(k + b': ' + v for k, v in na) if na else b''}


def classify(pattern, strict=True):
    """('ok', fields) | ('unknown', name) | ('unterminated',) | ('excluded', why).  Literal braces are 'arbitrary
    literal text' of the property (finding C12-brace-literal, fixed: the formatter doubles them for fmt);
    strict=False is the reading of the pinned code (braces excluded), kept for the coverage statistics only"""
    fields = []; pos = 0; lits = []
    for m in FIELD_RE.finditer(pattern):
        lits.append(pattern[pos:m.start()]); pos = m.end()
        fields.append((m.group(1).decode('latin1'), m.group(2) or b''))
    lits.append(pattern[pos:])
    # an opener left in the literal text has no closing parenthesis after it (or the regex would have taken it)
    for i, l in enumerate(lits):
        if b'%(' in l:
            # rejected at creation only if the scan reaches it: any earlier unknown name comes first
            for n, _ in fields[:i]:
                if n not in ATTRS: return ('unknown', n)
            return ('unterminated',)
    for n, _ in fields:
        if n not in ATTRS: return ('unknown', n)
    names = [n for n, _ in fields]
    if len(set(names)) != len(names): return ('excluded', 'duplicate attribute')
    if not strict and any(b'{' in l or b'}' in l for l in lits): return ('excluded', 'brace in literal text')
    if any(b'{' in s or b'}' in s for _, s in fields): return ('excluded', 'brace in spec')
    if any(b'%(' in s for _, s in fields): return ('excluded', '%( in spec')
    return ('ok', fields)


def prop_line(d, msg=None):
    """expected line per the property, or ('throws',) when a field spec is invalid for fmt, or None if unknowable"""
    if d['pattern'] == b'':
        # documented switch of PatternFormatter ("No formatting is needed when the format pattern is empty",
        # used by the JSON sinks): the empty pattern is not a format pattern in the property's sense and the
        # formatter returns an empty statement for it
        return b''
    vals = prop_values(d, msg); tbl = d['table']; bad = []
    def sub(m):
        key = (m.group(2) or b'', vals[m.group(1).decode('latin1')])
        out = tbl.get(key)
        if out is None: bad.append('missing'); return b''
        if out == THROWS: bad.append('throws'); return b''
        return bytes(out)
    line = FIELD_RE.sub(sub, d['pattern']) + b'\n'
    if 'missing' in bad: return None
    if 'throws' in bad: return ('throws',)
    return line


def prop_msgs(d):
    """message texts of the statements the property expects for one log call"""
    st = d['st']; msg = st['msg']
    if d['add_meta'] and not st['nargs']:
        if msg == b'': return [b'']
        segs = msg.split(b'\n')
        if segs[-1] == b'': segs = segs[:-1]
        return segs
    return [msg[:-1] if msg.endswith(b'\n') else msg]


def fmt_obs(b):
    return ' '.join(map(str, [0] + eb(b)))


def prop_in_scope(d):
    """None when the case is inside the property's quantifier, else the reason it is excluded"""
    st = d['st']
    if d['mode'] == 1 and d['site'] == 0:
        if any(SEP in x for x in (st['msg'], d['rt_file'], d['rt_line'])): return 'separator inside a runtime-metadata field'
        line = d['rt_line']
    else:
        if b':' not in st['srcloc']: return 'source location without ":"'
        line = st['srcloc'].rpartition(b':')[2]
    if b'/' in line: return '"/" in the line part'
    return None


def monitor(case, impl_line, strict=True):
    if case.startswith('patd '):
        from props import patd_common as D
        return D.monitor(case, impl_line)
    d = decode(case)
    if d is None or d['mode'] not in (0, 1): return None
    c = classify(d['pattern'], strict)
    if c[0] == 'unknown':
        return None if impl_line == '1 2' else 'unknown attribute %r not rejected at creation: got [%s]' % (c[1], impl_line[:80])
    if c[0] == 'unterminated':
        return None if impl_line == '1 1' else 'unterminated %%( not rejected at creation: got [%s]' % impl_line[:80]
    if c[0] == 'excluded' or prop_in_scope(d): return None
    if impl_line.startswith('1 '):
        return 'valid pattern rejected at creation: [%s]' % impl_line
    if d['mode'] == 0:
        exp = prop_line(d)
        if exp is None: return None
        if exp == ('throws',):
            return None     # invalid fmt spec for a string field: outside "optional per-attribute format specs"
        e = '0 ' + fmt_obs(exp)
        if impl_line != e:
            return 'line differs from "pattern with every attribute substituted + newline": expected %r got [%s]' % (exp[:200], show_obs(impl_line))
        return None
    msgs = prop_msgs(d)
    exps = [prop_line(d, m) for m in msgs]
    if any(x is None or x == ('throws',) for x in exps): return None
    e = ' '.join(['0', str(len(exps))] + [fmt_obs(x) for x in exps])
    if impl_line != e:
        return 'sink lines differ from the property (add_metadata_to_multi_line_logs=%d, message %r): expected %r got [%s]' % (
            d['add_meta'], d['st']['msg'][:60], [x[:120] for x in exps], show_obs(impl_line))
    return None


def show_obs(line):
    """human-readable rendering of an observation line"""
    try:
        t = [int(x) for x in line.split()]
        if t[:2] == [0, 0] and len(t) >= 3 and t[2] == len(t) - 3:
            return repr(bytes(x & 255 for x in t[3:]))[:300]
        if t and t[0] == 0 and len(t) > 2:
            r = Rd(t, 2); out = []
            for _ in range(t[1]):
                if r.num() == 0: out.append(r.bs())
                else: out.append(('throws', r.num()))
            return repr(out)[:400]
    except (ValueError, IndexError):
        pass
    return line[:300]


# ------------------------------------------------------------------ oracle (real fmt / real timestamp formatter)
class Oracle:
    def __init__(self, ck, iexe):
        self.ck = ck; self.iexe = iexe; self.f = {}; self.t = {}

    def fields(self, pairs):
        need = sorted(set(p for p in pairs if p not in self.f))
        lines = []; chunks = []
        for i in range(0, len(need), 64):
            ch = need[i:i + 64]; chunks.append(ch)
            o = [0, len(ch)]
            for fs, v in ch: o += eb(fs) + eb(v)
            lines.append('pato ' + ' '.join(map(str, o)))
        if lines:
            outs = self.ck.run_impl(self.iexe, lines)
            for ch, ol in zip(chunks, outs):
                r = Rd([int(x) for x in ol.split()])
                for p in ch: self.f[p] = list(r.raw())
        return [(p, self.f[p]) for p in pairs]

    def times(self, tss):
        need = sorted(set(t for t in tss if t not in self.t))
        if need:
            outs = self.ck.run_impl(self.iexe, ['pato 1 %d' % t for t in need])
            for t, ol in zip(need, outs):
                self.t[t] = Rd([int(x) for x in ol.split()]).bs()
        return self.t


def mm_cxx(srcloc, bits=16):
    """what the arithmetic of MacroMetadata yields with position members of <bits> bits (used only to REQUEST
    oracle entries for source locations of 2^bits bytes and more, so that the faithful answer of the model variant
    of the run finds its table entries; never to judge)"""
    mod = (1 << bits) if bits < 64 else (1 << 64)
    colon = srcloc.rfind(b':') % mod
    fnp = (srcloc.rfind(b'/') + 1) % mod
    return {'full_path': srcloc[:colon], 'line_number': srcloc[colon + 1:], 'short_source_location': srcloc[fnp:],
            'file_name': srcloc[fnp:fnp + max(colon - fnp, 0)]}


def needed_pairs(d):
    """(fs, value) pairs a case may need: every candidate field text of the pattern with every attribute value
    (also for malformed patterns, where model and implementation must still agree)"""
    if d['mode'] == 2:
        specs = set(m.group(1) for m in re.finditer(rb'\{([^{}]*)\}', d['fmt']))
        return [(fs, v) for fs in specs for v in d['args'] if v is not None]
    fss = set([b''] + [m.group(2) or b'' for m in FIELD_RE.finditer(d['pattern'])])
    fss |= set(m.group(1) for m in re.finditer(rb'\{([^{}]*)\}', d['pattern']))
    msgs = [None]
    if d['mode'] == 1:
        msgs = [None] + prop_msgs(d) + [d['st']['msg'].rstrip(b'\n')]
    vals = set()
    for m in msgs: vals |= set(prop_values(d, m).values())
    c = classify(d['pattern'])
    if c[0] == 'ok':       # exact pairs only (keeps the lines short)
        out = []
        for m in msgs:
            pv = prop_values(d, m)
            out += [(fs, pv[n]) for n, fs in c[1]]
            if VAR['bits'] < 64 and len(pv['source_location']) >= (1 << VAR['bits']):
                cx = mm_cxx(pv['source_location'], VAR['bits'])
                out += [(fs, cx[n]) for n, fs in c[1] if n in cx]
        # a model variant that hands literal braces to fmt reads "{...}" in the literal text as a field
        if VAR['esc'] or classify(d['pattern'], strict=False)[0] == 'ok': return out
        return out + [(fs, v) for fs in fss for v in vals if len(v) <= 1024]
    return [(fs, v) for fs in fss for v in vals]


def mk_line(d, orc):
    if d['mode'] == 3:
        return 'pat ' + ' '.join(map(str, [3] + eb(d['pattern'])))
    tbl = orc.fields(list(dict.fromkeys(needed_pairs(d))))
    if d['mode'] == 0:
        o = [0] + eb(d['pattern']) + enc_stmt(d['st']) + enc_table(tbl)
    elif d['mode'] == 1:
        o = [1, d['add_meta'], d['site']] + eb(d['pattern']) + enc_stmt(d['st']) + eb(d['rt_file']) + eb(d['rt_line']) + enc_table(tbl)
    else:
        o = [2] + eb(d['fmt']) + [len(d['args'])]
        for a in d['args']: o += [0] if a is None else [1] + eb(a)
        o += enc_table(tbl)
    return 'pat ' + ' '.join(map(str, o))


# ------------------------------------------------------------------ generators
def pprint(items):
    out = b''
    for it in items:
        if it[0] == 'L': out += it[1]
        else: out += b'%(' + it[1].encode() + (b'' if it[2] is None else b':' + it[2]) + b')'
    return out


LIT_CH = b'abXY 01._-[]|/\\#=%():%():\t'
VAL_CH = b'abcXYZ019 _-./{}%{}%()<>:,"\''


BRACE_CH = b'{}{}{}"a: %'


def g_lit(rng, maxlen=6, braces=False):
    while True:
        s = bytes(rng.choice(BRACE_CH if (braces and rng.random() < 0.6) else LIT_CH) for _ in range(rng.randint(1, maxlen)))
        if b'%(' not in s: return s


def g_spec(rng):
    """[[fill]align][width][.prec] (string arguments: no sign / zero flag / type)"""
    r = rng.random()
    if r < 0.35: return None
    if r < 0.40: return b''
    s = b''
    if rng.random() < 0.8:
        if rng.random() < 0.5: s += bytes([rng.choice(b'*_ 0%:.#(x')])
        s += bytes([rng.choice(b'<>^')])
    if rng.random() < 0.85:
        s += str(rng.choice([1, 2, 3, 5, 8, 12, 28, 40]) if rng.random() < 0.9 else rng.randint(1, 600)).encode()
    if rng.random() < 0.3: s += b'.' + str(rng.choice([0, 1, 3, 7, 20])).encode()
    return s


def g_val(rng, kind=None):
    r = rng.random()
    if r < 0.12: return b''
    if r < 0.20: return bytes(rng.choice(VAL_CH) for _ in range(rng.choice([300, 511, 512, 513, 700])))
    if r < 0.35: return rng.choice([b'{}', b'{', b'}', b'%', b'%(message)', b'{:>5}', b'{{}}', b'%(', b'100%'])
    return bytes(rng.choice(VAL_CH) for _ in range(rng.randint(1, 14)))


def g_srcloc(rng):
    r = rng.random()
    if r < 0.15: d = b''
    elif r < 0.25: d = b'/'
    else: d = b''.join(bytes(rng.choice(b'abc._-:') for _ in range(rng.randint(0, 5))) + b'/' for _ in range(rng.randint(1, 4)))
    if rng.random() < 0.2: d = b'/' + d
    fname = bytes(rng.choice(b'fxyz._:') for _ in range(rng.randint(0, 8))) if rng.random() < 0.9 else b''
    line = str(rng.choice([0, 1, 7, 99, 4242, 65535, 123456])).encode() if rng.random() < 0.9 else b''
    return d + fname + b':' + line


def g_stmt(rng, e2e=False):
    lv = rng.choice(LEVELS)
    st = {'time': b'', 'tid': b'', 'tname': b'', 'pid': b'', 'logger': g_val(rng) if not e2e else b'lg',
          'level': lv[0].encode(), 'short': lv[1].encode(), 'srcloc': g_srcloc(rng), 'func': g_val(rng),
          'tags': None, 'nargs': None, 'msg': g_val(rng), 'ts': 0}
    if not e2e:
        st['tid'] = str(rng.randint(1, 99999)).encode(); st['tname'] = g_val(rng)
        st['pid'] = str(rng.randint(1, 99999)).encode()
        st['ts'] = rng.choice([0, 1, 999999999, 1000000000, 86399999999999, 1700000000123456789, rng.randint(0, 2 * 10 ** 18)])
        if rng.random() < 0.5: st['tags'] = rng.choice([b'', b'#a ', b'#net #io ', g_val(rng)])
        r = rng.random()
        if r < 0.15: st['nargs'] = []
        elif r < 0.5: st['nargs'] = [(g_val(rng), g_val(rng)) for _ in range(rng.randint(1, 3))]
        for k in ('func', 'tags'):
            if st[k] is not None: st[k] = st[k].replace(b'\0', b'')
    return st


def g_items(rng, names, nolit=0.15, braces=False):
    """braces: the literal text may hold '{' and '}' (arbitrary literal text of the property)"""
    items = []
    if rng.random() > nolit: items.append(('L', g_lit(rng, braces=braces)))
    for n in names:
        items.append(('A', n, g_spec(rng)))
        if rng.random() > nolit: items.append(('L', g_lit(rng, braces=braces)))
    return items


def g_names(rng, pool, k=None):
    if k is None:
        k = rng.choice([0, 1, 1, 2, 3, 5, 8, len(pool) - 1, len(pool) - 1, len(pool), len(pool)])
    k = min(k, len(pool))
    return rng.sample(pool, k)


def gen_direct(rng, n):
    """mode 0: valid patterns, k in {0,1,15,16} emphasised, every attribute order"""
    out = []
    for i in range(n):
        br = rng.random() < 0.15
        items = g_items(rng, g_names(rng, ATTRS), braces=br)
        if not items: items = [('L', g_lit(rng, braces=br))] if rng.random() < 0.7 else []
        p = pprint(items)
        out.append({'mode': 0, 'pattern': p, 'st': g_stmt(rng), 'kind': 'valid-brace-literal' if (b'{' in p or b'}' in p) else 'valid'})
    return out


JSON_PATTERNS = [b'{"level": "%(log_level)", "msg": "%(message)"}', b'{{%(message)', b'{%(message)}', b'}%(logger){%(message:>8)}{',
                 b'{"t": "%(time)", "src": "%(short_source_location:<20)", "m": "%(message)"}', b'{}%(message){0}{:>5}{x}', b'{']


def gen_long_srcloc(rng, n):
    """source locations around and beyond 64 KiB (finding C12-srcloc-64k, fixed): long file name, deep directory
    (the last '/' beyond 64 KiB), no directory; direct (mode 0) and through LOG_RUNTIME_METADATA (mode 1, site 0).
    The patterns use precisions so that the lines stay short."""
    out = []
    # exactly one MacroMetadata attribute per pattern: the case line carries every (spec, value) pair of the oracle
    # table (for a narrow-position variant of the model also the wrapped values), and the runner's line parser is
    # not made for lines of more than ~250000 integers
    pats = [b'%(file_name:.9)|%(message)', b'%(full_path:.7)|%(message)', b'%(short_source_location:.12) {%(message)}',
            b'%(line_number:.4)|%(message)', b'<%(source_location:.6)> %(message)', b'%(line_number)']
    for i in range(n):
        total = rng.choice([65533, 65534, 65535, 65536, 65537, 65600, 66000])
        shape = i % 3
        if shape == 0: path = b'd/' + b'a' * total
        elif shape == 1: path = (b'p' * 7 + b'/') * (total // 8) + b'f.cpp'
        else: path = b'x' * total
        line = str(rng.choice([1, 5, 42, 65535])).encode()
        p = pats[(i // 3) % len(pats)]          # every pattern with every shape
        if (i // 3 + i) % 2 == 0:
            d = e2e_case(rng, rng.choice([0, 1]), 0, rng.choice([b'm', b'a\nb']), items=[('L', b'')])
            d.update(pattern=p, rt_file=path, rt_line=line, kind='long-srcloc')
        else:
            st = g_stmt(rng); st['srcloc'] = path + b':' + line
            d = {'mode': 0, 'pattern': p, 'st': st, 'kind': 'long-srcloc'}
        out.append(d)
    return out


def gen_json(rng, n):
    """JSON-like and other brace-literal patterns (finding C12-brace-literal, fixed), direct and end to end"""
    out = []
    for i in range(n):
        p = JSON_PATTERNS[i % len(JSON_PATTERNS)]
        if i % 2 == 0 and b'%(time)' not in p:
            d = e2e_case(rng, rng.choice([0, 1]), rng.choice([0, 1, 2]), bytes(rng.choice(b'ab {}%\n') for _ in range(rng.randint(0, 9))), items=[('L', b'')])
            d.update(pattern=p, kind='json')
        else:
            d = {'mode': 0, 'pattern': p, 'st': g_stmt(rng), 'kind': 'json'}
        out.append(d)
    return out


def gen_malformed(rng, n):
    out = []
    for i in range(n):
        items = g_items(rng, g_names(rng, ATTRS, rng.randint(0, 4)))
        pos = rng.randint(0, len(items)); r = rng.random()
        if r < 0.25:
            bad = rng.choice([b'%(foo)', b'%(Time)', b'%(message )', b'%()', b'%(:>5)', b'%(level:<3)', b'%(time%(logger))', b'%(messag)'])
            p = pprint(items[:pos]) + bad + pprint(items[pos:]); kind = 'unknown'
        elif r < 0.5:
            bad = rng.choice([b'%(', b'%(time', b'%(message:>5', b'%(logger '])
            tail = pprint(items[pos:]).replace(b')', b']')
            p = pprint(items[:pos]) + bad + tail; kind = 'unterminated'
        elif r < 0.7:
            names = [it[1] for it in items if it[0] == 'A'] or ['message']
            dup = ('A', rng.choice(names), g_spec(rng))
            if not any(it[0] == 'A' for it in items): items = items + [('A', 'message', None)]
            items2 = items[:pos] + [dup] + items[pos:]
            p = pprint(items2); kind = 'duplicate'
        elif r < 0.9:
            br = rng.choice([b'{', b'}', b'{{', b'}}', b'{}', b'{0}', b'{x}', b'{:>3}', b'{{}}', b'{"k": "', b'"}'])
            p = pprint(items[:pos]) + br + pprint(items[pos:]); kind = 'brace-literal'
        else:
            a = rng.choice(ATTRS)
            p = pprint(items[:pos]) + b'%(' + a.encode() + rng.choice([b':d', b':>x', b':{}', b':10.', b':}', b':q', b':=5']) + b')' + pprint(items[pos:])
            kind = 'badspec'
        out.append({'mode': 0, 'pattern': p, 'st': g_stmt(rng), 'kind': kind})
    return out


def all_msgs(maxlen=6):
    out = [b'']
    for l in range(1, maxlen + 1):
        for m in range(2 ** l):
            out.append(bytes((10 if (m >> i) & 1 else 97) for i in range(l)))
    return out


E2E_NO = [0]


def e2e_case(rng, add_meta, site, msg, items=None):
    if items is None: items = g_items(rng, g_names(rng, E2E_ATTRS, rng.choice([1, 2, 3, 12])), braces=rng.random() < 0.12)
    if not items: items = [('A', 'message', None)]
    st = g_stmt(rng, e2e=True); st['msg'] = msg
    E2E_NO[0] += 1; st['logger'] = b'lg%d' % E2E_NO[0]     # logger names are unique within a run
    rt_file = b''; rt_line = b''
    if site == 0:
        sl = g_srcloc(rng); rt_file, _, rt_line = sl.rpartition(b':')
        rt_file = rt_file.replace(b'\0', b''); rt_line = str(int(rt_line or b'0')).encode()
        st['func'] = st['func'].replace(b'\0', b''); st['srcloc'] = b''
    else:
        srcloc, func, tags, lv, sc, key = SITES[site]
        st.update(srcloc=srcloc, func=func, tags=tags, level=lv, short=sc)
        if key is not None: st['nargs'] = [(key, msg)]
    return {'mode': 1, 'add_meta': add_meta, 'site': site, 'pattern': pprint(items), 'st': st,
            'rt_file': rt_file, 'rt_line': rt_line, 'kind': 'e2e'}


def gen_e2e(rng, n_random, exhaustive_len):
    out = []
    fixed = [('L', b'['), ('A', 'log_level', b'<7'), ('L', b'] '), ('A', 'short_source_location', None), ('L', b' | '), ('A', 'message', None)]
    for msg in all_msgs(exhaustive_len):
        for am in (1, 0):
            out.append(e2e_case(rng, am, rng.choice([0, 1, 1, 2]), msg, items=fixed if rng.random() < 0.5 else None))
    for msg in all_msgs(3):          # named-arg call site: always the single-statement path
        out.append(e2e_case(rng, 1, 3, msg))
    for i in range(n_random):
        l = rng.choice([7, 12, 40, 200, 600])
        msg = bytes(rng.choice(b'ab {}%\n\n\n') for _ in range(l))
        out.append(e2e_case(rng, rng.choice([0, 1, 1]), rng.choice([0, 0, 1, 2, 3]), msg))
    return out


def gen_fmt(rng, n):
    """mode 2: the mini-fmt parser against the real vformat_to, on generated format strings + malformed ones"""
    out = []
    for i in range(n):
        k = rng.randint(0, 5)
        parts = []
        for j in range(k):
            if rng.random() < 0.8: parts.append(g_lit(rng).replace(b'{', b'').replace(b'}', b''))
            sp = g_spec(rng)
            parts.append(b'{' + (b'' if sp is None else b':' + sp) + b'}')
        if rng.random() < 0.8: parts.append(g_lit(rng))
        f = b''.join(parts) + b'\n'
        r = rng.random()
        if r < 0.25:
            pos = rng.randint(0, len(f))
            f = f[:pos] + rng.choice([b'{{', b'}}', b'{', b'}', b'{}', b'{{}}', b'}{']) + f[pos:]
        nargs = rng.choice([k, k, k, max(k - 1, 0), k + 1])
        args = [(g_val(rng) if rng.random() < 0.92 else None) for _ in range(nargs)]
        out.append({'mode': 2, 'fmt': f, 'args': args, 'kind': 'fmt'})
    return out


def gen_state(rng, n):
    out = []
    for i in range(n):
        items = g_items(rng, g_names(rng, ATTRS))
        out.append({'mode': 3, 'pattern': pprint(items), 'kind': 'state'})
    for d in gen_malformed(rng, n // 4):
        out.append({'mode': 3, 'pattern': d['pattern'], 'kind': 'state-' + d['kind']})
    return out


def corpus():
    d = os.path.join(VERIF, 'corpus', PID)
    out = []
    if os.path.isdir(d):
        for f in sorted(os.listdir(d)):
            for l in open(os.path.join(d, f)):
                l = l.strip()
                if l and not l.startswith('#'): out.append(l)
    return out


# ------------------------------------------------------------------ known findings
def open_findings():
    p = os.path.join(VERIF, 'known_findings.d', PID + '.json')
    if not os.path.exists(p): return []
    return [f for f in json.load(open(p)) if f.get('status') == 'open']


def known_match(case, impl_line, msg):
    if case.startswith('patd '):
        from props import patd_common as D
        return D.known_match(case, impl_line, msg)
    d = decode(case)
    if d is None or 'pattern' not in d: return None
    for f in open_findings():
        s = f.get('signature', {})
        k = s.get('kind')
        if k == 'empty-pattern' and d['pattern'] == b'':
            return '%s: %s' % (f['id'], f['what'])
        if k == 'pattern-bytes' and d['pattern'].hex() in s.get('patterns_hex', []):
            return '%s: %s' % (f['id'], f['what'])
        if k == 'source-location-64k':
            sl = d['rt_file'] + b':' + d['rt_line'] if (d['mode'] == 1 and d['site'] == 0) else d['st']['srcloc']
            if len(sl) >= 65536: return '%s: %s' % (f['id'], f['what'])
    return None


# ------------------------------------------------------------------ run
def build(ck):
    mexe, err = ck.build_modelrun()
    if not mexe:
        ck.violation('no-failing-input-found', 'model extraction/build failed: ' + err[-400:]); return None, None
    iexe, err = ck.build_harness('pat', ['pat.cpp'])
    if not iexe:
        ck.violation('no-failing-input-found', 'harness pat.cpp does not compile against the repo: ' + err[-900:]); return None, None
    return mexe, iexe


def norm_obs(case, o):
    """a format() / vformat_to that throws is the observation "throws": the kind of fmt error (which message fmt
    picks for an invalid format string) is not part of the comparison; constructor error kinds are"""
    if not case.startswith('pat '): return o
    t = case.split(' ', 5)
    mode = t[4] if (len(t) > 4 and t[1] == '9') else t[1]       # behind the variant header "9 <bits> <esc>"
    if mode == '0' and o.startswith('0 1 '): return '0 1'
    if mode == '2' and o.startswith('1 '): return '1'
    return o


def norm_model(m, i):
    """the model's 'outside the mini-fmt fragment' answer is not a prediction"""
    if m in ('1 4', '0 1 4'): return i
    return m


def run(tier):
    from props import patd_common as D
    from props.c01 import srcfacts_values
    ck = Check(PID, tier)
    broken = standard_proof_phase(ck, 'Properties_C12')
    # part (d): the sink-selection theorems and their T-src tie (Properties_C12d imports TieC12d)
    for o in ck.coq_obligations('Properties_C12d'):
        if not o['discharged']: broken.append('theorem %s: %s' % (o['name'], o['why']))
    facts = srcfacts_values()
    reinit = facts.get('be_log_to_write_reinit_per_sink')
    # the model variant that stands for the code: log_to_write declared outside the loop <=> hoist = 1
    hoist = 0 if reinit == 'true' else 1
    ck.tie.append({'T-src facts': {'be_log_to_write_reinit_per_sink': reinit},
                   'model variant for the dispatch correspondence': 'hoist=%d' % hoist,
                   'lemmas': 'TieC12d.src_log_to_write_reinit_per_sink, TieC12d.c12d_skeletons_ok (vm_compute)'})
    # ... width of the MacroMetadata position members, literal braces doubled or not
    var = set_variant(facts)
    ck.tie.append({'T-src facts': {'mm_pos_bits': facts.get('mm_pos_bits'), 'pf_escapes_literal_braces': facts.get('pf_escapes_literal_braces')},
                   'model variant for the formatter correspondence': 'pv_bits=%d pv_esc=%d' % (var['bits'], var['esc']),
                   'lemmas': 'TieC12.src_mm_pos_bits (= 64), TieC12.src_pf_escapes_literal_braces (= true), TieC12.c12_skeletons_ok (vm_compute)'})
    q = tier == 'quick'
    if not q:
        # independent re-check of the compiled closure of the property files by coqchk
        for pf in ('Properties_C12', 'Properties_C12d'):
            rc, so, se = sh(['coqchk', '-silent', '-o', '-Q', 'theories', 'Quill', '-Q', 'gen', 'QuillGen', 'Quill.Props.' + pf], cwd=COQ, timeout=1200)
            ok = rc == 0 and '* Axioms: <none>' in (so + str(se))      # coqchk prints its context summary on stderr
            ck.tie.append({'name': 'coqchk -o Quill.Props.' + pf, 'ok': ok})
            if not ok: broken.append('coqchk -o on %s failed: ' % pf + (so + str(se))[-300:])
    mexe, iexe = build(ck)
    if not mexe: return ck.finish(trusted=TRUSTED)
    orc = Oracle(ck, iexe); rng = ck.rng
    objs = (gen_direct(rng, 3000 if q else 40000) + gen_malformed(rng, 800 if q else 10000)
            + gen_e2e(rng, 300 if q else 4000, 6 if q else 9) + gen_fmt(rng, 1000 if q else 15000)
            + gen_state(rng, 600 if q else 8000) + gen_json(rng, 60 if q else 600) + gen_long_srcloc(rng, 18 if q else 72))
    dobjs = D.gen(rng, 1500 if q else 20000, hoist)
    tm = orc.times([o['st']['ts'] for o in objs if o['mode'] == 0])
    for o in objs:
        if o['mode'] == 0: o['st']['time'] = tm[o['st']['ts']]
    # one oracle round for everything, then the lines
    allpairs = []
    for o in objs:
        if o['mode'] != 3: allpairs += needed_pairs(o)
    for o in dobjs: allpairs += D.needed_pairs(o)
    orc.fields(allpairs)
    gen_lines = [with_hoist(mk_line(o, orc), hoist) for o in objs] + [with_hoist(D.enc_case(o, orc), hoist) for o in dobjs]
    kinds = {}
    for o in objs: kinds[o['kind']] = kinds.get(o['kind'], 0) + 1
    kinds['dispatch'] = len(dobjs)
    cp = [with_hoist(c, hoist) for c in corpus()]
    cases = cp + gen_lines
    ck.log('cases: %d corpus + %d generated %s' % (len(cp), len(gen_lines), kinds))
    ml = ck.run_model(mexe, cases)
    il = ck.run_impl(iexe, cases, timeout=600 if q else 3000)
    ml = [norm_obs(c, norm_model(m, i)) for c, m, i in zip(cases, ml, il)]
    ml = [(i if (c.startswith('patd ') and not D.model_is_prediction(m)) else m) for c, m, i in zip(cases, ml, il)]
    il = [norm_obs(c, i) for c, i in zip(cases, il)]

    def shrink(case, mode):
        if case.startswith('patd '):
            return D.shrink_case(ck, mexe, iexe, orc, case, mode,
                                 lambda m, i: (not D.model_is_prediction(m)) or m == i)
        return shrink_case(ck, mexe, iexe, orc, case, mode)

    dis, mon = correspond(ck, 'M-PAT vs PatternFormatter/BackendWorker/vformat_to', cases, ml, il,
                          monitor=monitor, shrink=shrink, known_match=known_match)
    # replays of the open findings (corpus/C12/findings.case): KNOWN-FINDING while they still fail, judged with
    # the strict reading of the property (literal braces are literal text)
    for c, i in zip(cases[:len(cp)], il[:len(cp)]):
        mf = monitor(c, i, strict=True)
        if mf:
            k = known_match(c, i, mf)
            if k and k not in ck.known: ck.known.append(k)
            elif not k and not ck.violations:
                ck.violation('impl-failing-input', 'property monitor (strict) on a corpus case: ' + mf, case=c, expected='property clause holds', observed=i[:2000])
    if hoist == 1 and not ck.violations:
        # T-src says log_to_write is not re-initialised per sink and no generated case showed it: the model witness
        ck.violation('model-witness', 'SrcFacts.be_log_to_write_reinit_per_sink = false: a sink without override behind a sink with override pattern is handed the override line (theorem C12d_hoisted_refuted); broken: ' + '; '.join(broken)[:300],
                     case=with_hoist(D.corpus_cases(orc, 1)[0], 1), expected='the plain sink is handed the line of the logger\'s pattern',
                     observed='model variant hoist=1: the plain sink is handed the override line')
    share_cases = formatter_sharing_phase(ck)      # several loggers: each line carries its own logger's pattern options
    if broken and not ck.violations:
        ck.violation('no-failing-input-found', '; '.join(broken))
    # what the code does on the inputs the property excludes (documented, not judged)
    excl = {}
    zone = {'brace_literal_patterns': 0, 'source_locations_64k_and_more': 0}     # the zones of the two fixed findings
    nt = set()
    for c, i in zip(cases, il):
        d = decode(c)
        if d is None or d['mode'] not in (0, 1): continue
        cl = classify(d['pattern'])
        if cl[0] == 'excluded':
            key = '%s -> %s' % (cl[1], 'format throws' if i.startswith('0 1') else 'constructor throws' if i.startswith('1') else 'a line is produced')
            excl[key] = excl.get(key, 0) + 1
        elif cl[0] == 'ok' and classify(d['pattern'], strict=False)[0] != 'ok':
            zone['brace_literal_patterns'] += 1
        if cl[0] == 'ok' and len(prop_values(d)['source_location']) >= 65536:
            zone['source_locations_64k_and_more'] += 1
        elif cl[0] == 'ok' and len(cl[1]) >= 2 and len(set(s for _, s in cl[1])) >= 2:
            nt.add(c)
        elif cl[0] == 'ok' and d['mode'] == 1 and b'\n' in d['st']['msg']:
            nt.add(c)
    nused = {}
    for o in objs:
        if o['mode'] == 0 and o['kind'] == 'valid':
            k = len(FIELD_RE.findall(o['pattern'])); nused[k] = nused.get(k, 0) + 1
    # part (d) coverage: measured on the implementation's observations
    dcov = {'cases': 0, 'in_property_scope': 0, 'override_sink_before_plain_sink_both_written': 0, 'statements': 0,
            'multi_line_statements': 0, 'cases_with_a_filtered_out_sink': 0, 'cases_with_two_loggers': 0,
            'cases_with_a_throwing_statement': 0, 'sinks_per_case_histogram': {}, 'model_variant_hoist': hoist}
    for c, i in zip(cases, il):
        if not c.startswith('patd '): continue
        d = D.decode(c)
        if d is None: continue
        dcov['cases'] += 1; dcov['statements'] += len(d['stmts'])
        dcov['multi_line_statements'] += sum(1 for t in d['stmts'] if b'\n' in t['st']['msg'])
        k = str(len(d['sinks'])); dcov['sinks_per_case_histogram'][k] = dcov['sinks_per_case_histogram'].get(k, 0) + 1
        if len(d['loggers']) > 1: dcov['cases_with_two_loggers'] += 1
        if D.in_scope(d) is None: dcov['in_property_scope'] += 1
        o = D.parse_obs(i)
        if o:
            if any(o[0]): dcov['cases_with_a_throwing_statement'] += 1
            used = set(x for l in d['loggers'] for x in l['sinks'])
            if any(ix < len(o[1]) and not o[1][ix] for ix in used): dcov['cases_with_a_filtered_out_sink'] += 1
        if D.nontrivial(d, i):
            dcov['override_sink_before_plain_sink_both_written'] += 1; nt.add(c)
    return ck.finish(trusted=TRUSTED, samples=[c[:400] for c in (gen_lines[:2] + gen_lines[len(objs) - 1:len(objs)] + gen_lines[-1:])],
                     rule='case = "pat [9 <pv_bits> <pv_esc>] <mode> ..." (model variant header; 0 create+format, 1 lines at the recording sink through the real backend, 2 vformat_to alone, 3 constructor state) or "patd <variant> sinks loggers statements" (lines handed to each of several sinks through the real backend), strings length-prefixed, oracle table appended; non-trivial = valid pattern with >= 2 attributes and >= 2 different specs, or a multi-line message through the backend, or (patd) a logger whose override-pattern sink precedes a plain sink and both were written; distinct by case text',
                     evaluations=len(cases), distinct_nontrivial=len(nt), traces=len(cases) - len(dis) - len(mon),
                     extra_cov={'disagreements': len(dis), 'monitor_failures': len(mon), 'corpus_cases': len(cp),
                                'generated_by_kind': kinds, 'attributes_used_histogram': {str(k): v for k, v in sorted(nused.items())},
                                'oracle_field_renderings': len(orc.f),
                                'behaviour_on_excluded_inputs': excl, 'valid_cases_in_the_zones_of_fixed_findings': zone,
                                'model_variant': 'pv_bits=%d pv_esc=%d hoist=%d' % (var['bits'], var['esc'], hoist), 'sink_dispatch': dcov})


def dispatch_phase(ck, tier, broken, n_quick=400, n_thorough=5000, skip_multiline_option_zone=True):
    """the sink-dispatch part (d) alone, for another property's check (C16: "each sink receives the line formatted
    with its own override pattern if it has one, else the logger's"): obligations of Properties_C12d, T-src fact,
    patd correspondence through the real backend + the dispatch monitor. Adds violations to ck; returns coverage."""
    from props import patd_common as D
    from props.c01 import srcfacts_values
    for o in ck.coq_obligations('Properties_C12d'):
        if not o['discharged']: broken.append('theorem %s: %s' % (o['name'], o['why']))
    facts = srcfacts_values()
    reinit = facts.get('be_log_to_write_reinit_per_sink')
    hoist = 0 if reinit == 'true' else 1
    var = set_variant(facts)
    ck.tie.append({'T-src facts': {'be_log_to_write_reinit_per_sink': reinit, 'mm_pos_bits': facts.get('mm_pos_bits'), 'pf_escapes_literal_braces': facts.get('pf_escapes_literal_braces')},
                   'model variant for the dispatch correspondence': 'hoist=%d pv_bits=%d pv_esc=%d' % (hoist, var['bits'], var['esc'])})
    mexe, iexe = build(ck)
    if not mexe: return {'built': False}
    orc = Oracle(ck, iexe)
    dobjs = D.gen(ck.rng, n_quick if tier == 'quick' else n_thorough, hoist)
    allpairs = []
    for o in dobjs: allpairs += D.needed_pairs(o)
    orc.fields(allpairs)
    cp = [with_hoist(c, hoist) for c in corpus() if c.startswith('patd ')]
    cases = cp + [with_hoist(D.enc_case(o, orc), hoist) for o in dobjs]
    if skip_multiline_option_zone:
        # the open finding about the multi-line option of override options belongs to C12: those inputs are left to C12
        cases = [c for c in cases if D.decode(c) is None or not D.in_override_multiline_zone(D.decode(c))]
    ml = ck.run_model(mexe, cases)
    il = ck.run_impl(iexe, cases, timeout=600)
    ml = [norm_obs(c, norm_model(m, i)) for c, m, i in zip(cases, ml, il)]
    ml = [(i if not D.model_is_prediction(m) else m) for c, m, i in zip(cases, ml, il)]
    il = [norm_obs(c, i) for c, i in zip(cases, il)]
    def shrink(case, mode):
        return D.shrink_case(ck, mexe, iexe, orc, case, mode, lambda m, i: (not D.model_is_prediction(m)) or m == i)
    before = len(ck.violations)
    dis, mon = correspond(ck, 'M-PATD vs BackendWorker sink dispatch', cases, ml, il, monitor=monitor, shrink=shrink, known_match=known_match)
    nt = sum(1 for c, i in zip(cases, il) if D.decode(c) is not None and D.nontrivial(D.decode(c), i))
    if hoist == 1 and len(ck.violations) == before:
        ck.violation('model-witness', 'SrcFacts.be_log_to_write_reinit_per_sink = false: a sink without override behind a sink with an override pattern is handed the override line (theorem C12d_hoisted_refuted)',
                     case=with_hoist(D.corpus_cases(orc, 1)[0], 1), expected='the plain sink is handed the line of the logger\'s pattern',
                     observed='model variant hoist=1: the plain sink is handed the override line')
    share = formatter_sharing_phase(ck)
    return {'dispatch_cases': len(cases), 'override_sink_before_plain_sink_both_written': nt, 'disagreements': len(dis), 'monitor_failures': len(mon), 'model_variant_hoist': hoist,
            'formatter_sharing_cases': share}


PFO_MEMBER = ['format_pattern', 'timestamp_pattern', 'timestamp_timezone', 'add_metadata_to_multi_line_logs']


def formatter_sharing_phase(ck):
    """"else the logger's pattern" when several loggers exist (harness/pfshare.cpp): for every member of
    PatternFormatterOptions two loggers differing in that member only (plus 0-3 other loggers) log through the real
    backend in both orders; each line must carry its own logger's options (the backend shares formatter objects among
    loggers with equal options). The expectation is computed by the harness from the options alone (literal timestamp
    text), independent of the Coq model. Returns the number of cases run."""
    exe, err = ck.build_harness('pfshare', ['pfshare.cpp'], san=False)
    if not exe:
        ck.violation('no-failing-input-found', 'harness pfshare.cpp does not compile against /repo: ' + err[-400:]); return 0
    cases = ['pfshare %d %d %d' % (m, o, n) for m in range(4) for o in (0, 1) for n in (0, 1, 3)]
    il = ck.run_impl(exe, cases, per_case_timeout=20)
    for c, i in zip(cases, il):
        if i.strip() != '1':
            a = c.split()
            ck.violation('impl-failing-input',
                         'two loggers whose pattern options differ only in %s (the %s one dispatched first, %s other loggers): a line was formatted with the other logger\'s options - '
                         'the backend handed this logger a PatternFormatter built for different options' % (PFO_MEMBER[int(a[1])], 'second' if a[2] == '1' else 'first', a[3]),
                         case=c, expected='1 (every line carries its own logger\'s options)', observed=i[:200])
            break
    return len(cases)


# the model variant of the run (Format/PatModel.v, record pvar): set from the T-src facts by set_variant()
VAR = {'bits': 16, 'esc': 0}


def set_variant(facts):
    """reads the model variant that stands for the checked tree from coq/gen/SrcFacts.v"""
    try: bits = int(str(facts.get('mm_pos_bits', '16')).split('%')[0])
    except ValueError: bits = 16
    VAR['bits'] = bits if bits > 0 else 16
    VAR['esc'] = 1 if facts.get('pf_escapes_literal_braces') == 'true' else 0
    return dict(VAR)


def with_hoist(case, hoist):
    """a pat line gets the header "9 <pv_bits> <pv_esc>", a patd line carries hoist + 2 pv_esc + 4 pv_bits as its
    first number (PatDispatch.patd_variant): set to the variant of this run"""
    if case.startswith('pat '):
        t = case.split(' ')
        if len(t) > 1 and t[1] == '9': t = t[:1] + t[4:]
        return ' '.join(['pat', '9', str(VAR['bits']), str(VAR['esc'])] + t[1:])
    if not case.startswith('patd '): return case
    t = case.split(' ', 2)
    return '%s %d %s' % (t[0], hoist + 2 * VAR['esc'] + 4 * VAR['bits'], t[2])


def shrink_case(ck, mexe, iexe, orc, case, mode):
    d = decode(case)
    if d is None or d['mode'] not in (0, 1): return case

    def fails(dd):
        c = with_hoist(mk_line(dd, orc), 0)
        i = ck.run_impl(iexe, [c])[0]
        if mode == 'monitor': return monitor(c, i) is not None
        return norm_obs(c, norm_model(ck.run_model(mexe, [c])[0], i)) != norm_obs(c, i)

    def with_(k, v):
        dd = dict(d); dd['st'] = dict(d['st'])
        if k == 'pattern': dd['pattern'] = v
        else: dd['st'][k] = v
        if k == 'msg' and d['mode'] == 1 and d['site'] == 3: dd['st']['nargs'] = [(SITES[3][5], v)]
        return dd
    try:
        # pattern: drop whole fields / literal runs, then message bytes, then other values
        toks = [m for m in re.split(rb'(%\([^)]*\))', d['pattern']) if m]
        if len(toks) >= 2:
            toks = ddmin(toks, lambda t: fails(with_('pattern', b''.join(t))), max_tests=60)
            d = with_('pattern', b''.join(toks))
        for k in ('msg', 'func', 'logger', 'tname'):
            if k == 'func' and d['mode'] == 1 and d['site'] != 0: continue    # a constant of the call site
            v = d['st'][k]
            if len(v) >= 2:
                nv = bytes(ddmin(list(v), lambda t: fails(with_(k, bytes(t))), max_tests=40))
                d = with_(k, nv)
        return with_hoist(mk_line(d, orc), 0)
    except Exception:
        return case


def replay(path):
    dct = json.load(open(path))
    ck = Check(PID, 'quick')
    mexe, iexe = build(ck)
    c = dct.get('case')
    if not c or not mexe:
        print('replay holds no concrete case; broken:', dct.get('broken')); return 1
    if c.startswith('patd '):
        from props import patd_common as D
        m = ck.run_model(mexe, [c])[0]; i = ck.run_impl(iexe, [c])[0]
        print('case :', c[:2000]); print(D.describe(c))
        print('model (variant flag %s):' % c.split()[1], D.show_obs(m)); print('impl :', D.show_obs(i))
        mf = D.monitor(c, i)
        print('property monitor:', mf or 'holds')
        if mf and D.known_match(c, i, mf): print('KNOWN-FINDING: property=%s %s' % (PID, D.known_match(c, i, mf)))
        return 1 if mf else 0
    d = decode(c)
    m = ck.run_model(mexe, [c])[0]; i = ck.run_impl(iexe, [c])[0]
    print('case :', c[:2000])
    if d and 'pattern' in d: print('pattern:', d['pattern'][:300])
    if d and 'st' in d: print('statement:', {k: (v[:80] if isinstance(v, bytes) else v) for k, v in d['st'].items()})
    print('model:', show_obs(m)); print('impl :', show_obs(i))
    mf = monitor(c, i, strict=True)
    print('property monitor:', mf or 'holds')
    if mf and known_match(c, i, mf): print('KNOWN-FINDING: property=%s %s' % (PID, known_match(c, i, mf)))
    return 1 if mf else 0


# ------------------------------------------------------------------ corpus (run by hand: python3 -c "import props.c12 as P; P.make_corpus()")
def make_corpus():
    """(re)writes corpus/C12/*.case: boundary cases and the replays of the known findings"""
    ck = Check(PID, 'quick'); mexe, iexe = build(ck); orc = Oracle(ck, iexe)
    st0 = {'time': b'', 'tid': b'31337', 'tname': b'worker-1', 'pid': b'4711', 'logger': b'root', 'level': b'INFO', 'short': b'I',
           'srcloc': b'/home/u/proj/src/main.cpp:42', 'func': b'main', 'tags': b'#net #io ',
           'nargs': [(b'user', b'bob'), (b'id', b'7')], 'msg': b'hello {} 100% %(time)', 'ts': 1700000000123456789}
    st0['time'] = orc.times([st0['ts']])[st0['ts']]

    def m0(pattern, **kw):
        st = dict(st0); st.update(kw)
        return mk_line({'mode': 0, 'pattern': pattern, 'st': st}, orc)

    def m1(add_meta, site, pattern, msg, rt_file=b'', rt_line=b'', func=b'rtfunc', level=(b'DEBUG', b'D')):
        E2E_NO[0] += 1
        st = {'time': b'', 'tid': b'', 'tname': b'', 'pid': b'', 'logger': b'corpus%d' % E2E_NO[0], 'level': level[0], 'short': level[1],
              'srcloc': b'', 'func': func, 'tags': None, 'nargs': None, 'msg': msg, 'ts': 0}
        if site:
            srcloc, fn, tags, lv, sc, key = SITES[site]
            st.update(srcloc=srcloc, func=fn, tags=tags, level=lv, short=sc)
            if key is not None: st['nargs'] = [(key, msg)]
        return mk_line({'mode': 1, 'add_meta': add_meta, 'site': site, 'pattern': pattern, 'st': st, 'rt_file': rt_file, 'rt_line': rt_line}, orc)

    allp = b' '.join(b'%(' + a.encode() + b')' for a in ATTRS)
    revp = b'|'.join(b'%(' + a.encode() + b':>6)' for a in reversed(ATTRS))
    no_msg = b','.join(b'%(' + a.encode() + b')' for a in ATTRS if a != 'message')
    ml = b'[%(log_level_short_code)] %(file_name):%(line_number) %(caller_function) %(message)'
    boundary = [
        '# quill default pattern', m0(b'%(time) [%(thread_id)] %(short_source_location:<28) LOG_%(log_level:<9) %(logger:<12) %(message)'),
        '# all sixteen attributes in enum order / reversed with specs / fifteen (message unused: written to the shared slot 15)',
        m0(allp), m0(revp), m0(no_msg), m0(no_msg, nargs=None, tags=None),
        '# literals with % ( ) : around attributes; literal only', m0(b'100%%(message)%'), m0(b'%%(logger:%>8)(%)%(message:(^40):%'), m0(b'plain text, 0 attributes (50%)'),
        '# values: empty, braces, percent, 600 bytes (buffer growth past 512)', m0(b'<%(message)><%(logger:*^5)><%(tags)><%(named_args)>', msg=b'', logger=b'', tags=None, nargs=None),
        m0(b'%(message)|%(caller_function:.3)|%(thread_name:>12)', msg=b'{} {:>5} {{ }} %(logger)', func=b'{fn}', tname=b'%'), m0(b'%(logger) %(message)', msg=b'x' * 600),
        '# source location shapes', m0(b'%(full_path)|%(file_name)|%(line_number)|%(short_source_location)|%(source_location)', srcloc=b'main.cpp:1'),
        m0(b'%(full_path)|%(file_name)|%(line_number)|%(short_source_location)', srcloc=b'/:0'), m0(b'%(full_path)|%(file_name)|%(line_number)|%(short_source_location)', srcloc=b'C:/x/y.cpp:123456'),
        '# rejected at creation', m0(b'%(time) %(foo)'), m0(b'%(message'), m0(b'a %(logger) b %(message:>5'), m0(b'%()'),
        '# excluded by the property (documented): attribute twice -> format throws "argument not found"', m0(b'%(message) %(message)'),
        '# multi-line through the backend: option on / off, empty middle line, trailing newline(s), only newlines, empty message',
        m1(1, 1, ml, b'a\n\nb'), m1(0, 1, ml, b'a\n\nb'), m1(1, 2, ml, b'a\n'), m1(0, 2, ml, b'a\n'), m1(1, 1, ml, b'a\n\n'), m1(0, 1, ml, b'a\n\n'),
        m1(1, 1, ml, b'\n'), m1(1, 1, ml, b'\n\n\n'), m1(1, 1, ml, b''), m1(0, 1, ml, b''), m1(1, 3, ml + b' {%(named_args)}'.replace(b'{', b'<').replace(b'}', b'>'), b'x\ny\n'),
        '# run-time metadata', m1(1, 0, ml + b' @%(full_path)|%(short_source_location)|%(tags)', b'rt\nmsg', rt_file=b'/opt/app/dir.d/file.cc', rt_line=b'77'),
        m1(0, 0, ml, b'rt\n', rt_file=b'nodir.cc', rt_line=b'0', func=b''),
    ]
    big = b'a' * 65536
    findings = [
        '# the empty pattern is the documented no-formatting switch: format() returns ""', m0(b''), m1(1, 1, b'', b'a\nb'),
        '# C12-brace-literal (fixed): literal braces are literal text (the pinned code handed them to fmt as format syntax)', m0(b'{{%(message)'), m0(b'{"level": "%(log_level)", "msg": "%(message)"}'),
        '# C12-srcloc-64k (fixed): the pinned code kept the positions in uint16_t (LOG_RUNTIME_METADATA with a 65538-byte file name: line_number came out as "aaaa" instead of "5")',
        m1(1, 0, b'%(line_number:.4)|%(message)', b'm', rt_file=b'd/' + big, rt_line=b'5'),
    ]
    d = os.path.join(VERIF, 'corpus', PID); os.makedirs(d, exist_ok=True)
    open(os.path.join(d, 'boundary.case'), 'w').write('\n'.join(boundary) + '\n')
    open(os.path.join(d, 'findings.case'), 'w').write('\n'.join(findings) + '\n')
    make_corpus_dispatch(ck, mexe, iexe, orc)
    cases = [c for c in boundary + findings if not c.startswith('#')]
    mlines = ck.run_model(mexe, cases); il = ck.run_impl(iexe, cases)
    for c, m, i in zip(cases, mlines, il):
        mf = monitor(c, i, strict=True)
        print(decode(c).get('pattern')[:60], '| agree' if norm_obs(c, m) == norm_obs(c, i) else '| DISAGREE m=[%s] i=[%s]' % (m[:80], i[:80]), '|', (mf or 'ok')[:160], '|', known_match(c, i, mf) if mf else '')


def make_corpus_dispatch(ck=None, mexe=None, iexe=None, orc=None):
    """(re)writes corpus/C12/dispatch.case and dispatch_findings.case (part (d)); python3 -c "import props.c12 as P; P.make_corpus_dispatch()" """
    from props import patd_common as D
    if ck is None:
        ck = Check(PID, 'quick'); mexe, iexe = build(ck); orc = Oracle(ck, iexe)
    b = D.corpus_cases(orc, 0); f = D.finding_cases(orc, 0)
    d = os.path.join(VERIF, 'corpus', PID)
    open(os.path.join(d, 'dispatch.case'), 'w').write(
        '# part (d): override sink before / behind plain sinks, filters that pass only some sinks, shared sinks and formatters\n' + '\n'.join(b) + '\n')
    open(os.path.join(d, 'dispatch_findings.case'), 'w').write(
        '# C12-override-multiline-option (open): the add_metadata_to_multi_line_logs of a sink\'s override options is never read\n' + '\n'.join(f) + '\n')
    cases = b + f
    ml = ck.run_model(mexe, cases); il = ck.run_impl(iexe, cases)
    for c, m, i in zip(cases, ml, il):
        mf = D.monitor(c, i)
        print('agree' if m == i else 'DISAGREE', '|', (mf or 'ok')[:200], '|', D.known_match(c, i, mf) if mf else '', '|', D.show_obs(i)[:300])
