"""C12 (d) — which formatted line each sink of a logger is handed (BackendWorker::_write_log_statement,
_process_multi_line_message, _dispatch_transit_event_to_sinks).  Case lines "patd ...", generators, the
property monitor (no model), shrinking.  Used by props/c12.py; the formatter part (attribute values, oracle
table, regex substitution) is shared with it.

case (strings are <len> <byte>*len):
  patd <h> <nsinks> sink* <nloggers> logger* <nstmts> statement* <table>
    h         := hoist + 2 * pv_esc + 4 * pv_bits    (the model variant; props/c12.py with_hoist sets it)
    sink      := (0 | 1 <pattern> <add_meta>) <min_level> (0 | 1 <byte> | 2 <byte>)
    logger    := <name> <pattern> <add_meta> <n> <sink index>*n
    statement := <logger index> <level 0..8> <site> <stmt> <rt_file> <rt_line>
obs: 0 <nstmts> <threw 0|1>*nstmts <nsinks> (<n> (<len> <byte>*len)*n)*nsinks
"""
import os, re
import props.c12 as P
from vlib import ddmin, VERIF

LEVEL_NO = {n.encode(): i for i, (n, _) in enumerate(P.LEVELS)}


# ------------------------------------------------------------------ encoding / decoding
def enc_case(d, orc):
    o = [d['hoist'], len(d['sinks'])]
    for s in d['sinks']:
        o += [0] if s['ov'] is None else [1] + P.eb(s['ov'][0]) + [s['ov'][1]]
        o += [s['minlv']]
        o += [0] if s['flt'] is None else [s['flt'][0], s['flt'][1]]
    o += [len(d['loggers'])]
    for l in d['loggers']:
        o += P.eb(l['name']) + P.eb(l['pattern']) + [l['am'], len(l['sinks'])] + list(l['sinks'])
    o += [len(d['stmts'])]
    for t in d['stmts']:
        o += [t['logger'], t['lv'], t['site']] + P.enc_stmt(t['st']) + P.eb(t['rt_file']) + P.eb(t['rt_line'])
    tbl = orc.fields(list(dict.fromkeys(needed_pairs(d))))
    return 'patd ' + ' '.join(map(str, o + P.enc_table(tbl)))


def decode(case):
    t = case.split()
    if not t or t[0] != 'patd': return None
    try:
        r = P.Rd([int(x) for x in t[1:]])
        d = {'hoist': r.num(), 'sinks': [], 'loggers': [], 'stmts': []}
        for _ in range(r.num()):
            ov = None
            if r.num():
                p = r.bs(); ov = (p, 1 if r.num() else 0)
            minlv = r.num(); k = r.num()
            d['sinks'].append({'ov': ov, 'minlv': minlv, 'flt': (k, r.num()) if k else None})
        for _ in range(r.num()):
            name = r.bs(); p = r.bs(); am = 1 if r.num() else 0
            d['loggers'].append({'name': name, 'pattern': p, 'am': am, 'sinks': [r.num() for _ in range(r.num())]})
        for _ in range(r.num()):
            lg = r.num(); lv = r.num(); site = r.num(); st = P.dec_stmt(r)
            d['stmts'].append({'logger': lg, 'lv': lv, 'site': site, 'st': st, 'rt_file': r.bs(), 'rt_line': r.bs()})
        d['table'] = P.dec_table(r)
        return d
    except (IndexError, ValueError):
        return None


def parse_obs(line):
    """-> (errs, [[line bytes-as-int-lists] per sink]) or None"""
    try:
        t = [int(x) for x in line.split()]
        if not t or t[0] != 0: return None
        r = P.Rd(t, 1)
        errs = [r.num() for _ in range(r.num())]
        sinks = []
        for _ in range(r.num()):
            sinks.append([r.raw() for _ in range(r.num())])
        if r.i != len(t): return None
        return errs, sinks
    except (IndexError, ValueError):
        return None


def show_obs(line):
    o = parse_obs(line)
    if o is None: return line[:300]
    return 'threw=%s sinks=%s' % (o[0], [[bytes(x & 255 for x in l) for l in s] for s in o[1]])


def model_is_prediction(mline):
    """a line with a non-byte (missing oracle entry / 'fmt throws for this field' marker) is not a prediction"""
    o = parse_obs(mline)
    return o is not None and all(b < 256 for s in o[1] for l in s for b in l)


# ------------------------------------------------------------------ the formatter part, per (pattern, statement)
def as_pat(d, t, pattern, am):
    """the (pattern, statement) pair in the shape props/c12.py's property functions take"""
    return {'mode': 1, 'add_meta': am, 'site': t['site'], 'pattern': pattern, 'st': t['st'], 'rt_file': t['rt_file'],
            'rt_line': t['rt_line'], 'table': d.get('table', {})}


def patterns_of(d, t):
    if t['logger'] >= len(d['loggers']): return []
    lg = d['loggers'][t['logger']]
    out = [lg['pattern']]
    for i in lg['sinks']:
        if i < len(d['sinks']) and d['sinks'][i]['ov'] is not None: out.append(d['sinks'][i]['ov'][0])
    return out


def needed_pairs(d):
    out = []
    for t in d['stmts']:
        for p in patterns_of(d, t):
            for am in (0, 1):
                out += P.needed_pairs(as_pat(d, t, p, am))
    return out


# ------------------------------------------------------------------ the property, in Python (no model)
def sink_passes(s, lv, m, logger_line):
    if lv < s['minlv']: return False
    if s['flt'] is None: return True
    k, b = s['flt']
    hay = m if k == 1 else logger_line
    return bytes([b & 255]) not in hay


def expected(d, per_sink_option):
    """per sink the lines the property expects, or None when something is unknowable / out of scope.
    per_sink_option: the multi-line option that counts for a sink is the one of the options it formats with
    (its override options if it has them) - the property's wording; False: the logger's option (what the code does)"""
    exp = [[] for _ in d['sinks']]
    for t in d['stmts']:
        if t['logger'] >= len(d['loggers']): return None
        lg = d['loggers'][t['logger']]
        for i in lg['sinks']:
            if i >= len(d['sinks']): return None
            s = d['sinks'][i]
            pat, am = (s['ov'] if s['ov'] is not None else (lg['pattern'], lg['am']))
            if not per_sink_option: am = lg['am']
            for m in P.prop_msgs(as_pat(d, t, pat, am)):
                ll = P.prop_line(as_pat(d, t, lg['pattern'], lg['am']), m)
                if ll is None or ll == ('throws',): return None
                if not sink_passes(s, t['lv'], m, ll): continue
                ln = P.prop_line(as_pat(d, t, pat, am), m)
                if ln is None or ln == ('throws',): return None
                exp[i].append(ln)
    return exp


def in_scope(d):
    """None when every pattern of the case is a valid pattern in the property's sense and every statement is inside
    its quantifier; else the reason"""
    for l in d['loggers']:
        if l['pattern'] == b'' or P.classify(l['pattern'])[0] != 'ok': return 'logger pattern not a valid non-empty pattern'
        if len(set(l['sinks'])) != len(l['sinks']): return 'a sink twice in one logger'
    for s in d['sinks']:
        if s['ov'] is not None and (s['ov'][0] == b'' or P.classify(s['ov'][0])[0] != 'ok'): return 'override pattern not a valid non-empty pattern'
    for t in d['stmts']:
        if t['logger'] >= len(d['loggers']): return 'no such logger'
        w = P.prop_in_scope(as_pat(d, t, b'', 1))
        if w: return w
        if t['lv'] != LEVEL_NO.get(t['st']['level']): return 'level number and name differ'
    return None


def monitor(case, impl_line):
    d = decode(case)
    if d is None or in_scope(d): return None
    exp = expected(d, True)
    if exp is None: return None
    o = parse_obs(impl_line)
    if o is None: return 'no observation from the implementation: [%s]' % impl_line[:120]
    errs, got = o
    got = [[bytes(x & 255 for x in l) for l in s] for s in got]
    if any(errs): return 'a statement with valid patterns raised an error in the backend: threw=%s' % errs
    for i, (e, g) in enumerate(zip(exp, got)):
        if e != g:
            s = d['sinks'][i]
            k = next((j for j, (x, y) in enumerate(zip(e, g)) if x != y), min(len(e), len(g)))
            return ('sink %d (%s) was handed %d lines, line %d on: %r; the property expects %d lines, line %d on: %r (= the lines of its own effective pattern for every message line that passes its filters)'
                    % (i, 'override pattern %r' % s['ov'][0][:60] if s['ov'] else 'no override: the logger\'s pattern',
                       len(g), k, [x[:120] for x in g[k:k + 3]], len(e), k, [x[:120] for x in e[k:k + 3]]))
    return None


def in_override_multiline_zone(d):
    """a sink with override options whose add_metadata_to_multi_line_logs differs from its logger's, and a
    statement for that logger whose message the two settings split differently"""
    for t in d['stmts']:
        if t['logger'] >= len(d['loggers']): continue
        lg = d['loggers'][t['logger']]
        for i in lg['sinks']:
            s = d['sinks'][i] if i < len(d['sinks']) else None
            if s and s['ov'] is not None and s['ov'][1] != lg['am']:
                if P.prop_msgs(as_pat(d, t, b'', 0)) != P.prop_msgs(as_pat(d, t, b'', 1)): return True
    return False


def known_match(case, impl_line, msg):
    d = decode(case)
    if d is None: return None
    for f in P.open_findings():
        if f.get('signature', {}).get('kind') == 'override-multiline-option' and in_override_multiline_zone(d):
            # only this defect: the observation is exactly what "the logger's option decides" predicts
            exp = expected(d, False); o = parse_obs(impl_line)
            if exp is not None and o is not None and not any(o[0]) and [[bytes(x & 255 for x in l) for l in s] for s in o[1]] == exp:
                return '%s: %s' % (f['id'], f['what'])
    return None


def nontrivial(d, impl_line):
    """a logger with an override sink in front of a plain sink, both handed at least one line"""
    o = parse_obs(impl_line)
    if o is None: return False
    got = o[1]
    for l in d['loggers']:
        seen_ov = False
        for i in l['sinks']:
            if i >= len(d['sinks']) or i >= len(got) or not got[i]: continue
            if d['sinks'][i]['ov'] is not None: seen_ov = True
            elif seen_ov: return True
    return False


# ------------------------------------------------------------------ generators
NAME_NO = [0]
MSG_CH = b'ab {}%\n\n\n'


def g_pattern(rng, must_msg=True):
    names = P.g_names(rng, P.E2E_ATTRS, rng.choice([1, 1, 2, 3, 5]))
    if must_msg and 'message' not in names and rng.random() < 0.85: names = names + ['message']
    rng.shuffle(names)
    items = P.g_items(rng, names, braces=rng.random() < 0.12) or [('A', 'message', None)]
    return P.pprint(items)


def g_bad_pattern(rng):
    good = g_pattern(rng)
    return rng.choice([good + b' %(foo)', b'%(messag) ' + good, good + b'%(logger', good + b' {', b'{} ' + good,
                       good + b' %(message)' if b'%(message' in good else good + b'%(logger) %(logger)', b''])


def g_msg(rng):
    r = rng.random()
    if r < 0.45: return bytes(rng.choice(b'ab {}%') for _ in range(rng.randint(0, 8)))
    if r < 0.9: return bytes(rng.choice(MSG_CH) for _ in range(rng.choice([2, 3, 5, 9, 14])))
    return bytes(rng.choice(MSG_CH) for _ in range(rng.choice([40, 200, 600])))


def g_stmt(rng, d, lg_ix):
    site = rng.choice([0, 0, 0, 1, 2, 3])
    st = P.g_stmt(rng, e2e=True); st['msg'] = g_msg(rng); st['logger'] = d['loggers'][lg_ix]['name']
    rt_file = b''; rt_line = b''
    if site == 0:
        sl = P.g_srcloc(rng); rt_file, _, rt_line = sl.rpartition(b':')
        rt_file = rt_file.replace(b'\0', b''); rt_line = str(int(rt_line or b'0')).encode()
        st['func'] = st['func'].replace(b'\0', b''); st['srcloc'] = b''
    else:
        srcloc, func, tags, lv, sc, key = P.SITES[site]
        st.update(srcloc=srcloc, func=func, tags=tags, level=lv, short=sc)
        if key is not None: st['nargs'] = [(key, st['msg'])]
    return {'logger': lg_ix, 'lv': LEVEL_NO[st['level']], 'site': site, 'st': st, 'rt_file': rt_file, 'rt_line': rt_line}


def gen_case(rng, hoist, malformed=False):
    d = {'hoist': hoist, 'sinks': [], 'loggers': [], 'stmts': []}
    lam = 1 if rng.random() < 0.7 else 0
    k = rng.choice([1, 2, 2, 3, 3, 4, 5])
    for i in range(k):
        ov = None
        if rng.random() < 0.5:
            ov = (g_pattern(rng), lam if rng.random() < 0.88 else 1 - lam)
        minlv = 0 if rng.random() < 0.65 else rng.randint(1, 8)
        r = rng.random()
        flt = None if r < 0.6 else ((1, rng.choice(b'ab {%')) if r < 0.8 else (2, rng.choice(b'WIE{ a1')))
        d['sinks'].append({'ov': ov, 'minlv': minlv, 'flt': flt})
    nl = 1 if rng.random() < 0.7 else 2
    lp = g_pattern(rng)
    for j in range(nl):
        NAME_NO[0] += 1
        ix = list(range(k)); rng.shuffle(ix)
        if rng.random() < 0.35: ix = ix[:rng.randint(1, k)]
        if j == 0: p, am = lp, lam
        else:
            r = rng.random()       # same options (shared formatter) / same pattern, other option / another pattern
            p, am = (lp, lam) if r < 0.35 else ((lp, 1 - lam) if r < 0.6 else (g_pattern(rng), rng.choice([0, 1])))
        d['loggers'].append({'name': b'dl%d' % NAME_NO[0], 'pattern': p, 'am': am, 'sinks': ix})
    if malformed:
        if rng.random() < 0.5 and any(s['ov'] for s in d['sinks']):
            s = rng.choice([s for s in d['sinks'] if s['ov']]); s['ov'] = (g_bad_pattern(rng), s['ov'][1])
        elif rng.random() < 0.5:
            s = rng.choice(d['sinks']); s['ov'] = (g_bad_pattern(rng), lam)
        else:
            rng.choice(d['loggers'])['pattern'] = g_bad_pattern(rng)
    for _ in range(rng.choice([1, 2, 2, 3, 4])):
        d['stmts'].append(g_stmt(rng, d, rng.randrange(nl)))
    return d


def size_estimate(d):
    """upper estimate of the number of bytes the sinks are handed (the runner prints one integer per byte)"""
    def width(p):
        return len(p) + sum(int(x) for x in re.findall(rb'(\d+)', b' '.join(m.group(2) or b'' for m in P.FIELD_RE.finditer(p)))) + 40 * p.count(b'%(')
    tot = 0
    for t in d['stmts']:
        lg = d['loggers'][t['logger']]
        for i in lg['sinks']:
            s = d['sinks'][i]
            w = width(s['ov'][0] if s['ov'] else lg['pattern'])
            tot += (t['st']['msg'].count(b'\n') + 1) * w + len(t['st']['msg']) * (3 if s['ov'] is None else 1)
    return tot


def gen(rng, n, hoist):
    out = []
    while len(out) < n:
        d = gen_case(rng, hoist, malformed=(len(out) % 10 == 9))
        if size_estimate(d) <= 40000: out.append(d)
    return out


# ------------------------------------------------------------------ shrinking
def shrink_case(ck, mexe, iexe, orc, case, mode, agree):
    d = decode(case)
    if d is None: return case

    def fails(dd):
        c = enc_case(dd, orc)
        i = ck.run_impl(iexe, [c])[0]
        if mode == 'monitor': return monitor(c, i) is not None and known_match(c, i, '') is None
        return not agree(ck.run_model(mexe, [c])[0], i)

    def without_sinks(dd, keep):
        """keep: list of old sink indices"""
        remap = {o: n for n, o in enumerate(keep)}
        nd = dict(dd); nd['sinks'] = [dd['sinks'][o] for o in keep]
        nd['loggers'] = [dict(l, sinks=[remap[i] for i in l['sinks'] if i in remap]) for l in dd['loggers']]
        return nd
    try:
        if len(d['stmts']) >= 2:
            st = ddmin(d['stmts'], lambda t: fails(dict(d, stmts=t)), max_tests=30)
            d = dict(d, stmts=st)
        if len(d['sinks']) >= 2:
            keep = ddmin(list(range(len(d['sinks']))), lambda k: fails(without_sinks(d, k)), max_tests=40)
            d = without_sinks(d, keep)
        used = sorted(set(t['logger'] for t in d['stmts']))
        if len(used) < len(d['loggers']):
            nd = dict(d, loggers=[d['loggers'][i] for i in used],
                      stmts=[dict(t, logger=used.index(t['logger'])) for t in d['stmts']])
            if fails(nd): d = nd
        for k, t in enumerate(d['stmts']):
            if t['site'] == 3 or len(t['st']['msg']) < 2: continue
            def with_msg(b, k=k, t=t):
                return dict(d, stmts=d['stmts'][:k] + [dict(t, st=dict(t['st'], msg=bytes(b)))] + d['stmts'][k + 1:])
            nb = ddmin(list(t['st']['msg']), lambda b: fails(with_msg(b)), max_tests=30)
            d = with_msg(nb)
        return enc_case(d, orc)
    except Exception:
        return case


def describe(case):
    d = decode(case)
    if d is None: return 'undecodable patd case'
    out = []
    for i, s in enumerate(d['sinks']):
        out.append('sink %d: %s min_level=%d filter=%s' % (i, ('override %r add_meta=%d' % s['ov']) if s['ov'] else 'no override', s['minlv'], s['flt']))
    for j, l in enumerate(d['loggers']):
        out.append('logger %d %r: pattern %r add_meta=%d sinks in order %s' % (j, l['name'], l['pattern'], l['am'], l['sinks']))
    for t in d['stmts']:
        out.append('statement -> logger %d level %d site %d message %r' % (t['logger'], t['lv'], t['site'], t['st']['msg'][:80]))
    return '\n'.join(out)


def corpus_cases(orc, hoist):
    """hand-made boundary cases (always run first): the override-before-plain order and its mirror, filters
    that pass one of the two, two loggers sharing a sink / a formatter, multi-line through an override sink"""
    def st(lgname, msg, level=b'INFO', short=b'I'):
        return {'time': b'', 'tid': b'', 'tname': b'', 'pid': b'', 'logger': lgname, 'level': level, 'short': short,
                'srcloc': b'', 'func': b'fn', 'tags': None, 'nargs': None, 'msg': msg, 'ts': 0}
    def stmt(lg, name, msg, level=(b'INFO', b'I')):
        return {'logger': lg, 'lv': LEVEL_NO[level[0]], 'site': 0, 'st': st(name, msg, level[0], level[1]), 'rt_file': b'dir/f.cpp', 'rt_line': b'7'}
    def sink(ov=None, minlv=0, flt=None): return {'ov': ov, 'minlv': minlv, 'flt': flt}
    LP = b'[%(log_level_short_code)] %(logger) %(message)'; OP = b'OVR %(short_source_location)|%(message:>6)'; OP2 = b'%(message) <%(log_level)>'
    out = []
    def case(sinks, loggers, stmts):
        out.append(enc_case({'hoist': hoist, 'sinks': sinks, 'loggers': loggers, 'stmts': stmts}, orc))
    n = [0]
    def lg(pattern, am, ix):
        n[0] += 1
        return {'name': b'dc%d' % n[0], 'pattern': pattern, 'am': am, 'sinks': ix}
    for order in ([0, 1], [1, 0], [0, 1, 2], [2, 1, 0], [1, 0, 2]):
        l = lg(LP, 1, order)
        case([sink((OP, 1)), sink(), sink((OP2, 1))], [l], [stmt(0, l['name'], b'hi'), stmt(0, l['name'], b'a\nb\n')])
    l = lg(LP, 1, [0, 1, 2])        # the override sink rejects (level / message filter), the plain sinks behind it do not
    case([sink((OP, 1), minlv=6), sink(), sink(flt=(1, ord('h')))], [l], [stmt(0, l['name'], b'hi'), stmt(0, l['name'], b'yo', (b'ERROR', b'E'))])
    l = lg(LP, 1, [0, 1])           # filter on the logger's statement: "OVR" is only in the override line
    case([sink((OP, 1)), sink(flt=(2, ord('O')))], [l], [stmt(0, l['name'], b'hi')])
    l1 = lg(LP, 1, [0, 1]); l2 = lg(LP, 1, [1, 0]); l3 = lg(LP, 0, [1])      # shared sinks, shared formatter, same pattern / other option
    case([sink((OP, 1)), sink()], [l1, l2, l3], [stmt(0, l1['name'], b'x\ny'), stmt(1, l2['name'], b'x\ny'), stmt(2, l3['name'], b'x\ny'), stmt(0, l1['name'], b'z')])
    return out


def finding_cases(orc, hoist):
    """replays of the open finding C12-override-multiline-option"""
    def st(lgname, msg):
        return {'time': b'', 'tid': b'', 'tname': b'', 'pid': b'', 'logger': lgname, 'level': b'INFO', 'short': b'I',
                'srcloc': b'', 'func': b'fn', 'tags': None, 'nargs': None, 'msg': msg, 'ts': 0}
    out = []
    for k, (lam, sam) in enumerate(((1, 0), (0, 1))):
        name = b'df%d' % k
        d = {'hoist': hoist, 'sinks': [{'ov': (b'O %(message)', sam), 'minlv': 0, 'flt': None}],
             'loggers': [{'name': name, 'pattern': b'L %(message)', 'am': lam, 'sinks': [0]}],
             'stmts': [{'logger': 0, 'lv': 4, 'site': 0, 'st': st(name, b'a\nb'), 'rt_file': b'f.cpp', 'rt_line': b'1'}]}
        out.append(enc_case(d, orc))
    return out
