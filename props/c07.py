"""C07 — stopping, exiting or dying by a handled signal loses no completed statement.

Runtime half (this file): exhaustive *fault enumeration* on the real library. One child program
(harness/proc.cpp, rebuilt from /repo on every run) executes a scripted statement sequence and ends
by a chosen terminal action at a chosen statement boundary; the parent reads the child's issue log
(which statements had completed, written with write(2) on an inherited pipe) and, after the child
has ended, the log file and the wait status, and evaluates the property itself on them.

Proof half: coq/theories/Props/Properties_C07.v (drain on stop, restartability, the signal macro);
when that file is present its theorems are compiled and audited like every other property."""
import json, os, re, shutil, signal, subprocess, tempfile, time
from concurrent.futures import ThreadPoolExecutor
from vlib import Check, standard_proof_phase, ddmin, VERIF, COQ

PID = 'C07'
MANIFEST = dict(
    category='proof',
    text='Machine-checked (Coq) for the drain-on-stop clause: BackendWorker::_exit is modelled on the backend micro-step machine (exit_drain: emptiness check, populate, process while nothing else is pending; skeleton of _exit read from the source on every run and proved equal to the modelled loop) and, for every configuration, every history before the stop (any interleaving, exited threads included) and every pace of the clock, when the loop leaves no registered thread context holds a queued record or buffered event, everything committed before the stop has been processed, the drain commits nothing itself, and the last action is the flush of every active sink (C07_stop_drains_partial; partial: termination of the loop needs real time to pass the grace period and is observed, not proved). The removal guard of exited threads\' contexts is tied (T-src) and the drain of exited threads\' statements is exercised on the deterministic backend driver (threads exit while their statements sit in the backend\'s buffers, another thread\'s flush is processed first, then the drain; conservation monitor); the drain loop itself is run there too: a stop command calls the real BackendWorker::_exit on the driver\'s backend (virtual clock moving a chosen amount per loop iteration) and exit_drain in the extracted model, on generated histories aimed at the states where "is everything empty?" is hard to answer (a drained queue node with a successor after an oversize record, a shrink or a burst that fills a node exactly; full bounded queues; exited threads; grace period), compared observation by observation and checked by a monitor of the clause itself (everything completed before the stop is written and flushed when the drain returns); the successor test of UnboundedSPSCQueue::empty() is tied (T-src, C07_tie_unbounded_empty_checks_successor). The process-level clauses (atexit, restart, signal handler, wait status, file content seen from outside) cannot be expressed in the model and are decided by exhaustive fault enumeration on the real library (child processes): a scripted program of 1-3 logging threads (some finished and joined, '
         'some alive), both clock sources, a spinning or a sleeping backend (measured backlog at the fault), 0-2 stop/start cycles, ends at every chosen '
         'statement boundary by Backend::stop()+return, exit() from main or another thread, return from main, raise() of each of SIGSEGV/SIGABRT/SIGFPE/'
         'SIGILL/SIGINT/SIGTERM, a process-directed SIGINT/SIGTERM, or a real fault (null store, abort(), integer division by zero, trap instruction). '
         'From outside the dead process the parent checks: every statement whose log call had returned before the action (for a signal: those of the '
         'thread hit; for stop/exit: of every thread, finished ones included) is in the file once and in thread order, already at the moment stop() '
         'returns; the handler\'s notice lines follow them; the wait status is the original signal (crash signals) or exit code 0 (SIGINT/SIGTERM, stop, '
         'exit, return); statements logged after (or during) a stop/start cycle are written too; no child hangs. The signal rows are also run with wait_for_queues_to_empty_before_exit off and the backend asleep (the signal clause is unconditional). The quick tier covers 6 signals x 8 '
         'points x 2 clocks plus the stop/exit/return, cycle and real-fault rows; the thorough tier every boundary of a 40-statement program. '
         'Not covered: statements whose log call had not returned, other threads\' statements at a signal, SIGKILL and unhandled signals.',
    design='5 C07', technique='child-process fault enumeration with an out-of-process issue log + direct property monitor (Coq model theorems when present)',
    note='Trusted: the child program harness/proc.cpp (its issue log is written with write(2) right after each log call returns), the kernel\'s '
         'pipe/file semantics, waitpid status, and the Python monitor. Async-signal-safety of the handler, alarm(), atexit ordering are sampled by '
         'these runs, not proved.')
TRUSTED = [
    'child program harness/proc.cpp built from /repo/include on every run (g++ -O1, no sanitizer: the sanitizer runtime would install its own fault handlers)',
    'issue log = write(2) of one record per completed log call on a pipe inherited from the parent; records of all threads are totally ordered by the pipe',
    'kernel: waitpid status, signal delivery by raise()/kill(), file content readable after process end',
    'Python monitor props/c07.py (clauses a-d) and process-group kill on timeout',
]

SIGS = {'SEGV': signal.SIGSEGV, 'ABRT': signal.SIGABRT, 'FPE': signal.SIGFPE, 'ILL': signal.SIGILL, 'INT': signal.SIGINT, 'TERM': signal.SIGTERM}
FAULT_SIG = {'null': 'SEGV', 'abort': 'ABRT', 'div0': 'FPE', 'trap': 'ILL'}
CRASH = ('SEGV', 'ABRT', 'FPE', 'ILL')
SLEEP_US = 20000          # the "sleeping" backend
BIG_PAD = 30000; BIG_SLEEP_US = 200000     # 'big backlog' rows
WAIT_MS = 70              # a 'w' pause: the sleeping backend has drained everything and sleeps again
KEYS = ('clock', 'sh', 'sleep_us', 'flush_ms', 'sigto', 'pad', 'wait_ms', 'noise', 'wq', 'actor', 'act', 'script')


# ---------------------------------------------------------------------------------------- cases
def mkcase(script, actor, act, clock='sys', sh=1, sleep_us=0, noise=0, pad=0, sigto=10, wait_ms=WAIT_MS, flush_ms=None, wq=1):
    if flush_ms is None:
        # library default (200 ms) except in the 'pause before the action' rows, where the sink is flushed whenever the
        # backend is idle so that everything really is in the file when the action starts
        flush_ms = 0 if script and script[-1] == 'w' else -1
    d = dict(clock=clock, sh=sh, sleep_us=sleep_us, flush_ms=flush_ms, sigto=sigto, pad=pad, wait_ms=wait_ms, noise=noise, wq=wq, actor=actor, act=act,
             script=','.join(script))
    return ' '.join('%s=%s' % (k, d[k]) for k in KEYS)


def parse_case(case):
    d = dict(x.split('=', 1) for x in case.split())
    d['tokens'] = [t for t in d.get('script', '').split(',') if t]
    for k in ('sh', 'sleep_us', 'sigto', 'pad', 'wait_ms', 'noise', 'actor'):
        d[k] = int(d.get(k, 0))
    d['flush_ms'] = int(d.get('flush_ms', -1))
    return d


def act_signal(act):
    """(signal name or None, kind)"""
    if act.startswith('raise:'): return act[6:], 'raise'
    if act.startswith('kill:'): return act[5:], 'kill'
    if act.startswith('fault:'): return FAULT_SIG[act[6:]], 'fault'
    return None, act


def valid(tokens, actor, act, sh=1):
    """well-formed script: threads do nothing after x, j after x, s/r alternate and the script ends with a
    running backend, the actor is alive, and for a signal it has logged before"""
    exited = set(); joined = set(); running = True; logged = {}
    for t in tokens:
        if t in ('0', '1', '2'):
            if int(t) in exited: return False
            logged[int(t)] = logged.get(int(t), 0) + 1
        elif t[0] == 'x':
            k = int(t[1])
            if k in exited or k not in logged: return False
            exited.add(k)
        elif t[0] == 'j':
            k = int(t[1])
            if k not in exited or k in joined: return False
            joined.add(k)
        elif t == 's':
            if not running: return False
            running = False
        elif t == 'r':
            if running: return False
            running = True
        elif t != 'w':
            return False
    if not running or actor in exited: return False
    if exited - joined: return False
    sig, kind = act_signal(act)
    if sig and not logged.get(actor): return False
    if sig and (sh == 0 or (sh == 2 and 'r' not in tokens)): return False     # the built-in handler must be enabled
    if kind == 'kill' and not logged.get(0): return False      # a process-directed signal lands on main
    if act == 'return' and actor != 0: return False
    if actor != 0 and actor not in logged: return False        # a thread exists once it has a statement
    return True


def prefixes(base):
    """every statement boundary of a base script: (tokens up to and including an L token, its thread)"""
    out = []
    for i, t in enumerate(base):
        if t in ('0', '1', '2'):
            out.append((base[:i + 1], int(t)))
    return out


def with_idle(tokens, mode=True):
    """mode 'last' (or True): pause before the last statement, so the backend has drained and sleeps when the last
    statement and the action come; mode 'drained': pause after the last statement, so everything is already written
    and the backend sleeps when the action comes"""
    if not mode: return tokens
    if mode == 'drained': return tokens + ['w']
    return tokens[:-1] + ['w', tokens[-1]]


def with_cycles(base, n, stopped_stmt=True):
    """insert n stop/start cycles at statement boundaries spread over the base script; in the second
    cycle one statement is logged while the backend is stopped"""
    idx = [i for i, t in enumerate(base) if t in ('0', '1', '2')]
    out = list(base)
    cuts = [idx[len(idx) // 4]] if n == 1 else [idx[len(idx) // 5], idx[(3 * len(idx)) // 5]]
    for c, k in enumerate(sorted(cuts, reverse=True)):
        second = (n == 2 and c == 0)
        nxt = [j for j in range(k + 1, len(out)) if out[j] in ('0', '1', '2')]
        if second and stopped_stmt and nxt and all(out[j][0] not in 'xj' for j in range(k + 1, nxt[0] + 1)):
            out = out[:k + 1] + ['s'] + out[k + 1:nxt[0] + 1] + ['r'] + out[nxt[0] + 1:]
        else:
            out = out[:k + 1] + ['s', 'r'] + out[k + 1:]
    return out


Q_BASE = '0,1,2,0,1,2,1,x1,j1,0,2,0,2,2,x2,j2,0,0'.split(',')
Q_POINTS = [0, 2, 4, 6, 9, 12, 13, 17]       # token index of the last statement (8 crash points)


def backend_variant(i, crash):
    """(sleep_us, idle?, noise) variants rotated over the enumeration"""
    v = [(0, False, 0), (SLEEP_US, False, 0), (SLEEP_US, 'last', 0), (0, False, 1), (SLEEP_US, False, 1), (SLEEP_US, 'drained', 0), (0, 'drained', 1)]
    return v[i % len(v)]


def gen_fresh():
    """a thread's very first statement (its context is not yet in the backend's cache: the backend has drained
    everything and sleeps) immediately followed by the terminal action of that thread"""
    cases = []
    for script in ('0,w,1', '0,1,w,2', '0,1,1,x1,j1,w,2'):
        toks = script.split(',')
        for ai, act in enumerate(('stop', 'exit', 'raise:TERM', 'raise:SEGV')):
            for ci, clock in enumerate(('sys', 'tsc')):
                cases.append(mkcase(toks, int(toks[-1]), act, clock=clock, sleep_us=SLEEP_US, flush_ms=0 if (ai + ci) % 2 else -1, sh=1))
    return cases


def gen_quick():
    cases = gen_fresh()
    pts = [(Q_BASE[:i + 1], int(Q_BASE[i])) for i in Q_POINTS]
    n = 0
    # all 6 signals x 8 points x 2 clocks
    for si, sg in enumerate(SIGS):
        for pi, (toks, actor) in enumerate(pts):
            for ci, clock in enumerate(('sys', 'tsc')):
                sl, idle, noise = backend_variant(si + pi + ci * 2, sg in CRASH)
                cases.append(mkcase(with_idle(toks, idle), actor, 'raise:' + sg, clock=clock, sleep_us=sl, noise=noise))
    # the signal clause does not depend on wait_for_queues_to_empty_before_exit: every signal with the option off and the
    # backend asleep (the statements are still queued when the signal arrives)
    for si, sg in enumerate(SIGS):
        for pi in (2, 5):
            toks, actor = pts[pi]
            cases.append(mkcase(toks, actor, 'raise:' + sg, clock=('sys', 'tsc')[(si + pi) % 2], sleep_us=BIG_SLEEP_US if pi == 5 else SLEEP_US, wq=0))
    # real faults
    for fi, f in enumerate(FAULT_SIG):
        for ci, clock in enumerate(('sys', 'tsc')):
            for pi in (3, 6):
                toks, actor = pts[pi + (fi % 2)]
                sl, idle, noise = backend_variant(fi + ci + pi, True)
                cases.append(mkcase(with_idle(toks, idle), actor, 'fault:' + f, clock=clock, sleep_us=sl, noise=noise))
    # process-directed SIGINT/SIGTERM
    for sg in ('INT', 'TERM'):
        for clock in ('sys', 'tsc'):
            toks, actor = pts[5]
            cases.append(mkcase(toks, actor, 'kill:' + sg, clock=clock, sleep_us=SLEEP_US if clock == 'sys' else 0))
    # stop / exit / return
    for ai, act in enumerate(('stop', 'exit', 'return')):
        for pi, (toks, actor) in enumerate(pts[1:] if act != 'return' else [p for p in pts if p[1] == 0] + [(Q_BASE[:4], 0)]):
            for ci, clock in enumerate(('sys', 'tsc')):
                sl, idle, noise = backend_variant(ai + pi + ci, False)
                cases.append(mkcase(with_idle(toks, idle), actor, act, clock=clock, sleep_us=sl, noise=noise, sh=(ai + pi + ci) % 2))
    # a backlog larger than one frontend queue (the drain needs several passes): 30 kB statements, backend asleep
    for ai, act in enumerate(('stop', 'exit', 'return', 'raise:ABRT', 'raise:INT')):
        for ci, clock in enumerate(('sys', 'tsc')):
            toks, actor = pts[-1] if (ai + ci) % 2 == 0 or act == 'return' else pts[-2]
            cases.append(mkcase(toks, actor, act, clock=clock, sleep_us=BIG_SLEEP_US, pad=BIG_PAD, sh=1))
    # stop/start cycles
    for nc in (1, 2):
        base = with_cycles(Q_BASE, nc)
        allp = prefixes(base)
        sel = [p for p in allp if 'r' in p[0] and valid(p[0], p[1], 'exit')]     # not while the backend is stopped
        sel = [sel[0], sel[len(sel) // 2], sel[-1]] + ([p for p in sel if p[0].count('r') == 2][:1] if nc == 2 else [])
        for pi, (toks, actor) in enumerate(sel):
            for ai, act in enumerate(('stop', 'exit', 'raise:SEGV', 'raise:TERM', 'fault:abort')):
                clock = ('sys', 'tsc')[(pi + ai + nc) % 2]
                sl, idle, noise = backend_variant(pi + ai, False)
                cases.append(mkcase(toks, actor, act, clock=clock, sleep_us=sl, noise=noise, sh=2 if (pi + ai) % 3 == 0 else 1))
    return cases


def t_base(rng, counts, fracs=None, finish=True):
    """an interleaving of the threads' statements: thread t's statements fall at random places within the first
    fracs[t] of the script, so some threads are done early; a thread that has logged all of its statements
    finishes (x, j) right away when finish is set and fracs[t] < 1"""
    fracs = fracs or {}
    pos = []
    for t, n in counts.items():
        pos += [(rng.random() * fracs.get(t, 1.0), t) for _ in range(n)]
    pos.sort()
    left = dict(counts); out = []
    for _, t in pos:
        out.append(str(t)); left[t] -= 1
        if left[t] == 0 and finish and t != 0 and fracs.get(t, 1.0) < 1.0:
            out += ['x%d' % t, 'j%d' % t]
    return out


def gen_thorough(rng):
    cases = gen_fresh()
    for bn, (counts, fracs) in enumerate((({0: 18, 1: 9, 2: 13}, {1: 0.4, 2: 0.75}), ({0: 12, 1: 15, 2: 13}, {2: 0.5}))):
        base = t_base(rng, counts, fracs)
        # thread 0 logs first (a process-directed signal lands on main, which must have logged before)
        if base[0] != '0':
            base.remove('0'); base.insert(0, '0')
        pts = prefixes(base)
        for pi, (toks, actor) in enumerate(pts):
            for ci, clock in enumerate(('sys', 'tsc')):
                for si, sg in enumerate(SIGS):
                    for bi in range(3):
                        sl, idle, noise = backend_variant(pi + si + ci + bn + (0, 2, 5)[bi], sg in CRASH)
                        cases.append(mkcase(with_idle(toks, idle), actor, 'raise:' + sg, clock=clock, sleep_us=sl, noise=noise))
                for fi, f in enumerate(FAULT_SIG):
                    for bi in range(2):
                        sl, idle, noise = backend_variant(pi + fi + ci + 3 * bi, True)
                        cases.append(mkcase(with_idle(toks, idle), actor, 'fault:' + f, clock=clock, sleep_us=sl, noise=noise))
                for ai, act in enumerate(('stop', 'exit', 'return')):
                    if act == 'return' and actor != 0: continue
                    for bi in range(3):
                        sl, idle, noise = backend_variant(pi + ai + ci + (0, 2, 5)[bi], False)
                        cases.append(mkcase(with_idle(toks, idle), actor, act, clock=clock, sleep_us=sl, noise=noise, sh=(pi + ai + bi) % 2))
                if pi % 4 == 3:
                    for ai, act in enumerate(('stop', 'exit', 'raise:SEGV', 'raise:TERM')):
                        cases.append(mkcase(toks, actor, act, clock=clock, sleep_us=BIG_SLEEP_US, pad=BIG_PAD, sh=1))
                if pi % 4 == 1:
                    for sg in ('INT', 'TERM'):
                        cases.append(mkcase(toks, actor, 'kill:' + sg, clock=clock, sleep_us=SLEEP_US if pi % 8 == 1 else 0))
        for nc in (1, 2):
            cb = with_cycles(base, nc)
            for pi, (toks, actor) in enumerate(prefixes(cb)):
                if not valid(toks, actor, 'exit'): continue                # boundary inside a stopped phase: out of scope
                for ai, act in enumerate(('stop', 'exit', 'return', 'raise:SEGV', 'raise:ABRT', 'raise:TERM', 'raise:INT', 'fault:div0')):
                    if act == 'return' and actor != 0: continue
                    for clock in ('sys', 'tsc'):
                        sl, idle, noise = backend_variant(pi + ai + nc, False)
                        sh = 2 if ('r' in toks and (pi + ai) % 3 == 0) else 1
                        cases.append(mkcase(with_idle(toks, idle), actor, act, clock=clock, sleep_us=sl, noise=noise, sh=sh))
    # other shapes: two threads both alive (nothing finishes), and a single thread
    for counts in ({0: 10, 1: 10}, {0: 12}):
        b2 = t_base(rng, counts, finish=False)
        if b2[0] != '0':
            b2.remove('0'); b2.insert(0, '0')
        for pi, (toks, actor) in enumerate(prefixes(b2)):
            acts = ['raise:' + s for s in SIGS] + ['fault:' + f for f in FAULT_SIG] + ['stop', 'exit', 'return']
            for ai, act in enumerate(acts):
                if act == 'return' and actor != 0: continue
                for clock in ('sys', 'tsc'):
                    sl, idle, noise = backend_variant(pi + ai, act_signal(act)[0] in CRASH)
                    cases.append(mkcase(with_idle(toks, idle), actor, act, clock=clock, sleep_us=sl, noise=noise, sh=1 if act_signal(act)[0] else pi % 2))
    return cases


def corpus():
    d = os.path.join(VERIF, 'corpus', PID)
    out = []
    if os.path.isdir(d):
        for f in sorted(os.listdir(d)):
            for l in open(os.path.join(d, f)):
                l = l.strip()
                if l and not l.startswith('#'): out.append(l)
    return out


# ---------------------------------------------------------------------------------------- running children
def read_lines(path):
    try:
        return open(path, 'rb').read().decode('utf8', 'replace').split('\n')
    except OSError:
        return None


def run_child(exe, case, tmpdir, tag, timeout):
    """one child; returns the observation dict (a hang is an observation)"""
    log = os.path.join(tmpdir, '%s.log' % tag)
    cmd = [exe, 'file=' + log] + case.split()
    t0 = time.time()
    p = subprocess.Popen(cmd, stdout=subprocess.PIPE, stderr=subprocess.PIPE, stdin=subprocess.DEVNULL, start_new_session=True)
    hang = False
    try:
        so, se = p.communicate(timeout=timeout)
    except subprocess.TimeoutExpired:
        hang = True
        try: os.killpg(p.pid, signal.SIGKILL)
        except OSError: pass
        so, se = p.communicate()
    finally:
        try: os.killpg(p.pid, signal.SIGKILL)       # parked threads die with the process; this is for stragglers
        except OSError: pass
    rc = p.returncode
    obs = {'status': 'HANG' if hang else ('signal %d' % -rc if rc < 0 else 'exit %d' % rc),
           'issue': so.decode('utf8', 'replace').split('\n'), 'stderr': se.decode('utf8', 'replace')[-600:],
           'wall': round(time.time() - t0, 3), 'file': read_lines(log), 'snaps': {}}
    if obs['issue'] and obs['issue'][-1] == '':
        obs['issue'].pop()
    else:
        obs['issue_torn_tail'] = True
    d = os.path.dirname(log)
    for f in os.listdir(d):
        if f.startswith(tag + '.log'):
            if f != tag + '.log':
                obs['snaps'][f[len(tag) + 5:]] = read_lines(os.path.join(d, f))
            try: os.remove(os.path.join(d, f))
            except OSError: pass
    return obs


def run_many(exe, cases, tmpdir, timeout, jobs=16, prefix='c'):
    with ThreadPoolExecutor(max_workers=jobs) as ex:
        futs = [ex.submit(run_child, exe, c, tmpdir, '%s%d' % (prefix, i), timeout) for i, c in enumerate(cases)]
        return [f.result() for f in futs]


# ---------------------------------------------------------------------------------------- the property
STMT = re.compile(r'^t(\d):(\d+) x*$')
REC = re.compile(r'^t(\d):(\d+)$')


def parse_file(lines):
    """-> (statements [(thread, seq, lineno)], notices [(text, lineno)], foreign [(text, lineno)], torn tail)"""
    st = []; no = []; fo = []
    torn = bool(lines) and lines[-1] != ''
    body = lines[:-1] if lines else []
    for i, l in enumerate(body):
        m = STMT.match(l)
        if m: st.append((int(m.group(1)), int(m.group(2)), i))
        elif l.startswith('Received signal: ') or l.startswith('Program terminated unexpectedly due to signal: '): no.append((l, i))
        else: fo.append((l, i))
    if torn:
        fo.append((lines[-1], len(body)))
    return st, no, fo, torn


def covers(stmts, want):
    """which of the wanted (thread, seq) are absent"""
    have = set((t, s) for t, s, _ in stmts)
    return [w for w in want if w not in have]


def monitor(case, obs):
    """evaluates C07 on one child's observations; returns [] or a list of (kind, message), most important first"""
    c = parse_case(case)
    sig, kind = act_signal(c['act'])
    fails = []
    issue = obs['issue']
    ai = next((i for i, l in enumerate(issue) if l.startswith('A ')), None)
    if any(l == 'RAISE-RETURNED' for l in issue):
        fails.append(('handler-returned', 'raise()/fault came back to the program: the handler did not end the process'))
    if obs['status'] == 'HANG':
        where = 'before the terminal action (after issue record %r)' % (issue[-1] if issue else None) if ai is None else 'after the terminal action %s started' % c['act']
        fails.append(('hang', 'child did not end within the wall-clock limit, ' + where))
    if obs['status'] == 'exit 64':
        raise RuntimeError('harness usage error for case %r: %s' % (case, obs['stderr']))
    # ---- (c) wait status
    if obs['status'] != 'HANG':
        if sig in CRASH: want = 'signal %d' % int(SIGS[sig])
        else: want = 'exit 0'
        if obs['status'] != want:
            fails.append(('status', 'wait status is "%s", expected "%s" (%s)' % (obs['status'], want,
                          'killed by the original signal after the handler re-raises' if sig in CRASH else 'successful exit')))
    if ai is None:
        if obs['status'] != 'HANG':
            fails.append(('no-action', 'child ended (%s) before reaching its terminal action; last issue record %r; stderr %r' % (obs['status'], issue[-1] if issue else None, obs['stderr'][-200:])))
    # statements completed before a given issue position
    def completed(upto):
        out = []
        for l in issue[:upto]:
            m = REC.match(l)
            if m: out.append((int(m.group(1)), int(m.group(2))))
        return out
    # ---- (d) each stop of a cycle: everything completed before it is in the file when stop() has returned; restart works
    restarted_at = None
    for i, l in enumerate(issue):
        if l.startswith('S '):
            idx = l.split()[1]
            if 'running=0' not in l:
                fails.append(('stop-state', 'Backend::is_running() still true after Backend::stop() returned (script token %s)' % idx))
            snap = obs['snaps'].get('s' + idx)
            if snap is None:
                fails.append(('snapshot', 'no file content at the stop of token %s' % idx))
            else:
                st, _, fo, _ = parse_file(snap)
                b = next((j for j, x in enumerate(issue) if x == 'B ' + idx), i)
                miss = covers(st, completed(b))
                if miss:
                    fails.insert(0, ('lost-at-stop', 'when Backend::stop() (script token %s) returned, %d statement(s) completed before it were not in the file: %s'
                                     % (idx, len(miss), ' '.join('t%d:%d' % m for m in miss[:6]))))
        elif l.startswith('R '):
            restarted_at = i
            if 'running=1' not in l:
                fails.append(('restart', 'Backend::is_running() false after the restart of script token %s' % l.split()[1]))
    if ai is None:
        return fails
    done = completed(ai)
    actor = c['actor']
    if obs['file'] is None:
        fails.append(('lost', 'the log file does not exist'))
        return fails
    st, notices, foreign, torn = parse_file(obs['file'])
    # ---- integrity of what is there: nothing twice, per-thread order, nothing that was never issued
    seen = {}
    for t, s, ln in st:
        if (t, s) in seen:
            fails.append(('duplicate', 'statement t%d:%d is in the file twice (lines %d and %d)' % (t, s, seen[(t, s)] + 1, ln + 1))); break
        seen[(t, s)] = ln
    last = {}
    for t, s, ln in st:
        if t in last and last[t] > s:
            fails.append(('order', 'statements of thread %d out of order in the file: t%d:%d after t%d:%d' % (t, t, s, t, last[t]))); break
        last[t] = s
    issued = {}
    for t in c['tokens']:
        if t in ('0', '1', '2'): issued[int(t)] = issued.get(int(t), 0) + 1
    for t, s, ln in st:
        if t != 9 and s >= issued.get(t, 0):
            fails.append(('foreign', 'the file holds t%d:%d which the program never logged' % (t, s))); break
    if torn and sig in CRASH:
        # the process was killed by the re-raised signal while the backend may have been writing other threads'
        # later statements: an unterminated last line after the handler's flush is not a loss
        foreign = foreign[:-1]
    if foreign:
        fails.append(('foreign', 'unexpected line in the file: %r (line %d)%s' % (foreign[0][0][:80], foreign[0][1] + 1, ' [unterminated last line]' if torn else '')))
    # ---- (a) completed statements are there
    if kind in ('raise', 'fault'):
        promised = [d for d in done if d[0] == actor]
        who = 'the thread hit by the signal (thread %d)' % actor
    elif kind == 'kill':
        # the kernel chooses the thread (main, unless it blocks the signal); accept any thread that has logged
        cands = sorted(set(t for t, _ in done))
        best = None
        for t in cands:
            miss = covers(st, [d for d in done if d[0] == t])
            if best is None or len(miss) < len(best[1]): best = (t, miss)
        promised = [d for d in done if best and d[0] == best[0]]
        actor = best[0] if best else actor
        who = 'any thread that had logged (best candidate: thread %d)' % actor
    else:
        promised = done
        who = 'every thread'
    miss = covers(st, promised)
    if miss:
        after_restart = restarted_at is not None and any(m in completed(ai) and m not in completed(restarted_at) for m in miss)
        fails.insert(0, ('lost', '%d statement(s) whose log call had returned before %s are not in the file (%s): %s%s'
                         % (len(miss), c['act'], who, ' '.join('t%d:%d' % m for m in miss[:8]),
                            '; some were logged after a restart' if after_restart else '')))
    if c['act'] == 'stop':
        stopped = [l for l in issue if l.startswith('STOPPED')]
        if not stopped:
            if obs['status'] != 'HANG': fails.append(('stop-state', 'the terminal Backend::stop() did not return'))
        else:
            if 'running=0' not in stopped[0]:
                fails.append(('stop-state', 'Backend::is_running() still true after the terminal Backend::stop() returned'))
            snap = obs['snaps'].get('stop')
            sst = parse_file(snap)[0] if snap is not None else []
            m2 = covers(sst, promised)
            if m2:
                fails.insert(0, ('lost-at-stop', 'when the terminal Backend::stop() returned, %d completed statement(s) were not yet in the file: %s%s'
                                 % (len(m2), ' '.join('t%d:%d' % m for m in m2[:8]), '' if miss else ' (they appeared by process end)')))
    # ---- (b) the handler's notice follows the thread's statements
    if sig:
        num = int(SIGS[sig]); desc = signal.strsignal(num)
        n1 = 'Received signal: %s (signum: %d)' % (desc, num)
        n2 = 'Program terminated unexpectedly due to signal: %s (signum: %d)' % (desc, num)
        wantn = [n1] + ([n2] if sig in CRASH else [])
        got = [t for t, _ in notices]
        if got != wantn:
            fails.append(('notice', 'handler notice lines in the file are %r, expected %r' % (got, wantn)))
        else:
            mine = [ln for t, s, ln in st if (t, s) in set(promised)]
            if mine and notices[0][1] < max(mine):
                fails.append(('notice-order', 'the handler notice (line %d) precedes a statement of thread %d logged before the signal (line %d)' % (notices[0][1] + 1, actor, max(mine) + 1)))
    elif notices:
        fails.append(('foreign', 'signal-handler notice in the file although no signal was raised: %r' % notices[0][0]))
    return fails


def facts(case, obs):
    """measured facts about one child for the evidence histogram / non-triviality"""
    c = parse_case(case)
    issue = obs['issue']
    ai = next((i for i, l in enumerate(issue) if l.startswith('A ')), None)
    done = [(int(m.group(1)), int(m.group(2))) for m in (REC.match(l) for l in issue[:ai if ai is not None else 0]) if m]
    vis = None
    if ai is not None:
        m = re.search(r'visible=(-?\d+)', issue[ai])
        vis = int(m.group(1)) if m else None
    threads = set(t for t, _ in done)
    scripted = [d for d in done if d[0] != 9]            # the noise thread's progress is timing dependent: not counted
    other_missing = 0
    sig, kind = act_signal(c['act'])
    if sig and obs['file'] is not None and kind != 'kill':
        st = parse_file(obs['file'])[0]
        other_missing = len(covers(st, [d for d in done if d[0] != c['actor']]))
    return {'completed': len(done), 'completed_scripted': len(scripted), 'threads_logged': len(threads),
            'other_logged': len(set(t for t, _ in scripted) - {c['actor']}) > 0,
            'backlog': None if vis is None else max(0, len(done) - max(vis, 0)),
            'finished_threads': sum(1 for l in issue[:ai or 0] if l.startswith('J ')),
            'cycles': sum(1 for l in issue[:ai or 0] if l.startswith('R ')),
            'other_thread_missing_at_signal': other_missing}


def nontrivial(f):
    return f['completed_scripted'] >= 2 and f['other_logged']


# ---------------------------------------------------------------------------------------- findings
def open_findings():
    p = os.path.join(VERIF, 'known_findings.d', PID + '.json')
    if not os.path.exists(p): return []
    return [f for f in json.load(open(p)) if f.get('property') == PID and f.get('status') == 'open']


def known_match(case, fails):
    """an open finding matches one specific (action, point shape, configuration) and one failure kind"""
    c = parse_case(case)
    kinds = [k for k, _ in fails]
    for f in open_findings():
        s = f.get('signature', {})
        if s.get('acts') and c['act'] not in s['acts']: continue
        if s.get('clock') and c['clock'] != s['clock']: continue
        if 'sh' in s and c['sh'] != s['sh']: continue
        if 'noise' in s and c['noise'] != s['noise']: continue
        if 'min_cycles' in s and c['tokens'].count('r') < s['min_cycles']: continue
        if 'max_cycles' in s and c['tokens'].count('r') > s['max_cycles']: continue
        if 'actor_is_main' in s and (c['actor'] == 0) != s['actor_is_main']: continue
        if 'sleeping_backend' in s and (c['sleep_us'] > 0) != s['sleeping_backend']: continue
        if s.get('failure_kinds') and not all(k in s['failure_kinds'] for k in kinds): continue
        return f
    return None


# ---------------------------------------------------------------------------------------- shrinking
def shrink(exe, case, kind, tmpdir, timeout, budget_s=45):
    c = parse_case(case)

    def build(tokens, **over):
        d = dict(c); d.update(over)
        return mkcase(tokens, d['actor'], d['act'], clock=d['clock'], sh=d['sh'], sleep_us=d['sleep_us'], noise=d['noise'], pad=d['pad'],
                      sigto=d['sigto'], wait_ms=d['wait_ms'], flush_ms=d['flush_ms'])

    k = [0]
    deadline = time.time() + budget_s
    def fails_case(cs):
        k[0] += 1
        if time.time() > deadline: return False
        for rep in range(1 if kind == 'hang' else 2):
            o = run_child(exe, cs, tmpdir, 'sh%d_%d' % (k[0], rep), timeout)
            try: f = monitor(cs, o)
            except RuntimeError: return False
            if any(x[0] == kind for x in f): return True
        return False

    cur = dict(c)
    for over in (dict(noise=0), dict(pad=0)):
        if cur[list(over)[0]] != list(over.values())[0]:
            cs = build(cur['tokens'], **{**{k2: cur[k2] for k2 in ('noise', 'pad')}, **over})
            if fails_case(cs): cur.update(over)
    c.update(noise=cur['noise'], pad=cur['pad'])

    def fails_tokens(toks):
        if not valid(toks, c['actor'], c['act'], c['sh']): return False
        return fails_case(build(toks))
    toks = ddmin(c['tokens'], fails_tokens, max_tests=40)
    return build(toks)


# ---------------------------------------------------------------------------------------- run / replay
def summarize(obs, n=14):
    f = obs['file']
    return {'wait_status': obs['status'], 'issue_log_tail': obs['issue'][-n:], 'file_tail': None if f is None else f[-n:],
            'file_lines': None if f is None else len(f) - 1, 'snapshots': {k: (None if v is None else len(v) - 1) for k, v in obs['snaps'].items()},
            'stderr': obs['stderr'][-300:], 'wall_s': obs['wall']}


def child_cmdline(exe, case):
    return '%s file=/tmp/c07_replay.log %s' % (exe, case)


def gen_exit_drain(rng, facts):
    """threads log a few statements and exit; other threads flush; polls at random moments (with resumes injected at
    the yield points); then the drain. Bounded blocking and unbounded frontends."""
    from be_common import Case
    nt = rng.randint(2, 4)
    soft = rng.choice([1, 2, 4]); hard = rng.choice([h for h in (2, 4, 8) if h >= soft])
    c = Case(dropping=rng.choice([0, 2]), capk=rng.choice([8, 10]), tinit=rng.choice([2, 4]), soft=soft, hard=hard,
             grace=rng.choice([0, 0, 1000]), facts=facts)
    alive = set(range(nt))
    for _ in range(rng.randint(4, 16)):
        r = rng.random(); t = rng.randrange(nt)
        if r < 0.45: c.log(t, pad=rng.choice([0, 5, 19]))
        elif r < 0.6: c.tick(1); c.flush(t)
        elif r < 0.75 and len(alive) > 1 and t in alive: c.exit(t); alive.discard(t)
        elif r < 0.85: c.tick(rng.choice([1, 1001, 5000]))
        else:
            inj = []
            if rng.random() < 0.5:
                inj.append((rng.choice([3, 4, 5]), rng.choice([0, 1]), [('resume', rng.randrange(nt))]))
            c.poll(inj)
    n0 = len(c.cmds)
    for _ in range(4):
        for t in range(nt): c.resume(t)
        c.tick(5000)
        for _ in range(10): c.poll()
    c.ctx()
    c.keep_tail = len(c.cmds) - n0
    return c


def gen_stop(rng, facts):
    """like gen_exit_drain, but the drain is the real one: the case ends with the stop command (BackendWorker::_exit
    on the backend, exit_drain in the model) instead of hand-made polls. Aimed at the states in which "is everything
    empty?" is hard to answer: a drained node with a successor (oversize record, shrink, a burst that fills a node
    exactly) on unbounded queues, full bounded queues with parked producers, threads that exited with records queued,
    events still in the transit buffers (limits 1-4), timestamps younger than the grace period. Afterwards the
    backend is used again (start again clause: the same worker keeps polling)."""
    from be_common import Case
    nt = rng.randint(1, 4)
    soft = rng.choice([1, 2, 4]); hard = rng.choice([h for h in (2, 4, 8) if h >= soft])
    dr = rng.choice([0, 1, 2, 2, 2]); capk = rng.choice([8, 8, 10])
    grace = rng.choice([0, 0, 1000, 3000])
    c = Case(dropping=dr, capk=capk, tinit=rng.choice([2, 4]), soft=soft, hard=hard, grace=grace, facts=facts)
    cap = 1 << capk
    alive = set(range(nt))
    def burst(t):
        # statements of 64 bytes: cap/64 of them fill a node exactly, one more goes to the next node
        for _ in range(cap // 64 + rng.choice([-1, 0, 1, 2])): c.log(t, pad=19)
    for _ in range(rng.randint(2, 12)):
        r = rng.random(); t = rng.randrange(nt)
        if r < 0.35: c.log(t, pad=rng.choice([0, 5, 19]))
        elif r < 0.45 and dr == 2: c.log(t, pad=rng.choice([cap - 45, cap - 44, cap, 2 * cap + 7]))      # needs the next node(s)
        elif r < 0.55 and dr == 2: c.shrink(t, rng.choice([64, 128, 256]))
        elif r < 0.62: burst(t)
        elif r < 0.72 and len(alive) > 1 and t in alive: c.exit(t); alive.discard(t)
        elif r < 0.8: c.tick(rng.choice([1, 500, 1001, 5000]))
        elif r < 0.85: c.tick(1); c.flush(t)
        else:
            inj = []
            if rng.random() < 0.5:
                inj.append((rng.choice([3, 4, 5, 8]), rng.choice([0, 1]), [('resume', rng.randrange(nt))]))
            c.poll(inj)
    # the last thing before the stop is often the interesting one
    r = rng.random(); t = rng.randrange(nt)
    if r < 0.25 and dr == 2: c.log(t, pad=rng.choice([cap, 2 * cap + 7]))
    elif r < 0.45 and dr == 2: c.shrink(t, rng.choice([64, 128])); c.log(t, pad=rng.choice([0, 100]))
    elif r < 0.6: burst(t)
    elif r < 0.7: c.log(t)
    if rng.random() < 0.4 and t in alive and len(alive) > 1: c.exit(t); alive.discard(t)
    n0 = len(c.cmds)
    c.stop(0 if grace == 0 else rng.choice([grace // 3, grace, 5 * grace]))
    c.ctx()
    # the backend keeps working after a stop
    for _ in range(rng.randint(0, 3)): c.log(rng.randrange(nt), pad=rng.choice([0, 19]))
    for _ in range(3):
        for t in range(nt): c.resume(t)
        c.tick(20000)
        for _ in range(8): c.poll()
    c.ctx()
    c.keep_tail = len(c.cmds) - n0
    return c


def stop_monitor(case, obs):
    """the stop clause on the implementation's observations, independent of the Coq model: when the stop command
    returns, every statement whose log call had returned "accepted" before it was issued has been written to every
    sink that should get it, and every sink written to has been flushed (or asked to) after its last write; plus the
    delivery monitor of C03 on the whole stream (exactly once, per-thread order, nothing that was not accepted)."""
    import props.c03 as c03
    from be_common import Track
    tr = Track(case, obs)
    if not tr.ok: return 'no observations'
    sink_level = {k: l for k, (l, _) in enumerate(case.sinks)}
    for sp, code in tr.stops:
        if code != 1: return 'the stop command did not report completion (code %d)' % code
        wpos = {}
        for pos, k, i, lvl in tr.writes: wpos.setdefault((k, i), pos)
        for i, d in tr.stmts.items():
            if d['outcome'] != 'accepted' or d['ret'] is None or d['ret'] > sp: continue
            for k in case.loggers[d['logger']][1]:
                if d['level'] >= sink_level[k] and wpos.get((k, i), 1 << 60) > sp:
                    return ('statement %d (thread %d%s): its log call had completed before the stop, but when the backend\'s exit drain returned it had not been written to sink %d'
                            % (i, d['thread'], ', which had exited' if any(t == d['thread'] and p < sp for p, t in tr.exits) else '', k))
        for k in sink_level:
            lw = max([pos for pos, kk, i, lvl in tr.writes if kk == k and pos < sp] or [-1])
            if lw < 0: continue
            fl = [pos for pos, kk in tr.sflush if kk == k and lw < pos < sp] + [pos for pos, kind, n in tr.notes if kind == 5 and lw < pos < sp]
            if not fl: return 'sink %d was written to but not flushed before the exit drain returned' % k
    return c03.monitor(case, obs)


def driver_phase(ck, tier):
    import props.c03 as c03
    from be_check import be_driver_phase
    a = be_driver_phase(ck, tier, gen_exit_drain, c03.monitor, 250, 5000, 'M-BE vs backend driver (exit + flush + drain)')
    b = be_driver_phase(ck, tier, gen_stop, stop_monitor, 600, 12000, 'M-BE exit_drain vs BackendWorker::_exit on the backend driver (stop command)')
    if isinstance(a, dict) and isinstance(b, dict):
        a = dict(a); a.update({'stop_' + k: v for k, v in b.items()})
    return a


def run(tier):
    ck = Check(PID, tier)
    broken = []
    have_coq = os.path.exists(os.path.join(COQ, 'theories', 'Props', 'Properties_C07.v'))
    if have_coq:
        broken = standard_proof_phase(ck, 'Properties_C07')
    else:
        ck.notes.append('coq/theories/Props/Properties_C07.v not present at this commit: runtime half only (fault enumeration)')
    exe, err = ck.build_harness('proc', ['proc.cpp'], san=False)
    if not exe:
        ck.violation('no-failing-input-found', 'harness proc.cpp does not compile against the source tree: ' + err[-800:])
        return ck.finish(level='fault_enumeration', trusted=TRUSTED, rule='harness did not build', evaluations=0, distinct_nontrivial=0, samples=[])
    timeout = 30 if tier == 'quick' else 40
    gen = gen_quick() if tier == 'quick' else gen_thorough(ck.rng)
    known_replays = [f['replay_case'] for f in open_findings() if f.get('replay_case')]
    cases = []
    for cs in corpus() + known_replays + gen:
        c = parse_case(cs)
        if not valid(c['tokens'], c['actor'], c['act'], c['sh']):
            raise RuntimeError('generator produced an ill-formed case: ' + cs)
        if cs not in cases: cases.append(cs)
    tmpdir = tempfile.mkdtemp(prefix='c07_run_')
    jobs = min(16, os.cpu_count() or 4)
    try:
        t0 = time.time()
        obs = run_many(exe, cases, tmpdir, timeout, jobs=jobs)
        ck.log('%d children in %.1fs (%d in parallel)' % (len(cases), time.time() - t0, jobs))
        failing = []
        hist = {}
        nt = set(); fl = []
        for cs, o in zip(cases, obs):
            f = monitor(cs, o)
            fa = facts(cs, o); fl.append(fa)
            c = parse_case(cs)
            sig, kind = act_signal(c['act'])
            bk = fa['backlog']
            keys = ['action=' + (kind if kind in ('raise', 'kill', 'fault') else c['act']), 'clock=' + c['clock'],
                    'backend=' + ('sleeping' if c['sleep_us'] else 'spinning') + ('+pause-before-last-statement' if c['tokens'][-2:-1] == ['w'] else '')
                    + ('+pause-before-action' if c['tokens'][-1:] == ['w'] else '') + ('+noise-thread' if c['noise'] else '') + ('+30kB-statements' if c['pad'] >= 10000 else ''),
                    'backlog_at_action=' + ('unknown' if bk is None else '0 (drained)' if bk == 0 else '1-5' if bk <= 5 else '>5'),
                    'cycles_before_action=%d' % fa['cycles'], 'finished_threads=%d' % fa['finished_threads'],
                    'threads_logged=%d' % fa['threads_logged'], 'signal_handler=' + ('on', 'off', 'on-from-first-restart')[(1, 0, 2).index(c['sh'])], 'actor=' + ('main' if c['actor'] == 0 else 'other')]
            if sig: keys.append('signal=' + sig + ('(%s)' % c['act'] if kind != 'raise' else ''))
            for k in keys: hist[k] = hist.get(k, 0) + 1
            if nontrivial(fa): nt.add(cs)
            if f: failing.append((cs, o, f))
        walls_med = sorted(o['wall'] for o in obs)[len(obs) // 2]
        # classify: known findings vs violations
        reported = {}
        for cs, o, f in failing:
            kf = known_match(cs, f)
            if kf:
                line = '%s still fails: %s [%s] replay: ./check C07 --replay %s' % (kf['id'], kf['what'][:160], f[0][1][:120], kf.get('replay', ''))
                if not any(k.startswith(kf['id'] + ' ') for k in ck.known): ck.known.append(line)
                continue
            key = (f[0][0], act_signal(parse_case(cs)['act'])[1])
            reported.setdefault(key, []).append((cs, o, f))
        n_rep = 0
        for key, group in sorted(reported.items(), key=lambda kv: -len(kv[1])):
            if n_rep >= 3: break
            n_rep += 1
            group.sort(key=lambda g: len(g[0]))
            cs, o, f = group[0]
            ck.log('failure %s on %d case(s); minimising: %s' % (key, len(group), cs))
            small = cs
            try:
                small = shrink(exe, cs, f[0][0], tmpdir, max(4.0, min(timeout, 8 * walls_med)))
            except Exception as e:                       # shrinking is best effort
                ck.notes.append('shrink failed: %r' % e)
            reps = run_many(exe, [small] * 6, tmpdir, timeout, jobs=6, prefix='rep')
            rf = [monitor(small, r) for r in reps]
            nfail = sum(1 for x in rf if any(y[0] == f[0][0] for y in x))
            shown = next((r for r, x in zip(reps, rf) if x), o)
            ck.violation('impl-failing-input', 'C07 property monitor on the real library: ' + f[0][1], case=small,
                         expected='clauses (a)-(d) of C07 hold for this child', observed=summarize(shown),
                         extra={'child_cmd': child_cmdline(exe, small), 'all_failed_clauses': ['%s: %s' % x for x in f], 'original_case': cs,
                                'frequency_of_minimised_case': '%d/%d runs fail the same way' % (nfail, len(reps)),
                                'cases_failing_this_way': len(group), 'other_failing_cases': [g[0] for g in group[1:6]]})
    finally:
        shutil.rmtree(tmpdir, ignore_errors=True)
    # the drain of exited threads' statements, on the deterministic backend driver: threads log and exit, another
    # thread's flush request is processed while their statements sit in the backend's buffers, then the backend is
    # polled until everything is empty (what _exit does); monitor = every accepted statement written once, in order
    drv = driver_phase(ck, tier)
    from be_check import mbe_abstraction_search
    mbe_abstraction_search(ck, broken)
    if broken and not ck.violations:
        ck.violation('no-failing-input-found', '; '.join(broken))
    walls = sorted(o['wall'] for o in obs)
    samples = [cases[0], cases[len(cases) // 3], cases[(2 * len(cases)) // 3], cases[-1]]
    samples = [{'case': s, 'child_cmd': child_cmdline('out/build/proc-<hash>', s)} for s in samples]
    return ck.finish(level='proof' if ck.obligations else 'fault_enumeration',
                     checker_cmd=None if ck.obligations else 'harness/proc.cpp children + props/c07.py monitor (no proof obligations at this commit)',
                     trusted=TRUSTED, samples=samples,
                     rule='one child process per case = (script prefix ending at a statement boundary, acting thread, terminal action, clock source, backend '
                          'variant, stop/start cycles); quick: base script %s, crash points at tokens %s, all 6 signals x 8 points x 2 clocks, real faults, process-directed '
                          'INT/TERM, stop/exit/return rows, 1 and 2 cycles; thorough: every statement boundary of a seeded 40-statement 3-thread script (+1/2 cycles, a '
                          '2-thread all-alive script and a 1-thread script). Non-trivial = at least 2 scripted statements had completed before the terminal action and at least '
                          'one scripted thread other than the acting one had logged (the timing-dependent noise thread is not counted); distinct by case text (configuration + script)' % (','.join(Q_BASE), Q_POINTS),
                     evaluations=len(cases), distinct_nontrivial=len(nt), traces=len(cases) - len(failing),
                     extra_cov={'exhaustive': True, 'histogram': dict(sorted(hist.items())), 'monitor_failures': len(failing),
                                'children_hung': sum(1 for o in obs if o['status'] == 'HANG'),
                                'child_wall_s': {'median': walls[len(walls) // 2], 'max': walls[-1]},
                                'other_thread_statements_missing_at_a_signal_not_promised': sum(f['other_thread_missing_at_signal'] for f in fl),
                                'corpus_cases': len(corpus()), 'parallel_children': jobs, 'child_timeout_s': timeout, 'exited_thread_drain_on_backend_driver': drv})


def replay(path):
    if path.endswith('.case'):                      # a corpus file: its first case
        d = {'case': next((l.strip() for l in open(path) if l.strip() and not l.startswith('#')), None)}
    else:
        d = json.load(open(path))
    cs = d.get('case')
    if not isinstance(cs, str):
        print('replay holds no concrete case; broken:', d.get('broken')); return 1
    ck = Check(PID, 'quick')
    exe, err = ck.build_harness('proc', ['proc.cpp'], san=False)
    if not exe:
        print('harness does not build:', err[-500:]); return 1
    n = int(os.environ.get('C07_REPLAY_RUNS', '20'))
    tmpdir = tempfile.mkdtemp(prefix='c07_replay_')
    try:
        obs = run_many(exe, [cs] * n, tmpdir, 40, jobs=4, prefix='r')
    finally:
        shutil.rmtree(tmpdir, ignore_errors=True)
    print('case      :', cs)
    print('child cmd :', child_cmdline(exe, cs))
    bad = 0
    shown = False
    for o in obs:
        f = monitor(cs, o)
        if f:
            bad += 1
            if not shown:
                shown = True
                print('observation of a failing run:', json.dumps(summarize(o), indent=1))
                for x in f: print('  FAILS %s: %s' % x)
    if not shown:
        print('observation:', json.dumps(summarize(obs[0]), indent=1))
    print('%d/%d runs violate the property' % (bad, n))
    return 1 if bad else 0
