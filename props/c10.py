"""C10 — a statement that cannot be formatted or a sink that throws disturbs nothing else.
Proof: Props/Properties_C10.v. Tie: T-src (catch coverage) + T-corr through the backend driver with user
formatters throwing std::runtime_error / int, LOG_BACKTRACE without init, sinks throwing on chosen calls."""
from be_common import Case, Track, HDR_LOG
from be_check import run_be, replay_be

PID = 'C10'
MANIFEST = dict(
    text='Machine-checked (Coq) on the backend micro-step model: with the catch coverage read from the source, no exception of a user formatter escapes the decode loop and the failing record is consumed with exactly one notification; processing pops exactly one event whatever the sinks do; a throwing sink costs at most that statement at that sink and the sinks after it (sink-loop characterisation); a sink failure during a backtrace replay is contained per event and the storage is always cleared; every other statement is delivered exactly once and in order by the conservation theorem (C03), which quantifies over all formatter outcomes and throw plans. D4 (non-std exception livelock) and D6 (replay duplicates) were found on the pinned tree, fixed, and are kept as refutation/corpus. Model run against the real backend; monitor on the implementation: every statement whose own formatter is fine reaches every sink that accepts it exactly once unless an earlier sink of its logger threw on it, in thread order, and flush_log still returns. Not modelled: a throwing flush_sink.',
    design='5 C10', technique='Coq proofs over the backend micro-step machine (no-escape, progress, sink-loop scope) + source-fact translator + deterministic-driver differential correspondence')


def gen(rng, facts):
    ns = rng.randint(1, 3)
    sinks = [(rng.choice([0, 0, 4]), sorted(set(rng.sample(range(0, 14), rng.choice([0, 1, 2, 3])))) + ([4095] if rng.random() < 0.25 else []))
             for _ in range(ns)]      # 4095 in the plan: this sink's flush_sink() throws, every time
    nl = rng.randint(1, 2)
    loggers = [(0, rng.sample(range(ns), rng.randint(1, ns))) for _ in range(nl)]
    soft = rng.choice([1, 2, 4]); hard = rng.choice([h for h in (2, 4, 8) if h >= soft])
    c = Case(dropping=0, capk=rng.choice([8, 10]), tinit=rng.choice([2, 4]), soft=soft, hard=hard,
             grace=rng.choice([0, 0, 1000]), loggers=loggers, sinks=sinks, facts=facts)
    nt = rng.randint(1, 3)
    for _ in range(rng.randint(6, 40)):
        r = rng.random(); t = rng.randrange(nt); lg = rng.randrange(nl)
        if r < 0.5: c.log(t, lg=lg, lvl=rng.choice([4, 4, 6, 8]), pad=rng.choice([0, 0, 10, 40]), mode=rng.choice([0, 0, 0, 1, 2]), named=rng.random() < 0.4)
        elif r < 0.58: c.log(t, lg=lg, lvl=9, pad=0, mode=rng.choice([0, 0, 1]), named=rng.random() < 0.4)          # LOG_BACKTRACE (maybe without init)
        elif r < 0.64: c.init_bt(t, lg=lg, cap=rng.choice([1, 2, 3]), flvl=rng.choice([10, 8, 6]))
        elif r < 0.70: c.flush_bt(t, lg=lg)
        elif r < 0.76: c.flush(t, lg=lg)
        elif r < 0.82: c.resume(t)
        elif r < 0.86: c.tick(rng.choice([1, 1000, 1001]))
        else: c.poll()
    c.mark_tail()
    for _ in range(4):
        for t in range(nt): c.resume(t)
        c.tick(2000)
        for _ in range(10): c.poll()
    c.ctx()
    return c


def corpus_cases(facts):
    out = []
    # D4 replay: a formatter throwing a non-std type between two good statements
    c = Case(facts=facts); c.log(0); c.log(0, mode=2); c.log(0)
    for _ in range(6): c.poll()
    c.flush(0)
    for _ in range(3): c.poll()
    c.resume(0); out.append(c)
    # D6 replay: the sink throws on the 2nd replayed backtrace event
    c = Case(sinks=[(0, [2])], facts=facts)
    c.init_bt(0, cap=3, flvl=7); c.poll(); c.poll()
    for _ in range(3): c.log(0, lvl=9)
    c.log(0, lvl=7)
    for _ in range(8): c.poll()
    c.log(0, lvl=9); c.log(0, lvl=7)
    for _ in range(8): c.poll()
    out.append(c)
    return out


def monitor(case, obs):
    tr = Track(case, obs)
    if not tr.ok: return 'no observations'
    if tr.pending: return None
    sink_level = {k: l for k, (l, _) in enumerate(case.sinks)}
    seen = {}
    for pos, k, i, lvl in tr.writes:
        if i: seen.setdefault(k, []).append(i)
    for k, ids in seen.items():
        dup = [i for i in ids if ids.count(i) > 1 and tr.stmts.get(i, {}).get('level') != 9]
        if dup:
            return 'statement %d written more than once to sink %d' % (dup[0], k)
    # a statement that cannot be formatted reaches the sinks as the error text, never with (part of) its own text: the
    # driver's formatter writes "<id>:" before it throws a non-std exception
    for pos, k, i, lvl in tr.writes:
        d = tr.stmts.get(i)
        if i and d is not None and d['mode'] != 0 and d['level'] != 9:
            return 'sink %d was handed text of statement %d, whose formatter throws (mode %d): the partial output of the failed formatting reached the sink' % (k, i, d['mode'])
    # which (sink, id) pairs may legitimately be missing: a sink throws on one of its write_log calls, and then that
    # statement is also missing from the sinks after it. We allow, per throw in the plan, one missing statement per sink.
    throws = sum(len([x for x in th if x != 4095]) for (_, th) in case.sinks)
    missing = 0
    for i, d in tr.stmts.items():
        if d['outcome'] != 'accepted' or d['mode'] != 0 or d['level'] == 9: continue
        for k in case.loggers[d['logger']][1]:
            if d['level'] >= sink_level[k] and i not in seen.get(k, []):
                missing += 1
    if missing > throws * max(1, len(case.sinks)):
        return '%d (statement, sink) deliveries are missing but the sinks throw only %d times in total' % (missing, throws)
    # a sink sees exactly the statement's own named arguments: none for a positional statement (a transit event reused
    # after a failed statement must not leak that statement's key/value pairs)
    for pos, k, i, n in tr.named_seen:
        d = tr.stmts.get(i)
        if d is not None:
            want = 2 if d.get('named') else 0
            if n != want:
                return 'sink %d received statement %d with %d named arguments, the statement has %d' % (k, i, n, want)
    # a sink whose flush throws disturbs nothing else: when a flush_log() has returned, every other sink in use was
    # flushed between the call and its return
    used = sorted(set(k for (_, ks) in case.loggers for k in ks))
    for i, f in tr.flushes.items():
        if f.get('ret') is None: continue
        for k in used:
            if 4095 in case.sinks[k][1]: continue
            if not any(f['start'] < sf < f['ret'] for (sf, kk) in tr.sflush if kk == k):
                return 'flush_log() %d returned but sink %d was not flushed (the flush of another sink throws: %s)' % (
                    i, k, [j for j in used if 4095 in case.sinks[j][1]])
    # "if a sink's flush throws, the error is reported": a pass over the sinks leaves one token per sink in use, a flush
    # record for a sink that was flushed and an error report for one whose flush threw (the recording sinks all throw the
    # same text). Consecutive passes merge into one run of tokens; in a run with P passes (P = flush records / number of
    # non-throwing sinks) at least P x (number of throwing sinks) reports must be present.
    n_throw = sum(1 for k in used if 4095 in case.sinks[k][1]); n_ok = len(used) - n_throw
    if n_throw and n_ok and obs:
        p = 0
        while p < len(obs):
            if obs[p][0] == 'sflush' or (obs[p][0] == 'note' and obs[p][1] == 5):
                q = p; nf = 0; nr = 0
                while q < len(obs) and (obs[q][0] == 'sflush' or (obs[q][0] == 'note' and obs[q][1] == 5)):
                    nf += obs[q][0] == 'sflush'; nr += obs[q][0] == 'note'; q += 1
                if nf and nf % n_ok == 0 and nr < (nf // n_ok) * n_throw:
                    return ('%d pass(es) over the sinks flushed the %d healthy sink(s) but only %d error report(s) reached the notifier for the %d sink(s) whose flush_sink() throws'
                            % (nf // n_ok, n_ok, nr, n_throw))
                p = q
            else:
                p += 1
    # per-thread order among ordinary statements
    for k, ids in seen.items():
        last = {}
        for i in ids:
            d = tr.stmts.get(i)
            if not d or d['level'] == 9: continue
            if d['thread'] in last and last[d['thread']] > i:
                return 'sink %d: statements of thread %d out of order (%d after %d)' % (k, d['thread'], i, last[d['thread']])
            last[d['thread']] = i
    for i, f in tr.flushes.items():
        if f.get('ret') is None and not f.get('ignored'):
            return 'flush_log (request %d) never returned although the backend kept polling' % i
    return None


def nontrivial(case, obs):
    tr = Track(case, obs)
    if not tr.ok: return False
    return (any(d['mode'] != 0 and d['outcome'] == 'accepted' for d in tr.stmts.values()) or any(k == 5 for (_, k, _) in tr.notes)) \
        and any(d['mode'] == 0 and d['outcome'] == 'accepted' for d in tr.stmts.values())


RULE = ('histories from 1-3 threads and 1-2 loggers over 1-3 recording sinks whose write_log throws on chosen call indices; statements whose user formatter throws std::runtime_error or a non-std int '
        'at random positions; LOG_BACKTRACE with and without init_backtrace, replays triggered by level and by flush_backtrace; flush_log requests; drain at the end; '
        'non-trivial = at least one failing formatter or throwing sink together with at least one healthy delivered statement; distinct by case text')

run = run_be(PID, 'Properties_C10', gen, monitor, nontrivial, RULE, n_quick=400, n_thorough=20000, corpus_cases=corpus_cases)
replay = replay_be(PID, monitor)
