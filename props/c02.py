"""C02 — unbounded queue keeps the record stream intact across growth/shrink, within the cap.
Proof: Props/Properties_C02.v — release/acquire transition system over the nodes (every interleaving of
producer/consumer micro-steps and every legal load result): node-wise bounded-queue safety, old node
drained before the switch (needs the re-check after the acquiring load of `next`; refuted without it and
with a relaxed publish), global FIFO, no access to a deleted node, allocation bound; sequential layer:
the same plus reject / defer / shrink effect, for every op list.
Tie: T-src (skeletons of 13 methods, orders of the `next` store/loads, re-check, commit-before-delete,
publish-before-switch from clang's AST, TieC02.v) + T-corr (extracted sequential model vs the real
UnboundedSPSCQueue under ASan, node allocations counted at operator new and at mmap) + direct monitors
+ two real threads with grow/shrink storms (plain, TSan, ASan)."""
import json, os, re
from vlib import Check, standard_proof_phase, correspond, ddmin, sh, VERIF, REPO, OUT
import uq_common as U
from props.c01 import srcfacts_values

PID = 'C02'
MANIFEST = dict(
    text='Machine-checked (Coq) for the unbounded SPSC queue. Release/acquire layer (one bounded-queue view model per node plus the `next` atomic whose release message carries the producer\'s view; every list of producer steps write/grow/shrink and consumer steps load/read/commit/load-next/re-check/switch = every interleaving, every index an atomic load may legally return, every initial/maximum capacity with next_pow2(initial) <= max, every size sequence): the stream the consumer read is a prefix of the stream the producer wrote and no record occurs twice (C02_fifo); the consumer leaves node j only when every record of node j was read (C02_old_before_new, C02_node_order; refuted by vm_compute witnesses when the re-check is removed or the `next` publish/load is relaxed); no step touches a deleted node (C02_no_uaf); each node satisfies the bounded queue\'s race-freedom invariant (uq_race_free); every allocation is a power of two <= max (C02_alloc_bound). Sequential layer (the one run against the real queue): the same four facts for every op list of complete statements, plus: n > max is rejected with the error and n <= max needing a node > max is refused with no state change (C02_reject, C02_defer, C02_granted_le_max), shrink(c) takes effect iff c <= capacity/2 and yields next_pow2(c) (C02_shrink_effect). The memory orders, the presence of the re-check, commit_read-before-delete and publish-before-switch are read from /repo by clang on every run. The model is run against the real queue (ASan build; node allocations measured at operator new/delete and at mmap/munmap) with monitors evaluating the property directly on the implementation, and two real threads run grow/shrink storms with checksummed records plain, under ThreadSanitizer and under AddressSanitizer.',
    design='5 C02', technique='Coq invariant proof over a release/acquire transition system (lifting the bounded-queue invariant node-wise) + sequential refinement + source-fact translator (clang AST) + extracted-model/implementation differential correspondence')
TRUSTED = [
    'Coq 8.16.1 kernel (vm_compute for witnesses; no native_compute); every theorem Closed under the global context',
    'the release/acquire collapse of C++11 to seen/know views (DESIGN section 4, hand-argued), extended by: the release store of `next` carries the producer\'s newest-message index and writer position for the node it leaves; grow/shrink (commit old node, allocate, store next, switch) is one producer step because the producer performs no shared access between the store and the switch',
    'tools/srcfacts.py over clang 14 JSON AST (skeletons of 13 UnboundedSPSCQueue methods, 4 memory orders, 6 order/presence facts)',
    'extraction: ExtrOcamlBasic only; extract/driver.ml; harness/uq.cpp (operator new/delete replacement, --wrap=mmap/munmap), harness/uq_mt.cpp; ASan/TSan as auxiliary searchers',
    'modelled rather than verified: the queue methods are re-stated in Gallina (Queue/UQDefs.v); size_t overflow of the doubling loop, mmap/huge-page failure paths and the destructor are not modelled; premises visible in the theorems: next_pow2(initial) <= max, writes are complete statements of at least one byte (finish_and_commit_write; shrink() itself does not commit)',
]
WRAP = ['-Wl,--wrap=mmap,--wrap=munmap']
WITNESS = [
    ('uq_recheck_present', 'false', 'the re-check of the old node after the acquiring load of `next` is gone',
     'cfg_norecheck', ['UPAskCached 4', 'UPWrite', 'UPGrow 100', 'UCLoadNext true', 'UCSwitch false'], 'uq_norecheck_loses'),
    ('uq_next_load_after_empty', 'false', '`next` is no longer loaded after the bounded queue reported empty',
     'cfg_norecheck', ['UPAskCached 4', 'UPWrite', 'UPGrow 100', 'UCLoadNext true', 'UCSwitch false'], 'uq_norecheck_loses'),
    ('uq_next_store_grow', 'Rel', '_handle_full_queue publishes `next` without release',
     'cfg_rlx_next', ['UPAskCached 4', 'UPWrite', 'UPGrow 100', 'UCLoadNext true', 'UCRecheck 0', 'UCSwitch false'], 'uq_relaxed_next_loses'),
    ('uq_next_store_shrink', 'Rel', 'shrink publishes `next` without release',
     'cfg_rlx_next (shrink variant)', ['UPAskCached 4', 'UPWrite', 'UPShrink 16', 'UCLoadNext true', 'UCRecheck 0', 'UCSwitch false'], 'uq_relaxed_next_loses'),
    ('uq_next_load', 'Acq', 'prepare_read loads `next` without acquire',
     'cfg_rlx_load', ['UPAskCached 4', 'UPWrite', 'UPGrow 100', 'UCLoadNext true', 'UCRecheck 0', 'UCSwitch false'], 'uq_relaxed_load_loses'),
    ('uq_commit_before_delete', 'false', 'the old node is deleted before commit_read runs on it',
     'cfg_delete_first', ['UPGrow 100', 'UCLoadNext true', 'UCRecheck 1', 'UCSwitch false'], 'uq_delete_first_touches_freed'),
]


def flags_from(facts):
    b = lambda k: '0' if facts.get(k) == 'false' else '1'
    rc = '1' if (facts.get('uq_recheck_present') != 'false' and facts.get('uq_next_load_after_empty') != 'false') else '0'
    return (b('bq_publish_on_batch'), b('bq_publish_on_drain'), rc, b('uq_commit_before_delete'))


def with_flags(case, fl):
    t = case.split(); t[1:5] = list(fl); return ' '.join(t)


def corpus():
    d = os.path.join(VERIF, 'corpus', PID); out = []
    if os.path.isdir(d):
        for f in sorted(os.listdir(d)):
            if f.endswith('.case'):
                out += [l.strip() for l in open(os.path.join(d, f)) if l.strip() and not l.startswith('#')]
    return out


def mt_runs(ck, tier):
    """two real threads, grow/shrink storms; returns (failure text or None, info).
    kinds: plain (threads on different cores), pinned (same binary, both threads on one CPU, busy polling: timer preemption
    at arbitrary instructions opens the few-instruction windows of prepare_read), tsan, asan"""
    quick = tier == 'quick'
    n = {'plain': 150000, 'pinned': 400000, 'tsan': 25000, 'asan': 40000} if quick else {'plain': 1500000, 'pinned': 3000000, 'tsan': 250000, 'asan': 800000}
    flags = {'plain': [], 'pinned': [], 'tsan': ['-fsanitize=thread'], 'asan': ['-fsanitize=address']}
    info = {}
    for kind in ('plain', 'pinned', 'tsan', 'asan'):
        exe, err = ck.build_harness('uq_mt_' + ('plain' if kind == 'pinned' else kind), ['uq_mt.cpp'], flags=flags[kind], san=False)
        if not exe:
            return 'uq_mt.cpp (%s) does not compile against /repo: %s' % (kind, err[-300:]), None
        runs = []
        confs = ((64, 65536, 1), (256, 3000, 2), (1024, 16384, 3)) if quick else ((64, 65536, 1), (256, 3000, 2), (1024, 16384, 3), (16, 1024, 4), (4096, 40000, 5))
        for initial, maxc, seed in confs:
            env = dict(os.environ, TSAN_OPTIONS='halt_on_error=1:exitcode=66', ASAN_OPTIONS='detect_leaks=0:exitcode=99')
            args = [str(initial), str(maxc), str(n[kind]), str(seed + ck.seed)] + (['1'] if kind == 'pinned' else [])
            rc, so, se = sh([exe] + args, timeout=40 if quick else 400, env=env)
            runs.append((initial, maxc, seed + ck.seed, rc, so.strip()[:60]))
            if rc != 0 or not so.startswith('OK'):
                m = re.search(r'(WARNING: ThreadSanitizer: [^\n]+|ERROR: AddressSanitizer: [^\n]+)', se or '')
                loc = re.findall(r'#\d+ [^\n]*UnboundedSPSCQueue[^\n]*', se or '')[:3]
                return ('two-thread grow/shrink run (%s) initial=%d max=%d records=%d seed=%d: rc=%s %s %s %s'
                        % (kind, initial, maxc, n[kind], seed + ck.seed, rc, so.strip()[:80] or ('no answer within the time limit' if rc == 'TIMEOUT' else ''),
                           m.group(1) if m else (se or '')[-200:], ' | '.join(x.strip() for x in loc))), \
                       {'harness': 'harness/uq_mt.cpp', 'build': kind, 'args': [int(a) for a in args]}
        info[kind] = runs
    return None, info


def run(tier):
    ck = Check(PID, tier)
    broken = standard_proof_phase(ck, 'Properties_C02')
    facts = srcfacts_values()
    keys = ('uq_next_store_grow', 'uq_next_store_shrink', 'uq_next_load', 'uq_empty_next_load', 'uq_recheck_present', 'uq_next_load_after_empty',
            'uq_commit_before_delete', 'uq_publish_before_switch', 'uq_commit_write_before_publish', 'uq_delete_before_switch')
    ck.tie.append({'T-src facts': {k: facts.get(k) for k in keys}})
    mexe, err = ck.build_modelrun()
    if not mexe:
        ck.violation('no-failing-input-found', 'model extraction/build failed: ' + err[-400:]); return ck.finish(trusted=TRUSTED)
    iexe, err = ck.build_harness('uq', ['uq.cpp'], flags=WRAP)
    if not iexe:
        ck.violation('no-failing-input-found', 'harness uq.cpp does not compile against /repo: ' + err[-600:]); return ck.finish(trusted=TRUSTED)
    n = 1500 if tier == 'quick' else 40000
    fl = flags_from(facts)
    first = [with_flags(c, fl) for c in corpus() + U.boundary_cases()]
    cases = first + [with_flags(c, fl) for c in [U.gen_case(ck.rng) for _ in range(n)] + [U.gen_cycle(ck.rng) for _ in range(n // 4)]]
    il = ck.run_impl(iexe, first)
    if sum(1 for l in il if l.startswith(('CRASH', 'HANG'))) >= 3:
        # the implementation dies on the corpus already: every further case would cost a process of its own
        ck.notes.append('implementation crashes/hangs on %d of the %d corpus and boundary cases; generated cases skipped' % (sum(1 for l in il if l.startswith(('CRASH', 'HANG'))), len(first)))
        cases = first
    else:
        il = il + ck.run_impl(iexe, cases[len(first):])
    ml = ck.run_model(mexe, cases)

    def shrink(case, mode):
        hdr, ops = U.parse(case)
        def fails(o):
            c = U.unparse(hdr, o); i = ck.run_impl(iexe, [c])[0]
            return (U.monitor_c02(c, i) is not None) if mode == 'monitor' else (ck.run_model(mexe, [c])[0] != i)
        return U.unparse(hdr, ddmin(ops, fails))
    dis, mon = correspond(ck, 'M-UQ sequential layer vs UnboundedSPSCQueue', cases, ml, il, monitor=U.monitor_c02, shrink=shrink)

    tmsg, tinfo = mt_runs(ck, tier)
    if tmsg:
        ck.violation('impl-failing-input', 'two real threads over UnboundedSPSCQueue (checksummed stream, sanitizers): ' + tmsg,
                     case=tinfo, expected='OK: every record once, in order, intact; no data race; no access to a deleted node', observed=tmsg)
    if broken and not ck.violations:
        for key, good, what, cfgname, trace, thm in WITNESS:
            v = facts.get(key)
            bad = (v is not None) and ((good in ('Rel', 'Acq') and v not in (good, 'AcqRel', 'Sc')) or (good == 'false' and v == 'false'))
            if bad:
                ck.violation('model-witness', what + ' (SrcFacts.%s = %s); broken: %s' % (key, v, '; '.join(broken)[:300]),
                             case={'model': 'Queue.UQDefs.rrun 4096 ' + cfgname + ' 64', 'ops': trace},
                             expected='rlost = [] and ruaf = false (C02_old_before_new, C02_no_uaf)',
                             observed='a committed record is left unread in the node the consumer leaves / a deleted node is touched (Example %s, checked by vm_compute)' % thm)
                break
        else:
            ck.violation('no-failing-input-found', '; '.join(broken))
    res = dict(zip(cases, il))
    nt = len(set(c for c in cases if U.nontrivial(c, res[c]))) if not mon else 0
    hist = {}
    for c in cases:
        h = c.split(); k = 'max=%s' % h[7]; hist[k] = hist.get(k, 0) + 1
    opk = {}
    for c in cases:
        for o in U.parse(c)[1]: opk[o[0]] = opk.get(o[0], 0) + 1
    return ck.finish(trusted=TRUSTED, samples=[cases[0], cases[len(cases) // 2][:400]],
                     rule='single-thread op sequences W n c / CW / R / CR / E / shrink c on the real UnboundedSPSCQueue, initial 16..65536 (some not powers of two), max in {1024,1500,2048,3000,4096,5000,8192,10000,16384,24576,40000,65536}; sizes steered to {1, cap-1, cap, cap+1, 2cap-1, 2cap, 2cap+1, 4cap, free, free+-1, published-free+-1, max-1, max, max+1, prev_pow2(max)-1, prev_pow2(max), prev_pow2(max)+1}; shrink requests {cap/2, cap/4, cap/2+1, cap/2-1, cap, 1, 0, random} issued while the consumer is mid-node; a quarter of the cases are grow->shrink->grow cycles; non-trivial = >= 1 grow and >= 1 consumer switch and >= 1 of (effective shrink, refusal at the cap, rejection); distinct by case text',
                     evaluations=len(cases), distinct_nontrivial=nt, traces=len(cases) - len(dis) - len(mon),
                     extra_cov={'disagreements': len(dis), 'monitor_failures': len(mon), 'max_histogram': hist, 'op_histogram': opk,
                                'model_variant_flags(on_batch,on_drain,recheck,commit_before_delete)': list(fl),
                                'two_thread_runs': tinfo if not tmsg else tmsg})


def replay(path):
    d = json.load(open(path)); ck = Check(PID, 'quick')
    c = d.get('case')
    if not isinstance(c, str):
        print('replay:', json.dumps(d, indent=1)[:3000])
        if isinstance(c, dict) and c.get('harness') == 'harness/uq_mt.cpp':
            b = c.get('build', 'plain')
            fl = {'plain': [], 'pinned': [], 'tsan': ['-fsanitize=thread'], 'asan': ['-fsanitize=address']}[b]
            exe, _ = ck.build_harness('uq_mt_' + ('plain' if b == 'pinned' else b), ['uq_mt.cpp'], flags=fl, san=False)
            rc, so, se = sh([exe] + [str(x) for x in c['args']], timeout=300, env=dict(os.environ, TSAN_OPTIONS='halt_on_error=1:exitcode=66', ASAN_OPTIONS='detect_leaks=0:exitcode=99'))
            print('rc', rc, so.strip()[:200]); print((se or '')[:3000])
            return 0 if (rc == 0 and so.startswith('OK')) else 1
        return 1
    mexe, _ = ck.build_modelrun(); iexe, _ = ck.build_harness('uq', ['uq.cpp'], flags=WRAP)
    i = ck.run_impl(iexe, [c])[0]
    print('case :', c); print('model:', ck.run_model(mexe, [c])[0]); print('impl :', i); print('monitor:', U.monitor_c02(c, i))
    return 1 if U.monitor_c02(c, i) else 0
