"""C03 — every accepted statement reaches each sink of its logger once, in thread order.
Proof: Props/Properties_C03.v (conservation invariant of M-BE for every op list; sink-loop spec).
Tie: T-corr through the deterministic backend driver, plus the property monitor on the implementation.
Below the granularity of M-BE: the thread-context registration / cache-refresh protocol at micro-step
granularity (Backend/RegProto.v: no context is ever lost, for every interleaving, when the append precedes
the flag store and the flag is consumed before the rebuild; refuted for flag-before-append and
rebuild-before-consume), tied to ThreadContextManager.h / Spinlock.h / BackendWorker.h by T-src facts, and
real threads on the real ThreadContextManager + the real BackendWorker cache refresh (harness/reg_mt.cpp) as
the search for a failing input and a standing stress check."""
import json, os, re, time
from vlib import Check, sh
from be_common import Case, Track, HDR_LOG
import be_gen
from be_check import run_be, replay_be, TRUSTED_BE
from props.c01 import srcfacts_values

PID = 'C03'
MANIFEST = dict(
    text='Machine-checked (Coq) conservation invariant of the backend micro-step model for every interleaving of log calls, thread exits and backend steps, every capacity, transit-buffer size and soft/hard limit: per thread, committed = processed ++ buffered ++ queued (nothing lost, duplicated or reordered by queue reads, buffer growth, limit exits or context removal), and the sink loop writes a statement exactly once to each sink of its logger that passes its own filter (C03_conservation, C03_sink_loop, C03_sink_gets_line_iff). The model is run against the real backend (ManualBackendWorker::poll_one with yield hooks, real frontend threads, virtual clock) on generated schedules and the property itself is evaluated on the implementation\'s sink calls. Not yet proved here: the bounded-liveness clause (drain within K polls) and unbounded queues. Queue kinds: bounded blocking, bounded dropping and UnboundedBlocking frontends (the default type; initial node 256/1024 bytes so that queues grow). For unbounded frontends the thread record of M-BE carries the node structure of the queue (the sequential layer of M-UQ, updated at every queue call; it decides the backend\'s per-call read limit = capacity of the consumer\'s current node) next to a byte queue too large to fill; the theorems quantify over every initial node structure (premise fresh_thr) and every capacity, and the extracted model is compared with the real backend on growing queues as well.' +
         ' Below the granularity of that model (which registers a thread context in one frontend step: append to the registry + raise the new-context flag, and refreshes the backend\'s context cache in one backend step: if the flag is up, clear it and copy the registry), also machine-checked ("threads logging for the first time"): the registration / cache-refresh protocol at micro-step granularity for any number of registering threads and the one backend (registration = lock;push_back;unlock then flag:=true; refresh = load of the flag, separate store(false) - or one exchange -, then the rebuild under the lock): for every interleaving of the micro-steps, with append-before-flag and consume-before-rebuild, the cache is always a duplicate-free prefix of the duplicate-free registry, a context whose registration call is over is cached already or a rebuild is due, one more refresh call caches it for good, and when no registration is half-way the cache equals the registry; the load;store consumption that the source has is proved as sound as an exchange (the rebuild follows the store); the micro-step protocol refines the single-step FReg/refresh of the backend model call by call (explicit linearisation trace; the atomic machine is proved equal to M-BE\'s fstep(FReg)/refresh on (registered, newflag, cache)); witness schedules refute flag-before-append (a registered context no later refresh ever caches: its queue is never read) and rebuild-before-consume. Which variant the source has (register_thread_context: one push_back under _spinlock then one store(true) to the std::atomic<bool> flag; new_thread_context_flag: exchange / load;store / compare_exchange; _update_active_thread_contexts_cache: flag consumed in the if condition, rebuild in its body; for_each_thread_context under LockGuard; Spinlock exchange(acquire)/store(release)) is re-read by clang on every run and proved equal to the good flags (T-src). The memory order of the flag accesses is deliberately not constrained (reported only): with the registry under the lock, coherence of the one atomic flag is enough, for relaxed accesses too (hand argument in RegProto.v). Not proved but stress-tested on every run: K real threads registering N fresh contexts each on the real ThreadContextManager while one thread loops the real BackendWorker::_update_active_thread_contexts_cache (K 1-8, N 1-1000, pinned and unpinned; thousands of runs quick, ten times more + a ThreadSanitizer build thorough); a registered context missing from the backend\'s cache after the final refreshes is reported as a concrete failing input (K, N, pin and the observed counts). The stress run sees only the interleavings the machine produces; removal of contexts during registration is not part of the micro-step model (it is a backend-only step of M-BE).'
         ' Backend buffer growth: the slot array of TransitEventBuffer (M-TEB: positions reduced by the mask, _expand moving a wrapped ring to the front of an array of twice the size, try_shrink; variant read from the source each run) is proved to show, for every initial capacity and every history of backend calls, exactly what the list-with-a-doubling-capacity of the micro-step model shows; each detail of _expand/back() is shown necessary by a refutation; model, list and the real class run the same histories (harness/teb.cpp, ASan/UBSan).',
    design='5 C03', technique='Coq invariant proof over a backend micro-step machine + deterministic-driver differential correspondence; Coq invariant/refinement proof of the registration protocol over all interleavings + source-fact translator (clang AST) + multi-thread stress search on the real ThreadContextManager/BackendWorker; Coq refinement proof (slot array of TransitEventBuffer -> list) + differential correspondence on the real class')


def gen(rng, facts):
    """blocking queues, no failing formatters, no throwing sinks; ends with a drain phase"""
    ns = rng.randint(1, 3)
    sinks = [(rng.choice([0, 0, 4]), []) for _ in range(ns)]
    nl = rng.randint(1, 3)
    loggers = [(rng.choice([0, 0, 4]), rng.sample(range(ns), rng.randint(1, ns))) for _ in range(nl)]
    soft = rng.choice([1, 2, 4]); hard = rng.choice([h for h in (2, 4, 8) if h >= soft])
    c = Case(dropping=rng.choice([0, 0, 0, 2]), capk=rng.choice([8, 8, 10]), tinit=rng.choice([2, 4]), soft=soft, hard=hard,
             grace=rng.choice([0, 0, 1000]), loggers=loggers, sinks=sinks, facts=facts)
    C = 1 << c.capk
    nt = rng.randint(1, 5)
    for _ in range(rng.randint(5, 50)):
        r = rng.random()
        if r < 0.08 and nt >= 2:
            # an earlier-stamped flush of one thread, then statements of another thread that exits while
            # they are still buffered: the flush is processed first (context clean-up runs there)
            a, b = rng.sample(range(nt), 2)
            c.flush(b, lg=rng.randrange(nl)); c.tick(1)
            for _ in range(rng.randint(1, 4)): c.log(a, lg=rng.randrange(nl), lvl=rng.choice([4, 6, 8]), pad=rng.choice([0, 10]))
            c.exit(a)
            for _ in range(rng.randint(1, 3)): c.poll()
            c.resume(b)
        elif r < 0.6:
            t = rng.randrange(nt)
            pad = rng.choice([0, 0, 3, C // 4, C // 2 - HDR_LOG, C - HDR_LOG, C - HDR_LOG - 45, rng.randint(0, C // 3)])
            c.log(t, lg=rng.randrange(nl), lvl=rng.choice([3, 4, 4, 6, 8]), pad=max(0, min(pad, C - HDR_LOG)))
        elif r < 0.7: c.resume(rng.randrange(nt))
        elif r < 0.75: c.exit(rng.randrange(nt))
        elif r < 0.8: c.tick(rng.choice([1, 1000, 1001]))
        else:
            inj = []
            if rng.random() < 0.3:
                t = rng.randrange(nt)
                inj.append((rng.choice([3, 4]), rng.choice([0, 1]), [('log', t, c.next_id, rng.randrange(nl), 4, HDR_LOG, 0, False)])); c.next_id += 1
            c.poll(inj)
    # drain: let blocked producers finish, move the clock past the grace period, poll until idle
    n0 = len(c.cmds)
    if rng.random() < 0.3:
        # the backend is stopped instead: its exit drain (BackendWorker::_exit, wait_for_queues_to_empty_before_exit) has to
        # deliver everything accepted so far, from every thread, whatever the order in which the threads registered
        for t in range(nt): c.resume(t)
        c.stop(0 if c.grace == 0 else rng.choice([c.grace, 3 * c.grace]))
        c.ctx()
        c.keep_tail = len(c.cmds) - n0
        return c
    for _ in range(6):
        for t in range(nt): c.resume(t)
        c.tick(2000)
        for _ in range(12): c.poll()
    c.ctx()
    c.keep_tail = len(c.cmds) - n0
    return c


def monitor(case, obs):
    tr = Track(case, obs)
    if not tr.ok: return 'no observations'
    for pos, kind, n in tr.notes:
        if kind == 7:
            return 'statement %d reached a sink with a corrupted payload (text after "<id>:" differs from what was logged)' % n
    # expected per sink: accepted statements of loggers holding that sink whose level passes the sink's filter
    sink_level = {k: l for k, (l, _) in enumerate(case.sinks)}
    seen = {}
    for pos, k, i, lvl in tr.writes:
        seen.setdefault(k, []).append(i)
    for k, ids in seen.items():
        if len(ids) != len(set(ids)):
            d = [i for i in ids if ids.count(i) > 1][0]
            return 'statement %d written more than once to sink %d' % (d, k)
    for i, d in tr.stmts.items():
        if d['outcome'] != 'accepted': continue
        for k in case.loggers[d['logger']][1]:
            want = d['level'] >= sink_level[k]
            got = i in seen.get(k, [])
            if want and not got:
                return 'accepted statement %d (thread %d, logger %d, level %d) never reached sink %d' % (i, d['thread'], d['logger'], d['level'], k)
            if got and not want:
                return 'statement %d of level %d reached sink %d whose level filter is %d' % (i, d['level'], k, sink_level[k])
    for k, ids in seen.items():
        for i in ids:
            if i not in tr.stmts or tr.stmts[i]['outcome'] != 'accepted':
                return 'sink %d received statement %d that was not accepted' % (k, i)
        # per-thread order
        last = {}
        for i in ids:
            t = tr.stmts[i]['thread']
            if t in last and last[t] > i:
                return 'sink %d: statements of thread %d out of order (%d after %d)' % (k, t, i, last[t])
            last[t] = i
    return None


def nontrivial(case, obs):
    tr = Track(case, obs)
    if not tr.ok: return False
    acc = [d for d in tr.stmts.values() if d['outcome'] == 'accepted']
    blocked = any(d['outcome'] in ('accepted',) and d['ret'] is not None and d['ret'] != d['pos'] for d in tr.stmts.values())
    return len(acc) >= 3 and len(set(d['thread'] for d in acc)) >= 2


RULE = ('schedules of log calls (1-5 threads, 1-3 loggers sharing 1-3 recording sinks, sizes up to the queue capacity so that producers block), '
        'thread exits, clock ticks and backend polls with commands injected at yield points, BoundedBlocking queues of 256/1024 bytes, transit buffer 2/4, '
        'soft 1-4, hard 2-8, grace 0/1000; each case ends with a drain phase; non-trivial = >= 3 accepted statements from >= 2 threads; distinct by case text')

# ---------------------------------------------------------------------------------------------
# real threads on the real ThreadContextManager + the real BackendWorker cache refresh (harness/reg_mt.cpp):
# case "reg_mt <K> <N> <pin>", observation "<registered> <cached> <missing>"
REG_FACTS = ('tcm_register_append_before_flag', 'tcm_flag_consume_shape', 'be_cache_rebuild_after_flag_consume',
             'tcm_for_each_under_lock', 'spinlock_acquire_release', 'tcm_flag_store_order')
REG_FLAGS = ['-fno-access-control']     # the harness calls the private BackendWorker::_update_active_thread_contexts_cache


def reg_monitor(case, line):
    """the registration clause on the implementation: after the producers are joined and the backend's refresh ran
    again, every registered context is in the backend's cache, once"""
    if line.startswith(('CRASH', 'HANG', 'NOOUTPUT', 'NOTRUN')):
        return 'implementation ' + line
    a = case.split(); k, n = int(a[1]), int(a[2]); t = line.split()
    if len(t) != 3 or not all(x.isdigit() for x in t) or int(t[0]) != k * n:
        return 'malformed observation %r' % line
    if int(t[2]) != 0:
        return ('%s of %s registered thread contexts are not in the backend\'s cache after every registration call returned and the cache '
                'refresh ran again: the backend never reads their queues, their statements reach no sink' % (t[2], t[0]))
    if int(t[1]) != k * n:
        return 'the backend\'s cache holds %s entries for %s registered contexts (a context cached more than once, or a stale one)' % (t[1], t[0])
    return None


REG_PLAN = [(3, 1, 0, 300), (3, 1, 1, 300), (4, 1, 0, 200), (2, 1, 0, 200), (1, 1, 0, 30), (8, 1, 0, 30),
            (4, 2, 0, 100), (3, 30, 1, 30), (2, 300, 0, 4), (4, 1000, 0, 1)]


def reg_round():
    """one round of runs, (K, N, pin, repetitions): the last registrations of a run are the ones that can be lost for good,
    so many short runs with colliding producers (N = 1) are the sensitive ones; the long ones exercise rebuilds of a
    large registry while registrations go on"""
    out = []
    for k, n, pin, reps in REG_PLAN:
        out += ['reg_mt %d %d %d' % (k, n, pin)] * reps
    return out


def reg_runs(ck, exe, tier):
    """rounds of reg_round() until the wall-clock budget is used up (a round takes ~0.5 s on an idle machine, several
    seconds on a loaded one): at least 1 round, at most 10 (quick) / 100 (thorough); stops at the first round with a mismatch"""
    budget, most = (5.0, 10) if tier == 'quick' else (60.0, 100)
    t0 = time.time(); cases = []; il = []; rounds = 0
    while rounds < most and (rounds < 1 or time.time() - t0 < budget):
        rc = reg_round()
        rl = ck.run_impl(exe, rc, timeout=300, per_case_timeout=30, max_fail=3)
        cases += rc; il += rl; rounds += 1
        if any(reg_monitor(c, i) for c, i in zip(rc, rl)):
            break
    return cases, il, rounds


def reg_phase(ck, tier, broken):
    t0 = time.time()
    facts = srcfacts_values()
    ck.tie.append({'T-src facts (registration / cache refresh protocol)': {k: facts.get(k) for k in REG_FACTS}})
    exe, err = ck.build_harness('reg_mt', ['reg_mt.cpp'], flags=REG_FLAGS, san=False)
    if not exe:
        ck.violation('no-failing-input-found', 'harness reg_mt.cpp does not compile against the source tree (ThreadContextManager / BackendWorker cache refresh interface changed?): ' + err[-500:])
        return {'reg_stress': {'built': False}}
    cases, il, rounds = reg_runs(ck, exe, tier)
    bad = [(c, i, reg_monitor(c, i)) for c, i in zip(cases, il)]
    bad = [(c, i, m) for c, i, m in bad if m and i != 'NOTRUN']
    ok = [(c, i) for c, i in zip(cases, il) if re.fullmatch(r'\d+ \d+ \d+', i)]
    info = {'built': True, 'rounds': rounds, 'runs': len(cases), 'completed': len(ok), 'mismatches': len(bad),
            'configurations_K_N_pin': sorted(set(tuple(int(x) for x in c.split()[1:]) for c in cases)),
            'registrations_total': sum(int(i.split()[0]) for c, i in ok),
            'runs_by_configuration': {' '.join(c.split()[1:]): cases.count(c) for c in sorted(set(cases))},
            'rule': 'K producer threads register N fresh contexts each on the real ThreadContextManager (contexts created before the start signal), '
                    'one consumer thread loops the real BackendWorker::_update_active_thread_contexts_cache until the producers are done, then two more '
                    'refresh calls after the join; contexts removed at the end of a run; monitor: missing == 0 and cached == K*N'}
    notgood = []
    if facts.get('tcm_register_append_before_flag') != 'true':
        notgood.append('SrcFacts.tcm_register_append_before_flag = %s (ThreadContextManager::register_thread_context does not append under the lock before it raises the flag: C03_reg_flag_before_append_refuted applies)' % facts.get('tcm_register_append_before_flag'))
    if facts.get('be_cache_rebuild_after_flag_consume') != 'true':
        notgood.append('SrcFacts.be_cache_rebuild_after_flag_consume = %s (BackendWorker::_update_active_thread_contexts_cache is not "if (new_thread_context_flag()) { clear; for_each push_back }": C03_reg_rebuild_before_consume_refuted applies when the rebuild precedes the consumption)' % facts.get('be_cache_rebuild_after_flag_consume'))
    if facts.get('tcm_flag_consume_shape') not in ('1%N', '2%N', '3%N'):
        notgood.append('SrcFacts.tcm_flag_consume_shape = %s (new_thread_context_flag() is none of exchange(false) / if (load) { store(false); return true; } return false / compare_exchange_strong(true -> false))' % facts.get('tcm_flag_consume_shape'))
    for k in ('tcm_for_each_under_lock', 'spinlock_acquire_release'):
        if facts.get(k) != 'true':
            notgood.append('SrcFacts.%s = %s (the registry is not iterated under the spinlock / the spinlock is not acquire-release)' % (k, facts.get(k)))
    if notgood:
        # in place: run_be reports the list as no-failing-input-found when nothing concrete turns up
        broken.insert(0, 'T-src: ' + '; '.join(notgood) + (' [registration stress run: %d multi-thread runs, no lost context observed]' % len(ok) if not bad else ''))
    if bad:
        # the smallest failing run, then still smaller ones (a run takes well under a millisecond; the outcome is a race, so repeat)
        c0, i0, m0 = min(bad, key=lambda x: (int(x[0].split()[1]) * int(x[0].split()[2]), int(x[0].split()[1])))
        if not i0.startswith(('CRASH', 'HANG', 'NOOUTPUT')):
            k0, n0, pin = (int(x) for x in c0.split()[1:])
            for k, n in ((1, 1), (2, 1), (3, 1), (2, 2), (4, 1)):
                if k * n >= k0 * n0: break
                trial = ['reg_mt %d %d %d' % (k, n, pin)] * 400
                tl = ck.run_impl(exe, trial, timeout=60, per_case_timeout=10, max_fail=1)
                hit = [(c, i) for c, i in zip(trial, tl) if reg_monitor(c, i) and not i.startswith(('CRASH', 'HANG', 'NOOUTPUT', 'NOTRUN'))]
                if hit:
                    c0, i0 = hit[0]; m0 = reg_monitor(c0, i0); break
        kn = int(c0.split()[1]) * int(c0.split()[2])
        ck.violation('impl-failing-input', 'real threads on quill::detail::ThreadContextManager + BackendWorker::_update_active_thread_contexts_cache (harness/reg_mt.cpp): ' + m0 +
                     ((' [proof side: ' + '; '.join(broken)[:400] + ']') if broken else ''),
                     case=c0, expected='%d %d 0  (every registered context is in the backend\'s cache)' % (kn, kn),
                     observed=i0, extra={'harness': 'harness/reg_mt.cpp (g++ -fno-access-control)', 'failing_runs': len(bad), 'runs': len(cases),
                                         'note': 'the outcome depends on the thread interleaving: the replay repeats the case until it fails (up to 2000 runs)',
                                         'model_witness': 'Properties_C03.v: C03_reg_flag_before_append_refuted / C03_reg_rebuild_before_consume_refuted'})
    if tier != 'quick':
        # ThreadSanitizer build: catches a registry that is no longer protected by the lock / a flag that is no longer atomic
        texe, terr = ck.build_harness('reg_mt_tsan', ['reg_mt.cpp'], flags=REG_FLAGS + ['-fsanitize=thread'], san=False)
        if not texe:
            info['tsan'] = 'not built: ' + terr[-200:]
        else:
            tcases = ['reg_mt %d %d %d' % (k, n, pin) for _ in range(40) for (k, n, pin) in ((3, 1, 0), (2, 5, 1), (4, 50, 0))]
            rc, so, se = sh([texe], inp='\n'.join(tcases) + '\n', timeout=300, env=dict(os.environ, TSAN_OPTIONS='halt_on_error=1:exitcode=66'))
            tl = so.splitlines()
            tbad = [(c, i) for c, i in zip(tcases, tl) if reg_monitor(c, i)]
            info['tsan'] = {'runs': len(tcases), 'completed': len(tl), 'rc': rc, 'mismatches': len(tbad)}
            if rc != 0 or len(tl) != len(tcases) or tbad:
                m = re.search(r'(WARNING: ThreadSanitizer: [^\n]+)', se or '')
                c1 = tbad[0][0] if tbad else tcases[min(len(tl), len(tcases) - 1)]
                what = reg_monitor(*tbad[0]) if tbad else ('rc=%s %s' % (rc, m.group(1) if m else (se or '')[-200:]))
                if not (tbad and bad):     # the same lost registration is already reported above
                    ck.violation('impl-failing-input', 'registration stress run under ThreadSanitizer: ' + what, case=c1,
                                 expected='missing == 0, no data race', observed=(tbad[0][1] if tbad else what), extra={'harness': 'harness/reg_mt.cpp (-fno-access-control -fsanitize=thread)'})
    if any('C03_tie_queue_abstraction' in b for b in broken) and not ck.violations:
        # the queue facts M-BE's atomic-FIFO abstraction rests on no longer hold: search for a failing input where such a
        # fault shows, the two-thread runs of C02 on the real unbounded queue (pinned threads, ThreadSanitizer, ASan)
        import props.c02 as c02
        qmsg, qinfo = c02.mt_runs(ck, 'quick')
        info['queue_two_thread_search'] = qmsg or 'no failure'
        if qmsg:
            ck.violation('impl-failing-input', 'a thread\'s queue is not the FIFO M-BE assumes - two real threads over UnboundedSPSCQueue (checksummed stream, sanitizers): ' + qmsg +
                         ' [accepted statements are lost or corrupted before the backend decodes them]', case=qinfo,
                         expected='OK (every record once, in order, intact)', observed=qmsg)
    info['wall_s'] = round(time.time() - t0, 2)
    ck.log('registration stress: %d multi-thread runs, %d registrations, %d mismatches, %.1fs' % (info['runs'], info['registrations_total'], info['mismatches'], info['wall_s']))
    return {'reg_stress': info}


TRUSTED = TRUSTED_BE + [
    'registration protocol (Backend/RegProto.v): the registry is only touched inside critical sections of one acquire/release spinlock and the flag is one atomic object, so lock order + coherence make a sequentially consistent interleaving of the micro-steps faithful for every memory_order of the flag accesses (hand-argued in the file header); removal of contexts is not part of the micro-step model',
    'tools/srcfacts.py reg_facts: shape facts from the clang AST (register_thread_context = one push_back under _spinlock, then one store(true) to the atomic flag; new_thread_context_flag = exchange / load;store / compare_exchange; _update_active_thread_contexts_cache = flag consumed in the if condition, rebuild in its body; for_each_thread_context under LockGuard; Spinlock exchange(acquire)/store(release)); LockGuard = lock in the constructor / unlock in the destructor is not re-checked',
    'harness/reg_mt.cpp: multi-thread stress run of the real ThreadContextManager and the real (private, -fno-access-control) BackendWorker cache refresh (a search for failing inputs, not a proof; it can only observe the interleavings the machine produces)',
]

def _phases(ck, tier, broken):
    from teb_phase import teb_phase
    cov = reg_phase(ck, tier, broken) or {}
    cov.update(teb_phase(ck, tier, broken, 'C03_tie_transit_buffer') or {})
    return cov

run = run_be(PID, 'Properties_C03', gen, monitor, nontrivial, RULE, n_quick=400, n_thorough=20000, trusted=TRUSTED, extra_phase=_phases)
_replay_be = replay_be(PID, monitor)


def replay(path):
    d = json.load(open(path)); c = d.get('case')
    if not (isinstance(c, str) and c.startswith('reg_mt ')):
        return _replay_be(path)
    ck = Check(PID, 'quick')
    exe, err = ck.build_harness('reg_mt', ['reg_mt.cpp'], flags=REG_FLAGS, san=False)
    if not exe:
        print('harness reg_mt.cpp does not compile:', err[-500:]); return 1
    print('case    :', c); print('expected:', d.get('expected')); print('recorded:', d.get('observed'))
    done = 0
    for _ in range(20):     # the outcome is a race between threads: repeat until it shows
        il = ck.run_impl(exe, [c] * 100, per_case_timeout=30, max_fail=1)
        for i in il:
            done += 1
            m = reg_monitor(c, i)
            if m and i != 'NOTRUN':
                print('run %d   : %s' % (done, i)); print('monitor :', m); return 1
    print('%d runs: every registered context was in the backend\'s cache' % done); return 0
