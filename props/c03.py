"""C03 — every accepted statement reaches each sink of its logger once, in thread order.
Proof: Props/Properties_C03.v (conservation invariant of M-BE for every op list; sink-loop spec).
Tie: T-corr through the deterministic backend driver, plus the property monitor on the implementation."""
from be_common import Case, Track, HDR_LOG
import be_gen
from be_check import run_be, replay_be

PID = 'C03'
MANIFEST = dict(
    text='Machine-checked (Coq) conservation invariant of the backend micro-step model for every interleaving of log calls, thread exits and backend steps, every capacity, transit-buffer size and soft/hard limit: per thread, committed = processed ++ buffered ++ queued (nothing lost, duplicated or reordered by queue reads, buffer growth, limit exits or context removal), and the sink loop writes a statement exactly once to each sink of its logger that passes its own filter (C03_conservation, C03_sink_loop, C03_sink_gets_line_iff). The model is run against the real backend (ManualBackendWorker::poll_one with yield hooks, real frontend threads, virtual clock) on generated schedules and the property itself is evaluated on the implementation\'s sink calls. Not yet proved here: the bounded-liveness clause (drain within K polls) and unbounded queues. Queue kinds: bounded blocking, bounded dropping and UnboundedBlocking frontends (the default type; initial node 256/1024 bytes so that queues grow). For unbounded frontends the thread record of M-BE carries the node structure of the queue (the sequential layer of M-UQ, updated at every queue call; it decides the backend\'s per-call read limit = capacity of the consumer\'s current node) next to a byte queue too large to fill; the theorems quantify over every initial node structure (premise fresh_thr) and every capacity, and the extracted model is compared with the real backend on growing queues as well.',
    design='5 C03', technique='Coq invariant proof over a backend micro-step machine + deterministic-driver differential correspondence')


def gen(rng, facts):
    """blocking queues, no failing formatters, no throwing sinks; ends with a drain phase"""
    ns = rng.randint(1, 3)
    sinks = [(rng.choice([0, 0, 4]), []) for _ in range(ns)]
    nl = rng.randint(1, 3)
    loggers = [(rng.choice([0, 0, 4]), rng.sample(range(ns), rng.randint(1, ns))) for _ in range(nl)]
    soft = rng.choice([1, 2, 4]); hard = rng.choice([h for h in (2, 4, 8) if h >= soft])
    c = Case(dropping=rng.choice([0, 0, 0, 2]), capk=rng.choice([8, 8, 10]), tinit=rng.choice([2, 4]), soft=soft, hard=hard,
             grace=rng.choice([0, 0, 1000]), loggers=loggers, sinks=sinks, facts=facts)
    C = 1 << c.capk
    nt = rng.randint(1, 5)
    for _ in range(rng.randint(5, 50)):
        r = rng.random()
        if r < 0.08 and nt >= 2:
            # an earlier-stamped flush of one thread, then statements of another thread that exits while
            # they are still buffered: the flush is processed first (context clean-up runs there)
            a, b = rng.sample(range(nt), 2)
            c.flush(b, lg=rng.randrange(nl)); c.tick(1)
            for _ in range(rng.randint(1, 4)): c.log(a, lg=rng.randrange(nl), lvl=rng.choice([4, 6, 8]), pad=rng.choice([0, 10]))
            c.exit(a)
            for _ in range(rng.randint(1, 3)): c.poll()
            c.resume(b)
        elif r < 0.6:
            t = rng.randrange(nt)
            pad = rng.choice([0, 0, 3, C // 4, C // 2 - HDR_LOG, C - HDR_LOG, C - HDR_LOG - 45, rng.randint(0, C // 3)])
            c.log(t, lg=rng.randrange(nl), lvl=rng.choice([3, 4, 4, 6, 8]), pad=max(0, min(pad, C - HDR_LOG)))
        elif r < 0.7: c.resume(rng.randrange(nt))
        elif r < 0.75: c.exit(rng.randrange(nt))
        elif r < 0.8: c.tick(rng.choice([1, 1000, 1001]))
        else:
            inj = []
            if rng.random() < 0.3:
                t = rng.randrange(nt)
                inj.append((rng.choice([3, 4]), rng.choice([0, 1]), [('log', t, c.next_id, rng.randrange(nl), 4, HDR_LOG, 0, False)])); c.next_id += 1
            c.poll(inj)
    # drain: let blocked producers finish, move the clock past the grace period, poll until idle
    for _ in range(6):
        for t in range(nt): c.resume(t)
        c.tick(2000)
        for _ in range(12): c.poll()
    c.ctx()
    return c


def monitor(case, obs):
    tr = Track(case, obs)
    if not tr.ok: return 'no observations'
    for pos, kind, n in tr.notes:
        if kind == 7:
            return 'statement %d reached a sink with a corrupted payload (text after "<id>:" differs from what was logged)' % n
    # expected per sink: accepted statements of loggers holding that sink whose level passes the sink's filter
    sink_level = {k: l for k, (l, _) in enumerate(case.sinks)}
    seen = {}
    for pos, k, i, lvl in tr.writes:
        seen.setdefault(k, []).append(i)
    for k, ids in seen.items():
        if len(ids) != len(set(ids)):
            d = [i for i in ids if ids.count(i) > 1][0]
            return 'statement %d written more than once to sink %d' % (d, k)
    for i, d in tr.stmts.items():
        if d['outcome'] != 'accepted': continue
        for k in case.loggers[d['logger']][1]:
            want = d['level'] >= sink_level[k]
            got = i in seen.get(k, [])
            if want and not got:
                return 'accepted statement %d (thread %d, logger %d, level %d) never reached sink %d' % (i, d['thread'], d['logger'], d['level'], k)
            if got and not want:
                return 'statement %d of level %d reached sink %d whose level filter is %d' % (i, d['level'], k, sink_level[k])
    for k, ids in seen.items():
        for i in ids:
            if i not in tr.stmts or tr.stmts[i]['outcome'] != 'accepted':
                return 'sink %d received statement %d that was not accepted' % (k, i)
        # per-thread order
        last = {}
        for i in ids:
            t = tr.stmts[i]['thread']
            if t in last and last[t] > i:
                return 'sink %d: statements of thread %d out of order (%d after %d)' % (k, t, i, last[t])
            last[t] = i
    return None


def nontrivial(case, obs):
    tr = Track(case, obs)
    if not tr.ok: return False
    acc = [d for d in tr.stmts.values() if d['outcome'] == 'accepted']
    blocked = any(d['outcome'] in ('accepted',) and d['ret'] is not None and d['ret'] != d['pos'] for d in tr.stmts.values())
    return len(acc) >= 3 and len(set(d['thread'] for d in acc)) >= 2


RULE = ('schedules of log calls (1-5 threads, 1-3 loggers sharing 1-3 recording sinks, sizes up to the queue capacity so that producers block), '
        'thread exits, clock ticks and backend polls with commands injected at yield points, BoundedBlocking queues of 256/1024 bytes, transit buffer 2/4, '
        'soft 1-4, hard 2-8, grace 0/1000; each case ends with a drain phase; non-trivial = >= 3 accepted statements from >= 2 threads; distinct by case text')

run = run_be(PID, 'Properties_C03', gen, monitor, nontrivial, RULE, n_quick=400, n_thorough=20000)
replay = replay_be(PID, monitor)
