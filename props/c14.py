"""C14 — size rotation keeps every statement whole and in order within size/count bounds.
Proof: Props/Properties_C14.v over the M-ROT model (Rotate/*.v). Tie: T-corr — harness/rot.cpp drives the
real RotatingFileSink / RotatingJsonFileSink in a scratch directory; the extracted model runs the same
op list with the oracle table filled from what libc returned; plus the property monitor evaluated
directly on the implementation's directory listings."""
import json, os, sys
from vlib import Check, standard_proof_phase, correspond, ddmin
from props.rot_common import *

PID = 'C14'
MANIFEST = dict(
    text='Machine-checked invariant proof (Coq, all theorems closed under the global context) over an executable model of RotatingSink (abstract directory, created-files deque, rename chain, back-of-deque deletion, directory scan on restart, three naming schemes, libc as an oracle). For every op sequence from a constructor on a directory without files named stem.*.ext (unrelated files present): the rename chain never overwrites a file; the retained files read oldest to newest are the written sequence minus a prefix formed by the files deleted at the back of the deque, nothing missing with overwrite off (rot_order, rot_whole); every file is within the limit or holds the single statement written into an empty file, the live file being exempt once rotation has stopped (rot_limit); at most max_backup_files rotated files, disk = deque, no rename/remove after the stop (rot_count, rot_stops); names carry the age (Index: all runs; Date/DateAndTime: one run with non-decreasing timestamps and monotone strftime); unrelated files untouched. Restarts: Index scheme in mode a (scan rebuilds exactly the deque, rot_append_restart) and mode w with remove_old_files, any number of them; Date scheme: only what the scan recovers (partial); DateAndTime restarts not proved. The model carries a code-variant flag c_cntacct (true = the earlier code that handed log_statement.size() to the size check and to _file_size, finding D10; false = the repaired code that accounts the bytes the base sink writes, fixes/D10.diff); the variant that stands for the source tree is read from it on every run (T-src: tools/srcfacts.py rot_facts, TieC14.v by vm_compute, rot_code_variant). For the code variant there is no premise on the writes (rot_ops_code, rot_limit_code: every file within the limit unless a single statement alone exceeds it, RotatingJsonFileSink included, whatever log_statement.size() is); for the earlier variant the premise bytes written = log_statement.size() is needed and false for RotatingJsonFileSink (rot_json_refuted, kept as a statement about that variant). Tied to the real RotatingFileSink/RotatingJsonFileSink by differential runs in a scratch directory (0 disagreements; JSON sinks with empty/short/unrelated log_statement sizes, sizes at limit-1/limit/limit+1) plus a direct property monitor; open findings C14-datetime-restart, C14-date-restart-backwards; D10 repaired; C14-decoy-index (a name component such as 5x parsed as index 5) was repaired (fix commit 50e20c2) and the model now requires a pure digit string.',
    design='5 C14', technique='Coq invariant proof over an executable model + extracted-model/implementation differential correspondence in a scratch directory')
TRUSTED = [
    'Coq 8.16.1 kernel (coqc, vm_compute for refutation / non-vacuity examples; no native_compute)',
    'axioms: none (every theorem Closed under the global context); libc (strftime of the open instant, mktime/timegm of the adjusted broken-down time) is a Section variable of the model and a premise where a theorem needs a property of it',
    'T-src: tools/srcfacts.py rot_facts (clang 14 JSON AST skeletons of RotatingSink::write_log / before_stream_write / _size_rotation and StreamSink::write_log) decides the model flag c_cntacct; TieC14.v pins the skeletons by vm_compute; that the Gallina variant c_cntacct = false is faithful to those texts is by inspection (and sampled by the correspondence on every run)',
    'extraction: ExtrOcamlBasic only, OCaml 4.13.1 ocamlopt, extract/driver.ml; the runner looks the libc oracle up in a table carried by the case line, filled from the real libc by harness/rot.cpp',
    'correspondence harness harness/rot.cpp (statements are lines carrying their id, sizes by padding; observation = sorted directory listing after every op), g++ -fsanitize=address,undefined',
    'modelled rather than verified: RotatingSink.h is re-stated in Gallina (Rotate/RotModel.v); file names are dot-separated component lists; file-system failures (ENOSPC, failing rename/remove), readdir order with equal indices, std::sort instability beyond 16 entries, uint32 wrap of indices, stoul sign/whitespace prefixes, before_write notifiers are not modelled',
]
T0 = 1700000000 * NS            # 2023-11-14 22:13:20 UTC


def gen(rng, n):
    cases = []
    ids = [0]
    def nid():
        ids[0] += 1; return ids[0]
    while len(cases) < n:
        scheme = rng.choice([0, 0, 1, 1, 2])
        limit = rng.choice([512, 512, 600, 1024, 0])
        maxb = rng.choice([0, 1, 2, 2, 3, UNLIMITED, UNLIMITED])
        over = rng.choice([1, 1, 1, 0])
        gmt = rng.choice([1, 1, 0]); zone = rng.randrange(1, 6)
        c = default_case(scheme=scheme, limit=limit, maxb=maxb, over=over, gmt=gmt, zone=zone)
        if rng.random() < 0.15:
            c['freq'] = 3; c['interval'] = rng.choice([1, 2])
        decoys = []
        r = rng.random()
        if r < 0.55:
            pool = [(['rot', 'old', 'log'], 1), (['rot', 'txt'], 1), (['other', 'log'], 1), (['rot', 'log', 'bak'], 1),
                    (['rotx', '1', 'log'], 1), (['rot', '1', 'txt'], 1), (['rot', '5x', 'log'], 0.35), (['rot'], 1), (['rot', 'x', 'y', 'log'], 0.5)]
            for comps, p in pool:
                if rng.random() < 0.3 * p:
                    decoys.append((comps, [(nid() + 900000, rng.choice([10, 20, 33])) for _ in range(rng.randint(0, 2))]))
        if rng.random() < 0.2:
            decoys.append((['rot', 'log'], [(nid() + 900000, w) for w in rng.choice([[100], [200, 100], [511], [300, 200], [2000]])]))
        c['decoys'] = decoys
        t = T0 + rng.choice([0, 3600 * NS * rng.randint(0, 50)])
        ops = [('R', rng.choice([0, 1]), rng.choice([0, 1, 1]), t)]
        nrest = rng.choice([0, 0, 1, 1, 2, 3])
        mode = ops[0][1]
        cur = sum(w for _, w in decoys[-1][1]) if (decoys and decoys[-1][0] == ['rot', 'log'] and not mode) else 0
        lim = limit or 512
        steps = rng.choice([[0, 1, 3 * 10 ** 8, NS], [NS, 20 * 3600 * NS, 86400 * NS], [0, NS, 61 * NS, 3600 * NS], [1, 1000]])
        backwards = rng.random() < 0.08
        for seg in range(nrest + 1):
            for _ in range(rng.randint(2, 9)):
                t += rng.choice(steps)
                tt = t - rng.choice([NS, 86400 * NS, 2 * 86400 * NS]) if (backwards and rng.random() < 0.3) else t
                r = rng.random()
                if r < 0.35:
                    # hit file_size + len in {limit-1, limit, limit+1}
                    w = lim - cur + rng.choice([-1, 0, 1])
                    if w < 8 or w > lim + 1: w = rng.choice([lim // 2, lim // 3, lim - 1, lim, lim + 1])
                elif r < 0.45:
                    w = lim + rng.choice([1, 50, 700])          # single statement above the limit
                else:
                    w = rng.choice([8, 50, 100, 170, 200, 255, 256, 257, lim // 2])
                ops.append(('W', nid(), tt, w, w))
                cur = cur + w if cur + w <= lim else w
            if seg < nrest:
                mode = 1 - mode
                t += rng.choice([0, 1, NS, 5 * NS, 86400 * NS])
                ops.append(('R', mode, rng.choice([0, 1, 1]), t))
                if mode: cur = 0
        c['ops'] = ops
        cases.append(unparse(c))
    return cases


def gen_json(rng, n):
    """RotatingJsonFileSink: the JSON line (wr bytes) is what is written; log_statement (cnt bytes: the
    pattern line) is empty, short, or by chance as long as the JSON line.  Sizes aimed at file size + line in
    {limit-1, limit, limit+1}, single lines above the limit, backup counts, naming schemes, an append / w
    restart, minutely time rotation in between."""
    cases = []
    for k in range(n):
        limit = rng.choice([512, 600, 1024, 1024, 2000])
        c = default_case(json=1, limit=limit, maxb=rng.choice([0, 1, 2, 3, UNLIMITED, UNLIMITED]), over=rng.choice([1, 1, 1, 0]),
                         scheme=rng.choice([0, 0, 1, 2]))
        if rng.random() < 0.15:
            c['freq'] = 3; c['interval'] = rng.choice([1, 2])
        cstyle = rng.choice(['empty', 'empty', 'short', 'mixed'])
        t = T0 + rng.choice([0, 3600 * NS * rng.randint(0, 50)])
        mode = rng.choice([0, 1])
        ops = [('R', mode, 1, t)]
        cur = 0
        nrest = rng.choice([0, 0, 0, 1])
        i = 0
        for seg in range(nrest + 1):
            for _ in range(rng.choice([6, 9, 12, 20])):
                t += rng.choice([NS, NS, 2 * NS, 61 * NS])
                r = rng.random()
                if r < 0.4:
                    w = limit - cur + rng.choice([-1, 0, 1])
                    if w < 190 or w > limit + 1: w = rng.choice([limit // 2, limit // 3 + 100, limit - 1, limit, limit + 1])
                elif r < 0.5:
                    w = limit + rng.choice([1, 50, 700])
                else:
                    w = rng.choice([190, 200, 220, 255, 256, 257, 300, limit // 2])
                w = max(w, 190)
                cnt = 0 if cstyle == 'empty' else rng.choice([0, 10, 47, 120]) if cstyle == 'short' else rng.choice([0, 33, w, w + 5])
                ops.append(('W', 800000 + k * 100 + i, t, w, cnt)); i += 1
                cur = cur + w if cur + w <= limit else w
            if seg < nrest:
                mode = 1 - mode if c['scheme'] == 0 else 1
                t += rng.choice([NS, 5 * NS, 86400 * NS])
                ops.append(('R', mode, 1, t))
                if mode: cur = 0
        c['ops'] = ops
        cases.append(unparse(c))
    return cases


def nontrivial(case, impl_line):
    """at least two rotated files exist at some point (two rotations happened) or the oldest file was deleted"""
    if impl_line.startswith('RAW'): return False
    c = parse(case)
    for files in json.loads(impl_line):
        if sum(1 for f in files if classify(c, f[0])[0] == 'rot' and not is_decoy(c, f[0])) >= 2:
            return True
    return False


def digit_junk_decoys(c):
    return [d for d in c['decoys'] if len(d[0]) >= 3 and d[0][0] == c['stem'] and d[0][-1] == c['ext']
            and d[0][-2][:1].isdigit() and not d[0][-2].isdigit()]


def run(tier):
    ck = Check(PID, tier)
    broken = standard_proof_phase(ck, 'Properties_C14')
    read_variant(ck)
    mexe, err = ck.build_modelrun()
    if not mexe:
        ck.violation('no-failing-input-found', 'model extraction/build failed: ' + err[-400:]); return ck.finish(trusted=TRUSTED)
    iexe, err = ck.build_harness('rot', ['rot.cpp'])
    if not iexe:
        ck.violation('no-failing-input-found', 'harness rot.cpp does not compile against the repo: ' + err[-600:])
        return ck.finish(trusted=TRUSTED)
    n = 3000 if tier == "quick" else 40000
    cor = corpus(PID)
    cases = cor + gen_json(ck.rng, 300 if tier == 'quick' else 4000) + gen(ck.rng, n)
    ml, il, tabs = run_both(ck, mexe, iexe, cases)

    def both(case):
        m, i, _ = run_both(ck, mexe, iexe, [case]); return m[0], i[0]

    def shrink(case, mode):
        c = parse(case)
        head, rest = c['ops'][:1], c['ops'][1:]
        def fails(o):
            c2 = dict(c); c2['ops'] = head + o
            s = unparse(c2); m, i = both(s)
            if mode == 'monitor':
                msg = monitor_c14(s, i)
                return msg is not None and known_match(s, i, msg) is None
            return m != i
        c2 = dict(c); c2['ops'] = head + ddmin(rest, fails)
        return unparse(c2)

    ck.findings = json.load(open(os.path.join(os.path.dirname(os.path.dirname(os.path.abspath(__file__))), 'known_findings.d', PID + '.json')))
    findings = {f['id']: f for f in ck.known_for()}

    def known_match(case, impl_line, msg):
        c = parse(case)
        f = findings.get('C14-decoy-index')
        if f and digit_junk_decoys(c) and c['scheme'] == 0 and any(o[0] == 'R' and not o[1] for o in c['ops']):
            # attributable to that decoy only if the violation disappears without it
            c2 = dict(c); c2['decoys'] = [d for d in c['decoys'] if d not in digit_junk_decoys(c)]
            s = unparse(c2); _, i2 = both(s)
            if monitor_c14(s, i2) is None:
                return '%s open: %s' % (f['id'], f['what'])
        f = findings.get('C14-datetime-restart')
        if f and c['scheme'] == 2 and 'rotated before the restart have disappeared' in msg and same_second_restart(c):
            return '%s open: %s' % (f['id'], f['what'])
        f = findings.get('C14-date-restart-backwards')
        if f and c['scheme'] == 1 and 'rotated before the restart have disappeared' in msg and date_backwards_after_restart(c):
            return '%s open: %s' % (f['id'], f['what'])
        return None

    dis, mon = correspond(ck, 'M-ROT vs RotatingFileSink', cases, ml, il, monitor=monitor_c14, shrink=shrink, known_match=known_match)
    if broken and not ck.violations:
        ck.violation('no-failing-input-found', '; '.join(broken))
    nt = len(set(c for c, i in zip(cases, il) if nontrivial(c, i)))
    hist = {}
    for cs in cases:
        c = parse(cs)
        for k in ('%s' % SCHEMES[c['scheme']], 'maxb=%s' % ('inf' if c['maxb'] == UNLIMITED else c['maxb']), 'over=%d' % c['over'],
                  'restarts=%d' % (sum(1 for o in c['ops'] if o[0] == 'R') - 1), 'decoys' if c['decoys'] else 'clean-dir', 'json' if c['json'] else 'plain'):
            hist[k] = hist.get(k, 0) + 1
    return ck.finish(trusted=TRUSTED, samples=cases[:2] + cases[-2:],
                     rule='histories of construct/write_log/restart on a scratch directory (case line: see harness/rot.cpp); sizes aimed at file_size+len in {limit-1,limit,limit+1}, single statements above the limit, backup count 0/1/2/3/unlimited, timestamps colliding within a second/day, 0-3 restarts alternating w/a, decoy files; non-trivial = at least two rotated files coexist at some op; distinct by case text',
                     evaluations=len(cases), distinct_nontrivial=nt, traces=len(cases) - len(dis) - len(mon),
                     extra_cov={'disagreements': len(dis), 'monitor_failures': len(mon), 'corpus_cases': len(cor), 'generator_histogram': hist})


def date_backwards_after_restart(c):
    """an append restart followed by a record whose date is earlier than that restart's date"""
    rdate = None
    for o in c['ops'][1:]:
        if o[0] == 'R':
            if not o[1]: rdate = max(rdate or '', strf(c, o[3], 1))
        elif rdate is not None and strf(c, o[2], 1) < rdate:
            return True
    return False


def same_second_restart(c):
    """DateAndTime scheme: after a restart some instant (its start or a record timestamp, i.e. a possible
    file-open instant) falls in a second in which the previous run may have opened a file"""
    before = set(); cur = set()
    first = True
    for o in c['ops']:
        t = (o[3] if o[0] == 'R' else o[2]) // NS
        if o[0] == 'R' and not first:
            before |= cur; cur = set()
        first = False
        if t in before: return True
        cur.add(t)
    return False


def replay(path):
    d = json.load(open(path))
    ck = Check(PID, 'quick')
    ck.srcfacts(); read_variant()
    mexe, _ = ck.build_modelrun(); iexe, _ = ck.build_harness('rot', ['rot.cpp'])
    c = d.get('case')
    if not c:
        print('replay holds no concrete case; broken:', d.get('broken')); return 1
    ml, il, _ = run_both(ck, mexe, iexe, [c])
    cc = parse(c)
    print('case :', c)
    print('model variant (T-src): c_cntacct=%(cntacct)d c_plus24=%(plus24)d' % VARIANT)
    print('config: scheme=%s freq=%s limit=%d max_backup=%s overwrite=%d json=%d zone=%s' % (
        SCHEMES[cc['scheme']], FREQS[cc['freq']], cc['limit'], cc['maxb'], cc['over'], cc['json'], 'GMT' if cc['gmt'] else ZONES[cc['zone']]))
    for o in cc['ops']: print('  op', o)
    print('model:', ml[0]); print('impl :', il[0])
    msg = monitor_c14(c, il[0]); print('monitor:', msg)
    return 1 if msg or ml[0] != il[0] else 0
