"""M-TEB phase (used by C03: backend buffer growth, and C20: shrinking the backend buffer).
The extracted slot-array model of TransitEventBuffer (TEB/TEBModel.v, variant selected by the T-src facts) and the
real quill::detail::TransitEventBuffer (harness/teb.cpp) run the same histories of backend calls; an independent
monitor (a plain Python list, no capacity arithmetic taken from the model) judges the implementation's
observations. Generators aim at the case splits of the proofs: ring wrapped at the moment it grows, grow on the
exact full boundary, abandoned fills on a full buffer, shrink requested while non-empty, shrink on empty, initial
capacities that are not powers of two."""
import os
from vlib import correspond, ddmin
from be_check import srcfacts_values

B = lambda x: 1 if x in (True, 'true') else 0


def cfg_prefix(facts):
    return 'teb %d %d %d %d %d' % (int(str(facts.get('teb_grow', '0')).split('%')[0]), B(facts.get('teb_mask_upd')), B(facts.get('teb_move_from_reader')),
                                   B(facts.get('teb_shrink_needs_empty')), B(facts.get('teb_full_test_exact')))


def enc(ops):
    out = []
    for o in ops:
        out += [str(x) for x in o]
    return ' '.join(out)


def gen_ops(rng, c0):
    """one history; values are distinct (1, 2, 3...) so that loss, duplication and reordering all show"""
    ops = []; nxt = [1]
    def put(): ops.append((0, nxt[0])); nxt[0] += 1
    def touch(): ops.append((1, 1000000 + nxt[0])); nxt[0] += 1
    cap = 1
    while cap < max(c0, 1): cap *= 2
    size = 0
    shape = rng.random()
    if shape < 0.3:
        # wrap the ring by k (0 < k < cap), fill it to the brim, then push through one or two expansions
        k = rng.randint(1, max(1, cap - 1)) if cap > 1 else 1
        for _ in range(k): put(); ops.append((2,))
        for _ in range(cap): put()
        size = cap
        if rng.random() < 0.4: touch()
        for _ in range(rng.randint(1, 2 * cap + 2)): put()
        if rng.random() < 0.5: ops.append((3,))
        for _ in range(rng.randint(0, 4 * cap + 4)): ops.append((2,))
        ops.append((4,))
        for _ in range(rng.randint(0, cap + 2)): put()
        for _ in range(rng.randint(0, cap + 2)): ops.append((2,))
        ops.append((4,))
    elif shape < 0.5:
        # shrink requests at every fill level: non-empty (must not act), empty (acts), repeated
        for _ in range(rng.randint(1, 3)):
            n = rng.randint(0, 3 * cap)
            for _ in range(n): put()
            ops.append((3,)); ops.append((4,))
            for _ in range(rng.randint(0, n)): ops.append((2,))
            ops.append((4,))
            for _ in range(n): ops.append((2,))
            ops.append((4,)); ops.append((4,))
    else:
        for _ in range(rng.randint(1, 80)):
            r = rng.random()
            if r < 0.45: put()
            elif r < 0.55: touch()
            elif r < 0.85: ops.append((2,))
            elif r < 0.92: ops.append((3,))
            else: ops.append((4,))
    return ops


def monitor_line(c0, ops, impl):
    """the property on the implementation's observations: a plain list"""
    if impl.startswith(('CRASH', 'HANG', 'NOOUTPUT')): return 'implementation ' + impl
    try: v = [int(x) for x in impl.split()]
    except ValueError: return 'unreadable output ' + impl[:80]
    if len(v) != 3 * len(ops): return 'the harness stopped after %d of %d calls (a slot without a format buffer was handed out)' % (len(v) // 3, len(ops))
    q = []; req = False
    icap = 1
    while icap < max(c0, 1): icap *= 2
    pcap = icap
    for k, o in enumerate(ops):
        fr, sz, cap = v[3 * k:3 * k + 3]
        if o[0] == 0: q.append(o[1])
        elif o[0] == 2 and q: q.pop(0)
        elif o[0] == 3: req = True
        want = q[0] + 1 if q else 0
        where = 'call %d (%s)' % (k + 1, ['commit', 'abandoned fill', 'pop', 'request_shrink', 'try_shrink'][o[0]])
        if fr == 888888888: return where + ': the front event\'s timestamp and message buffer disagree (an event was torn while moved)'
        if fr != want: return where + ': front() shows event %d, the oldest queued event is %d (0 = none)' % (fr - 1, want - 1)
        if sz != len(q): return where + ': size() = %d, %d events are queued' % (sz, len(q))
        if cap < len(q) or cap & (cap - 1): return where + ': capacity() = %d with %d events queued' % (cap, len(q))
        if cap < icap: return where + ': capacity() = %d is below the initial capacity %d' % (cap, icap)
        if o[0] == 4:
            if req and not q:
                if cap != icap: return where + ': shrink requested and the buffer is empty, capacity() stays %d (initial %d)' % (cap, icap)
                req = False
            elif cap != pcap: return where + ': try_shrink changed the capacity %d -> %d (requested: %s, queued: %d)' % (pcap, cap, req, len(q))
        elif o[0] in (2, 3) and cap != pcap: return where + ': the capacity changed %d -> %d' % (pcap, cap)
        pcap = cap
    return None


CORPUS = [
    (2, [(0, 1), (2,), (0, 2), (0, 3), (0, 4), (3,), (2,), (2,), (2,), (4,)]),          # wraps, grows while wrapped, shrinks
    (2, [(0, 1), (0, 2), (0, 3), (2,), (2,)]),                                          # stale mask after _expand
    (1, [(0, 1), (0, 2), (3,), (4,)]),                                                  # shrink on a non-empty buffer
    (3, [(0, 1), (0, 2), (0, 3), (0, 4), (1, 9), (0, 5)]),                              # abandoned fill on a full buffer
    (0, [(0, 1), (0, 2)]),                                                              # requested capacity 0
]


def teb_phase(ck, tier, broken, pid_tie_name):
    facts = srcfacts_values()
    pre = cfg_prefix(facts)
    mexe, err = ck.build_modelrun()
    if not mexe:
        ck.violation('no-failing-input-found', 'model extraction/build failed: ' + err[-400:]); return {}
    iexe, err = ck.build_harness('teb', ['teb.cpp'], san=True)
    if not iexe:
        ck.violation('no-failing-input-found', 'harness teb.cpp does not compile against /repo: ' + err[-600:]); return {}
    n = 600 if tier == 'quick' else 20000
    hist = [(c0, ops) for c0, ops in CORPUS]
    for _ in range(n):
        c0 = ck.rng.choice([0, 1, 2, 2, 3, 4, 4, 5, 8, 8, 16, 17, 64])
        hist.append((c0, gen_ops(ck.rng, c0)))
    lines = ['%s %d %s' % (pre, c0, enc(ops)) for c0, ops in hist]
    byline = dict(zip(lines, hist))
    ml = ck.run_model(mexe, lines)
    il = ck.run_impl(iexe, lines, timeout=300, per_case_timeout=10, max_fail=8)
    # the abstract buffer of M-BE (a list with a doubling capacity) on the same histories: third column of the tie
    fl = ck.run_model(mexe, ['tebfifo' + l[3:] for l in lines])
    keep = [k for k, i in enumerate(il) if i != 'NOTRUN']
    lines = [lines[k] for k in keep]; ml = [ml[k] for k in keep]; il = [il[k] for k in keep]; fl = [fl[k] for k in keep]

    def mon(line, impl):
        c0, ops = byline[line]
        return monitor_line(c0, ops, impl)

    def shrink(line, mode):
        c0, ops = byline[line]
        def run1(o):
            l = '%s %d %s' % (pre, c0, enc(o))
            return l, ck.run_impl(iexe, [l], per_case_timeout=5)[0]
        def fails(o):
            l, i = run1(o)
            if mode == 'monitor': return monitor_line(c0, o, i) is not None
            return ck.run_model(mexe, [l])[0] != i
        small = ddmin(list(ops), fails, max_tests=200)
        l = '%s %d %s' % (pre, c0, enc(small)); byline[l] = (c0, small)
        return l

    dis, mons = correspond(ck, 'M-TEB vs TransitEventBuffer', lines, ml, il, monitor=mon, shrink=shrink)
    fifo_dis = sum(1 for f, i in zip(fl, il) if f != i)
    if fifo_dis and not ck.violations:
        k = next(k for k, (f, i) in enumerate(zip(fl, il)) if f != i)
        ck.violation('no-failing-input-found', 'correspondence list-with-a-doubling-capacity (M-BE\'s view of the buffer) vs TransitEventBuffer: observations differ',
                     case=lines[k], expected=fl[k], observed=il[k])
    nops = sum(len(o) for _, o in hist)
    grows = sum(1 for i in il if len(set(i.split()[2::3])) > 1)
    shr = sum(1 for (c0, ops), i in zip([byline[l] for l in lines], il) if any(o[0] == 4 for o in ops))
    ck.log('TEB phase: %d histories, %d calls, %d with a capacity change, %d with try_shrink; model/impl differ on %d, list/impl on %d, monitor fails on %d'
           % (len(lines), nops, grows, shr, len(dis), fifo_dis, len(mons)))
    return {'teb_phase': {'histories': len(lines), 'calls': nops, 'histories_with_capacity_change': grows, 'histories_with_try_shrink': shr,
                          'model_impl_disagreements': len(dis), 'list_impl_disagreements': fifo_dis, 'monitor_failures': len(mons),
                          'variant_from_source': pre, 'sample': lines[0]}}
