"""C11 — a steady-state log call neither allocates nor formats on the calling thread  (PARTIAL).
Proof: Props/Properties_C11.v over M-ALLOC (Alloc/AllocModel.v): the frontend log path of one thread as a
step function with an `allocs` and a `fmts` output, built from M-IV, the size pass of M-CODEC and
prepare_write of M-BQ; theorems for every reachable thread state, every argument list, every nesting.
Tie: T-src (inline capacity / growth factor / code shapes, TieC11.v) and T-corr: the extracted model
against harness/alloc.cpp, which counts allocations per thread (replaced operator new/delete, malloc
family and mmap defined in the executable) around each log call and records the thread every user
formatter runs on, over the statement signatures of harness/codec_sigs.h x the macro families x a
bounded and an unbounded frontend.  The monitor evaluates the property itself on those observations;
it is the only part that can see an allocation hidden inside unmodelled code (hence PARTIAL).
The model has a code-variant flag (map_copies: 0 = the repaired map codecs that encode the members of an element
in place, 1 = the pinned ones of finding C11-F1 that convert every element to a temporary std::pair); it is the
first token of every case line and is always written from the T-src fact c11_map_elems_in_place (src_variant)."""
import json, os, re, sys, threading, time
from vlib import Check, standard_proof_phase, correspond, ddmin, VERIF, tree_hash
import c04 as K           # the statement signatures, the type DSL and the value generator are C04's (read only)

PID = 'C11'
MANIFEST = dict(
    category='proof',
    text='PARTIAL. Proved (Coq, every theorem closed under the global context) about an executable model of one thread\'s log path (thread-context creation on the first call / preallocate(), the size pass with the real cache-clearing rule on the InlinedVector size cache, reservation on the bounded queue / growth and shrink of the unbounded queue, header + encode pass): for every frontend configuration, every state a thread can reach by any sequence of preallocate / log / shrink / backend-drain operations, every argument list over the nested type universe of C04 and with or without a dynamic level: registered thread + at most 12 cached lengths (more generally: at most the current capacity of the size cache) + encoded size granted by the current queue buffer + no not-trivially-copyable deferred type and no filesystem path at any depth => the call performs none of the modelled allocations and is enqueued (C11_steady_no_alloc, C11_steady_no_alloc_capacity; maps of strings, containers and nested maps included). The model carries a code-variant flag map_copies: false = the repaired map codecs (Codec<Key> / Codec<T> on elem.first / elem.second in place), true = the pinned earlier ones, which handed every element to Codec<std::pair<Key, T>> and so copied key and value into a temporary pair in both passes (finding C11-F1, fixed); the variant that stands for the source tree is fixed by T-src (tools/srcfacts.py c11f_facts: the four bodies compute_encoded_size / encode of std/Map.h and std/UnorderedMap.h, TieC11.v by vm_compute, C11_tie_map_codecs), and the two main theorems are stated for that variant. The pinned behaviour is kept as statements about the flag-on variant: there the theorem needs the extra hypothesis that every map has arithmetic or copy-free key and mapped type (C11_steady_no_alloc_pinned_partial) and a std::map<uint32_t, std::string> allocates twice per call (C11_steady_no_alloc_refuted_map); the variant never changes the state a step leaves (C11_variant_same_states). Also proved (both variants): the first call / preallocate() does allocate; a 13th cached length allocates, also when all thirteen come from one std::vector<char const*> argument; clear() keeps the grown buffer; an unbounded queue allocates a node when the record misses the current node, a bounded queue never; the excluded kinds are visible allocation sources; in a frontend step only DirectFormatCodec arguments are formatted, every other kind on the backend (C11_format_on_backend). The inline capacity 12, the growth factor 2, the shapes of push_back / clear / the cache-clearing rule / log_statement and "only DirectFormatCodec calls libfmt, only Codec<fs::path> builds a temporary in compute_encoded_size / encode" are read from the source on every run (T-src). NOT proved - exploration only: that the real code has no allocation source besides the modelled ones (a temporary inside a codec, libfmt, a macro, the standard library) and that no formatter runs on the caller. This is SAMPLED by counting operator new / malloc family / mmap per thread around each real log call and recording the thread of every user formatter, over ~100 statement signatures x 9 macro families x a bounded and an unbounded frontend with generated values (0-14 C strings, maps with std::string / container / nested-map keys and mapped values beyond the small-string capacity, records that exactly fit / miss by one the remaining buffer, first vs second call, after drain, after shrink), compared with the model\'s prediction and checked by a monitor of the property itself, which demands zero caller allocations for those maps too; that sampling had found C11-F1.',
    design='5 C11',
    technique='Coq proof over an executable allocation model of the frontend path (invariant over all reachable thread states, structural induction on nested types) + T-src facts from clang AST + differential runs against an allocation-counting, formatter-thread-recording harness and a direct property monitor (exploration for unmodelled code)')
TRUSTED = [
    'Coq 8.16.1 kernel (coqc, vm_compute for the computed instances; no native_compute)',
    'axioms: none (every theorem Closed under the global context)',
    'the theorems are about the four MODELLED allocation sources only (alloc_source in Alloc/AllocModel.v); allocations inside code the model does not describe (libfmt, libstdc++, the codecs\' bodies beyond what CodecDefs.size describes, macros) are covered only on the sampled instantiations - this is why the property is claimed partial',
    'T-src: tools/srcfacts.py c11f_facts (comment-stripped, white-space-normalised text of compute_encoded_size / encode of std/Map.h and std/UnorderedMap.h: `for (auto const& elem : arg)`, Codec<Key> on elem.first then Codec<T> on elem.second, no pair mentioned) decides the model flag map_copies; TieC11.v pins the four bodies by vm_compute',
    'T-src: tools/srcfacts.py block C11 over clang 14 JSON AST (InlinedVector capacity / growth / push_back / clear, ThreadContext holds the cache by value, the cache-clearing rule, log_statement skeleton) and a brace-matched text scan of compute_encoded_size / encode bodies for libfmt calls and temporaries (syntactic)',
    'extraction: ExtrOcamlBasic only, OCaml 4.13.1 ocamlopt, extract/driver.ml',
    'harness/alloc.cpp (g++ -O1 -DNDEBUG, no sanitizers): replaced global operator new/delete (all overloads), malloc/calloc/realloc/memalign/aligned_alloc/posix_memalign/valloc/pvalloc forwarding to __libc_*, mmap/mmap64 forwarding with dlsym(RTLD_NEXT); thread_local counters active only inside the window of the call on the calling thread; allocations made by glibc internally without going through these symbols (none expected on this path) are invisible; brk/sbrk growth inside malloc is attributed to the malloc call that caused it',
    'facts about code outside quill used by the prediction: inline capacity of libstdc++ std::string (15, checked by the harness at start of every case) decides whether a fs::path temporary is on the heap; the copy constructor of the test type DStr allocates (32-byte string member), those of Al16 / Al8 do not',
    'ManualBackendWorker driven by the main thread, one fresh logging thread per case; observations: allocation happened (heap / mmap), enqueued / dropped / threw, producer-side queue capacity, size-cache capacity, direct / deferred formatter invocations on the calling thread',
    'not covered: Windows paths and wide strings, huge pages, blocking queue types (the harness uses the dropping variants so that a full queue returns instead of waiting for a backend that is driven by hand), immediate flush, std::tuple<StringRef,...> (open finding C04-F3 crashes the backend)',
]

NPARTS = K.NPARTS
MAPCP = 0                       # the model's code-variant flag map_copies, set from the T-src facts by src_variant()
SSO = 15
COPYW = 40                      # sizeof(DStr): the deferred user type whose copy constructor allocates
CFG = {0: dict(unb=0, drop=1, init=8192, max=0), 1: dict(unb=1, drop=1, init=2048, max=65536)}
FAMS = ['LOG_INFO', 'LOGV_INFO', 'LOGJ_INFO', 'LOG_DYNAMIC', 'LOG_INFO_LIMIT', 'LOG_INFO_LIMIT_EVERY_N', 'LOG_BACKTRACE', 'LOG_INFO_TAGS', 'log_statement']
EXCLUDED_SIGS = {86}            # std::tuple<StringRef,int>: C04-F3, the backend reads outside the record
SIG_INDEX = {i: k for k, (i, d, ts) in enumerate(K.SIGS)}


# ---------------------------------------------------------------------------------------- types / values
def is_path(t): return t.enc == [3, 2]
def is_aligned(t): return t.kind == 'aligned'
def is_direct(t): return t.kind == 'direct'
def listed(ts): return not any(t.has(lambda x: is_path(x) or is_aligned(x) or is_direct(x)) for t in ts)
def has_direct(ts): return any(t.has(is_direct) for t in ts)


def is_arith_elem(t):
    """is_arithmetic || is_enum: containers of these are not iterated"""
    return t.kind == 'arith' and t.enc[1] in (0, 1)


def walk(t, toks, i):
    """consume one value of type t from toks[i:]; returns (i', number of variable-length items the size
    pass remembers: C strings, char arrays, direct-format texts, forward_list element counts)"""
    k = t.kind
    if k == 'arith': return i + t.w, 0
    if k == 'cstr':
        if toks[i] == 0: return i + 1, 1
        return i + 2 + toks[i + 1], 1
    if k == 'chararr': return i + t.n, 1
    if k == 'str': return i + 1 + toks[i], 0
    if k == 'direct': return i + 1 + toks[i], 1
    if k == 'sref': return i + 2 + toks[i + 1], 0
    if k == 'aligned': return i + t.w, 0
    if k in ('seq', 'fwd'):
        n = toks[i]; i += 1; c = 1 if k == 'fwd' else 0
        skip = k == 'seq' and is_arith_elem(t.subs[0])
        for _ in range(n):
            i, c1 = walk(t.subs[0], toks, i); c += 0 if skip else c1
        return i, c
    if k == 'arr':
        c = 0
        for _ in range(t.n):
            i, c1 = walk(t.subs[0], toks, i); c += c1
        return i, c
    if k == 'opt':
        if toks[i] == 0: return i + 1, 0
        return walk(t.subs[0], toks, i + 1)
    if k in ('pair', 'tuple'):
        c = 0
        for x in t.subs:
            i, c1 = walk(x, toks, i); c += c1
        return i, c
    if k == 'map':
        n = toks[i]; i += 1; c = 0
        for _ in range(n):
            for x in t.subs:
                i, c1 = walk(x, toks, i); c += c1
        return i, c
    raise ValueError(k)


def copy_news(t, toks, i):
    """(i', number of operator new calls libstdc++ makes to copy-construct this value, None = not predicted)"""
    k = t.kind
    if k in ('arith', 'cstr', 'chararr', 'sref'): return walk(t, toks, i)[0], 0
    if k == 'str':
        if t.enc == [3, 1]: return i + 1 + toks[i], 0                    # string_view
        if t.enc == [3, 0]: return i + 1 + toks[i], (1 if toks[i] > SSO else 0)
        return walk(t, toks, i)[0], None
    if k == 'seq' and t.n in (0, 2, 3):                                  # vector: one buffer; list / set: a node per element
        n = toks[i]; i += 1; c = (1 if n else 0) if t.n == 0 else n
        for _ in range(n):
            i, c1 = copy_news(t.subs[0], toks, i); c = None if (c is None or c1 is None) else c + c1
        return i, c
    if k == 'map' and t.n == 0:
        n = toks[i]; i += 1; c = n
        for _ in range(n):
            for x in t.subs:
                i, c1 = copy_news(x, toks, i); c = None if (c is None or c1 is None) else c + c1
        return i, c
    if k == 'opt':
        if toks[i] == 0: return i + 1, 0
        return copy_news(t.subs[0], toks, i + 1)
    if k in ('pair', 'tuple', 'arr'):
        c = 0
        for x in (t.subs if k != 'arr' else [t.subs[0]] * t.n):
            i, c1 = copy_news(x, toks, i); c = None if (c is None or c1 is None) else c + c1
        return i, c
    return walk(t, toks, i)[0], None


def temp_pair_news(t, toks, i):
    """(i', operator new calls of ONE pass of Codec<t> over the value that come from converting map elements
    to temporary std::pair<Key, T> objects (finding C11-F1); None = not predicted)"""
    k = t.kind
    add = lambda a, b: None if (a is None or b is None) else a + b
    if k == 'map':
        n = toks[i]; i += 1; c = 0
        plain = all(is_arith_elem(x) for x in t.subs)
        for _ in range(n):
            for x in t.subs:
                j, c1 = copy_news(x, toks, i); j2, c2 = temp_pair_news(x, toks, i); i = j
                if not plain: c = add(c, add(c1, c2))
        return i, c
    if k in ('seq', 'fwd'):
        n = toks[i]; i += 1; c = 0
        skip = k == 'seq' and is_arith_elem(t.subs[0])
        for _ in range(n):
            i, c1 = temp_pair_news(t.subs[0], toks, i)
            if not skip: c = add(c, c1)
        return i, c
    if k == 'opt':
        if toks[i] == 0: return i + 1, 0
        return temp_pair_news(t.subs[0], toks, i + 1)
    if k in ('pair', 'tuple', 'arr'):
        c = 0
        for x in (t.subs if k != 'arr' else [t.subs[0]] * t.n):
            i, c1 = temp_pair_news(x, toks, i); c = add(c, c1)
        return i, c
    return walk(t, toks, i)[0], 0


def parse_case(case):
    """case text -> dict(fe, sig, cid, ts, head (tokens up to and including nops), ops)
    op = (kind, toks) with toks the op's own tokens; log ops carry 'nvar'"""
    a = list(map(int, case.split()[1:]))
    mapcp = a[0]; a = a[1:]            # the model's code-variant flag leads the line; head keeps it out
    unb = a[0]; sig = a[6] & 0xffff; cid = a[6] >> 16; tylen = a[7]
    pos = 9 + tylen
    nops = a[pos]; head = a[:pos]; i = pos + 1
    d, ts = K.SIG[sig]
    ops = []
    for _ in range(nops):
        k = a[i]
        if k == 1:
            j = i + 2; nv = 0; tp = 0
            for t in ts:
                _, c2 = temp_pair_news(t, a, j); tp = None if (tp is None or c2 is None) else tp + c2
                j, c = walk(t, a, j); nv += c
            ops.append(dict(kind=1, fam=a[i + 1], toks=a[i:j], nvar=nv, pair_news=tp)); i = j
        elif k in (2, 3):
            ops.append(dict(kind=k, x=a[i + 1], toks=a[i:i + 2])); i += 2
        else:
            ops.append(dict(kind=k, toks=a[i:i + 1])); i += 1
    return dict(fe=1 if unb else 0, sig=sig, cid=cid, ts=ts, head=head, ops=ops, mapcp=mapcp)


def unparse(head, ops):
    """the case text; <mapcp> is always written from the current T-src facts (MAPCP)"""
    return 'alloc ' + ' '.join(map(str, [MAPCP] + head + [len(ops)] + sum((o['toks'] for o in ops), [])))


def with_variant(case):
    """a stored case (corpus file, replay) with its <mapcp> token replaced by the variant of the current tree"""
    w = case.split()
    return ' '.join([w[0], str(MAPCP)] + w[2:])


def make_head(fe, cid, sig):
    c = CFG[fe]; d, ts = K.SIG[sig]
    tyenc = sum((t.enc for t in ts), [])
    return [c['unb'], c['drop'], c['init'], c['max'], SSO, COPYW, (cid << 16) | sig, len(tyenc), len(ts)] + tyenc


def log_op(sig, fam, vals): return dict(kind=1, fam=fam, toks=[1, fam] + vals)
def fill_op(n): return dict(kind=2, x=n, toks=[2, n])
def shrink_op(c): return dict(kind=3, x=c, toks=[3, c])
PRE = dict(kind=0, toks=[0]); DRAIN = dict(kind=4, toks=[4])


def cstr_val(n, rng): return [1, n] + [rng.randint(97, 122) for _ in range(n)]


# ---------------------------------------------------------------------------------------- generators
class Gen:
    def __init__(s, rng, mexe, ck):
        s.rng = rng; s.cases = []; s.cov = {}; s.mexe = mexe; s.ck = ck
        s.cid = 1000                    # case ids below 1000 are for corpus files

    def hit(s, k): s.cov[k] = s.cov.get(k, 0) + 1

    def vals(s, sig, maxn=4, nulls=True):
        d, ts = K.SIG[sig]
        g = K.G(s.rng, nulls=nulls, maxn=maxn)
        return sum((g.val(t) for t in ts), [])

    def add(s, fe, sig, ops, tag):
        s.cid += 1
        s.cases.append(unparse(make_head(fe, s.cid, sig), ops)); s.hit(tag); s.hit('sig%d' % sig); s.hit('fe%d' % fe)
        for o in ops:
            if o['kind'] == 1: s.hit('fam:' + FAMS[o['fam']])

    def totals(s, items):
        """encoded size of statements [(sig, fam, vals)], asked from the extracted M-CODEC size pass"""
        lines = []
        for sig, fam, vals in items:
            d, ts = K.SIG[sig]
            tyenc = sum((t.enc for t in ts), [])
            lines.append('codec 1 0 0 0 %d 0 0 %d %d %s' % (sig, len(tyenc), len(ts), ' '.join(map(str, tyenc + vals))))
        out = s.ck.run_model(s.mexe, lines) if lines else []
        return [32 + int(l.split()[0]) + (1 if fam == 3 else 0) + (8 if fam == 4 else 0) for l, (sig, fam, vals) in zip(out, items)]

    # -- every signature through every macro family, first vs second call
    def sweep(s, reps):
        for sig in SIG_INDEX:
            if sig in EXCLUDED_SIGS: continue
            for fam in range(len(FAMS)):
                for _ in range(reps):
                    fe = s.rng.randint(0, 1)
                    shape = s.rng.choice(['first-second', 'pre-log', 'log-drain-log'])
                    if shape == 'first-second': ops = [log_op(sig, fam, s.vals(sig)), log_op(sig, fam, s.vals(sig))]
                    elif shape == 'pre-log': ops = [PRE, log_op(sig, fam, s.vals(sig)), log_op(sig, s.rng.randrange(len(FAMS)), s.vals(sig))]
                    else: ops = [log_op(sig, fam, s.vals(sig)), DRAIN, log_op(sig, fam, s.vals(sig)), DRAIN]
                    s.add(fe, sig, ops, 'sweep:' + shape)

    # -- 0..14 C strings per statement (12 = inline capacity of the size cache), as arguments and as elements
    def cstrings(s, reps):
        by_args = {0: 90, 1: 11, 2: 93, 11: 94, 12: 95, 13: 96, 14: 97}
        for _ in range(reps):
            for k, sig in by_args.items():
                for fam in (0, s.rng.randrange(len(FAMS))):
                    fe = s.rng.randint(0, 1)
                    mk = lambda: sum((cstr_val(s.rng.choice([0, 1, 15, 16, 40]), s.rng) for _ in range(k)), [])
                    # twice: the second statement of 13/14 strings finds the grown cache; then one more string statement
                    ops = [PRE, log_op(sig, fam, mk()), log_op(sig, fam, mk())]
                    s.add(fe, sig, ops, 'cstr-args-%d' % k)
            for n in range(0, 15):
                for sig in (32, 65, 66, 43):          # vector / list / deque / forward_list of char const*
                    fe = s.rng.randint(0, 1)
                    mk = lambda m: [m] + sum((cstr_val(s.rng.choice([0, 3, 16, 30]), s.rng) for _ in range(m)), [])
                    ops = [PRE, log_op(sig, s.rng.choice([0, 1, 2, 8]), mk(n)), log_op(sig, 0, mk(n)), log_op(sig, 0, mk(min(n, 2)))]
                    s.add(fe, sig, ops, 'cstr-elems-%d' % n)
        # thirteen, then twelve, then thirteen again (the cache keeps its grown buffer), mixed signatures not possible in one case:
        for fe in (0, 1):
            v = lambda m: [m] + sum((cstr_val(5, s.rng) for _ in range(m)), [])
            s.add(fe, 32, [PRE, log_op(32, 0, v(13)), log_op(32, 0, v(1)), log_op(32, 0, v(13)), log_op(32, 0, v(24)), log_op(32, 0, v(25)), log_op(32, 0, v(25))], 'cstr-grow-keep')

    # -- records that exactly fit / miss by one the remaining space; first vs second call; after drain; after shrink
    def fit(s, reps):
        plans = []
        sigs = [i for i in SIG_INDEX if i not in EXCLUDED_SIGS]
        for _ in range(reps):
            sig = s.rng.choice(sigs); fam = s.rng.choice([0, 0, 3, 4, 8, s.rng.randrange(len(FAMS))])
            v1 = s.vals(sig); v2 = s.vals(sig)
            plans.append((sig, fam, v1, v2))
        tot = s.totals([(sig, fam, v1) for sig, fam, v1, v2 in plans] + [(sig, fam, v2) for sig, fam, v1, v2 in plans])
        n = len(plans)
        for idx, (sig, fam, v1, v2) in enumerate(plans):
            t1, t2 = tot[idx], tot[n + idx]
            for fe in (0, 1):
                cap = CFG[fe]['init']
                for d in (-1, 0, 1):
                    # (a) after preallocate(): one filler, then the statement with d bytes to spare
                    L = cap - 36 - t1 - d
                    if L >= 0: s.add(fe, sig, [PRE, fill_op(L), log_op(sig, fam, v1), log_op(sig, fam, v2)], 'fit-first:%+d' % d)
                    # (b) second call of the same statement shape
                    L = cap - t1 - 36 - t2 - d
                    if L >= 0: s.add(fe, sig, [log_op(sig, fam, v1), fill_op(L), log_op(sig, fam, v2)], 'fit-second:%+d' % d)
                    # (c) full, drained by the backend, then filled again
                    L = cap - 36 - t2 - d
                    if L >= 0: s.add(fe, sig, [PRE, fill_op(cap - 36), DRAIN, fill_op(L), log_op(sig, fam, v2), DRAIN], 'fit-after-drain:%+d' % d)
                # (c') a little traffic, drained by the backend, then one record in the top of the (empty) buffer:
                #      everything consumed must have been handed back to the producer
                for a in (0, 1, s.rng.randint(2, 300)):
                    for d in (0, 1, s.rng.randint(2, max(2, cap // 16))):
                        s.add(fe, sig, [PRE, fill_op(a), DRAIN, fill_op(cap - 36 - d), DRAIN, log_op(sig, fam, v1)], 'top-after-small-drain:%d' % d)
                if t1 + 36 < cap // 2:
                    s.add(fe, sig, [log_op(sig, fam, v1), DRAIN, fill_op(cap - 36 - s.rng.randint(0, 40)), DRAIN, log_op(sig, fam, v2)], 'top-after-statement-drain')
                if fe == 1:
                    for d in (-1, 0, 1):
                        # (d) grown to 4096 by a 3000-byte record, drained, shrunk to 1024, filled, statement
                        L = 1024 - 36 - t1 - d
                        if L >= 0: s.add(fe, sig, [PRE, fill_op(3000), DRAIN, shrink_op(1024), fill_op(L), log_op(sig, fam, v1), DRAIN, log_op(sig, fam, v2)], 'fit-after-shrink:%+d' % d)
                    s.add(fe, sig, [log_op(sig, fam, v1), shrink_op(s.rng.choice([1024, 2048, 4096])), log_op(sig, fam, v2), fill_op(5000), log_op(sig, fam, v1), shrink_op(2048), log_op(sig, fam, v2)], 'shrink-noop-and-real')

    # -- maps whose key / mapped type is a std::string or a container (finding C11-F1, fixed: they must allocate
    #    nothing in a steady-state call), long and short strings
    def maps(s, reps):
        for _ in range(reps):
            for sig in (58, 59, 60, 72, 78, 101, 57, 61, 63):
                fe = s.rng.randint(0, 1)
                ops = [PRE] + [log_op(sig, s.rng.randrange(len(FAMS)), s.map_vals(sig)) for _ in range(3)]
                s.add(fe, sig, ops, 'maps')

    def map_vals(s, sig):
        d, ts = K.SIG[sig]
        g = K.G(s.rng, maxn=3)
        long_str = lambda: (lambda n: [n] + [s.rng.randint(97, 122) for _ in range(n)])(s.rng.choice([0, 5, 15, 16, 17, 40]))
        orig = g.val
        def val(t):
            if t is K.STR and not getattr(g, '_in_sorted', False): return long_str()
            return orig(t)
        g.val = val
        so = g.sorted_items
        def sorted_items(e, n, unique=True):
            if e.key == 'bytes':
                items = sorted({bytes(long_str()[1:]) for _ in range(n)})
                return [[len(b)] + list(b) for b in items]
            return so(e, n, unique)
        g.sorted_items = sorted_items
        return sum((g.val(t) for t in ts), [])

    # -- random scenarios
    def scenarios(s, n):
        sigs = [i for i in SIG_INDEX if i not in EXCLUDED_SIGS]
        for _ in range(n):
            sig = s.rng.choice(sigs); fe = s.rng.randint(0, 1); ops = []
            for _ in range(s.rng.randint(2, 8)):
                r = s.rng.random()
                if r < 0.55: ops.append(log_op(sig, s.rng.randrange(len(FAMS)), s.vals(sig, maxn=s.rng.choice([2, 4, 14]))))
                elif r < 0.7: ops.append(fill_op(s.rng.choice([0, 1, 100, 900, 1976, 2012, 3000, 4060, 8156, 9000, s.rng.randint(0, 12000)])))
                elif r < 0.8: ops.append(PRE)
                elif r < 0.9: ops.append(DRAIN)
                else: ops.append(shrink_op(s.rng.choice([1024, 1024, 2048, 4096, 1500, 16384])))
            s.add(fe, sig, ops, 'scenario')

    # -- edge: records larger than the queue may ever hold
    def edge(s):
        for sig in (16, 15, 11):
            s.add(1, sig, [PRE, fill_op(70000), log_op(sig, 0, s.vals(sig)), fill_op(60000), log_op(sig, 0, s.vals(sig)), DRAIN, fill_op(65500)], 'oversize-unbounded')
            s.add(0, sig, [PRE, fill_op(9000), log_op(sig, 0, s.vals(sig)), fill_op(8156), log_op(sig, 0, s.vals(sig))], 'oversize-bounded')
        s.add(1, 90, [shrink_op(1024), log_op(90, 0, [])], 'shrink-before-first-call')
        s.add(0, 90, [shrink_op(1024), log_op(90, 0, [])], 'shrink-before-first-call')
        s.add(1, 90, [DRAIN, PRE, PRE, log_op(90, 3, [])], 'preallocate-twice')


# ---------------------------------------------------------------------------------------- observations
NOBS = 7


def parse_obs(line):
    """-> list of per-op dicts, or None (crash / malformed)"""
    try:
        a = list(map(int, line.split()))
    except ValueError:
        return None
    if not a or len(a) % NOBS or a[0] >= 2 ** 63: return None
    return [dict(heap=a[i], mmap=a[i + 1], res=a[i + 2], cap=a[i + 3], ivcap=a[i + 4], dirfmt=a[i + 5], defcaller=a[i + 6])
            for i in range(0, len(a), NOBS)]


ENTRY = ['operator new', 'malloc', 'calloc', 'realloc', 'memalign/posix_memalign/aligned_alloc', 'mmap']


def entries(side, cid, k):
    s = side.get(cid)
    if not s or k >= len(s['ops']): return ''
    c = s['ops'][k]
    return ', '.join('%s x%d' % (ENTRY[e], c[e]) for e in range(6) if c[e])


def parse_side(line):
    a = list(map(int, line.split()))
    n = a[1]
    ops = [a[2 + 6 * k: 8 + 6 * k] for k in range(n)]
    t = a[2 + 6 * n:]
    return dict(cid=a[0], ops=ops, defer_backend=t[0], direct_backend=t[1], enum_backend=t[2], nerr=t[3], nmsgs=t[4])


def make_monitor(side):
    """the property itself on the implementation's observations, independent of the Coq model:
       (A) steady state (the thread context existed before the call) + the statement was enqueued without the
           queue changing its buffer (= its encoded size fitted the current buffer) + listed argument kinds +
           at most 12 variable-length items  =>  no heap allocation and no mmap on the calling thread;
       (B) a deferred-format user formatter (and format_as of an enum) never runs on the calling thread;
       (C) without a direct-format type in the statement no user formatter runs on the calling thread at all;
       (D) the size cache never gives back capacity (iv_clear_keeps_capacity, re-exported for C11) and a statement
           whose variable-length items fit the capacity the cache already has does not allocate;
       (E) directly after a backend drain a filler record whose encoded size (payload + 36) is at most the current
           buffer's capacity stays in that buffer and allocates nothing (all consumed bytes were handed back)."""
    def monitor(case, impl_line):
        if impl_line.startswith('CRASH') or impl_line.startswith('HANG') or impl_line == 'NOOUTPUT':
            return 'implementation did not survive the case: ' + impl_line
        obs = parse_obs(impl_line)
        c = parse_case(case)
        if obs is None or len(obs) != len(c['ops']):
            return 'harness could not run the case: ' + impl_line[:60]
        ts = c['ts']
        prev = dict(cap=0, ivcap=0)
        for k, (o, ob) in enumerate(zip(c['ops'], obs)):
            steady = prev['ivcap'] != 0
            what = 'op %d (%s)' % (k, FAMS[o['fam']] if o['kind'] == 1 else {0: 'preallocate', 2: 'filler LOG_INFO(string_view)', 3: 'shrink', 4: 'backend drain'}[o['kind']])
            if ob['defcaller']:
                return '%s: %d deferred-format formatter call(s) ran on the calling thread' % (what, ob['defcaller'])
            is_log = o['kind'] in (1, 2)
            if is_log:
                lst = listed(ts) if o['kind'] == 1 else True
                nvar = o['nvar'] if o['kind'] == 1 else 0
                direct = has_direct(ts) if o['kind'] == 1 else False
                if ob['dirfmt'] and not direct:
                    return '%s: a user formatter ran on the calling thread although no argument type opts into direct formatting' % what
                fitted = ob['res'] == 1 and ob['cap'] == prev['cap']
                if steady and fitted and lst and (ob['heap'] or ob['mmap']):
                    if nvar <= 12:
                        return '%s: steady-state call that fitted the current buffer (listed argument kinds, %d variable-length items) allocated on the calling thread [%s]' % (what, nvar, entries(side, c['cid'], k))
                    if nvar <= prev['ivcap']:
                        return '%s: the size cache already had capacity %d but a statement with %d variable-length items allocated again on the calling thread [%s]' % (what, prev['ivcap'], nvar, entries(side, c['cid'], k))
            if (steady and o['kind'] == 2 and k > 0 and c['ops'][k - 1]['kind'] == 4 and o['x'] + 36 <= prev['cap']
                    and (ob['heap'] or ob['mmap'] or ob['cap'] != prev['cap'])):
                return ('%s: the backend had drained the queue and the %d-byte record fits the current buffer (%d bytes), yet the call %s on the calling thread [%s]'
                        % (what, o['x'] + 36, prev['cap'], 'moved to a new buffer of %d bytes' % ob['cap'] if ob['cap'] != prev['cap'] else 'allocated', entries(side, c['cid'], k)))
            if steady and ob['ivcap'] < prev['ivcap']:
                return '%s: the size cache gave back capacity (%d -> %d): the next long statement allocates again' % (what, prev['ivcap'], ob['ivcap'])
            prev = ob
        return None
    return monitor


FINDINGS_FILE = os.path.join(VERIF, 'known_findings.d', PID + '.json')


def load_findings():
    try:
        return [f for f in json.load(open(FINDINGS_FILE)) if f.get('status') == 'open']
    except (OSError, ValueError):
        return []


def make_known_match(side):
    """open findings of known_findings.d/C11.json (none at present: C11-F1 is fixed, so a map element copied into
    a temporary pair is reported as a violation).  While it was open, C11-F1 was
    recognised only when the failing call made exactly the operator new calls those copies explain (two
    passes x the copies libstdc++ makes for the element values of this case) and nothing else; any other
    allocation on the same statement is still a violation."""
    fnd = {f['id']: f for f in load_findings()}
    def known_match(case, impl_line, msg):
        m = re.match(r'op (\d+) \((\w+)\): (steady-state call that fitted|the size cache already had capacity)', msg or '')
        if not m or 'C11-F1' not in fnd: return None
        c = parse_case(case); k = int(m.group(1)); o = c['ops'][k]
        f = fnd['C11-F1']
        if c['sig'] not in f['signature']['harness_sigs'] or o['kind'] != 1 or not o.get('pair_news'): return None
        s = side.get(c['cid'])
        if not s or k >= len(s['ops']): return None
        cnt = s['ops'][k]
        if cnt[0] == 2 * o['pair_news'] and not any(cnt[1:]):
            return 'C11-F1 ' + f['what'][:260]
        return None
    return known_match


# ---------------------------------------------------------------------------------------- build / run
def build_all(ck):
    hdr = K.ensure_header()
    key = tree_hash([hdr])
    exes = [None] * NPARTS; errs = [''] * NPARTS
    def job(k):
        exes[k], errs[k] = ck.build_harness('alloc_p%d' % k, ['alloc.cpp'], flags=['-DNDEBUG', '-DSIG_PART=%d' % k], san=False, extra_key=key)
    th = [threading.Thread(target=job, args=(k,)) for k in range(NPARTS)]
    for t in th: t.start()
    for t in th: t.join()
    return exes, errs


def exe_of(case):
    sig = int(case.split()[8]) & 0xffff
    return SIG_INDEX.get(sig, 0) % NPARTS


MAX_DEATHS = 8


def run_impl(ck, exes, cases, tag):
    lines = [None] * len(cases); side = {}
    groups = {}
    for idx, c in enumerate(cases): groups.setdefault(exe_of(c), []).append(idx)
    sfs = {}
    def job(j, idxs):
        sf = os.path.join(VERIF, 'out', 'c11-side-%s-%d-%d.txt' % (tag, os.getpid(), j))
        if os.path.exists(sf): os.remove(sf)
        sfs[j] = sf
        pr = K.Proc(exes[j], sf); deaths = 0
        for i in idxs:
            l = pr.one(cases[i], timeout=30)
            lines[i] = l
            if l.startswith('CRASH') or l == 'HANG':
                deaths += 1
                if deaths >= MAX_DEATHS: break
        pr.stop()
    th = [threading.Thread(target=job, args=(j, idxs)) for j, idxs in groups.items()]
    for t in th: t.start()
    for t in th: t.join()
    for j, sf in sfs.items():
        if os.path.exists(sf):
            for l in open(sf):
                try:
                    d = parse_side(l); side[d['cid']] = d
                except (ValueError, IndexError):
                    pass
            os.remove(sf)
    return lines, side


def corpus():
    d = os.path.join(VERIF, 'corpus', PID)
    out = []
    if os.path.isdir(d):
        for f in sorted(os.listdir(d)):
            for l in open(os.path.join(d, f)):
                l = l.strip()
                if l and not l.startswith('#'): out.append((f, with_variant(l)))
    return out


def nontrivial(case):
    """a steady-state log call happened: some log op comes after an op that created the thread context"""
    c = parse_case(case)
    reg = False
    for o in c['ops']:
        if o['kind'] in (1, 2) and reg: return True
        if o['kind'] in (0, 1, 2) or (o['kind'] == 3 and c['fe'] == 1): reg = True
    return False


def src_variant(ck):
    """T-src: the model's code-variant flag from the fact tools/srcfacts.py (c11f_facts) regenerated from the source tree"""
    global MAPCP
    try:
        facts = open(os.path.join(VERIF, 'coq', 'gen', 'SrcFacts.v')).read()
    except OSError:
        facts = ''
    m = re.search(r'Definition c11_map_elems_in_place : bool := (\w+)\.', facts)
    v = m.group(1) if m else None
    MAPCP = 0 if v == 'true' else 1
    ck.tie.append({'T-src facts': {'c11_map_elems_in_place': v}, 'model variant for the correspondence run': 'map_copies=%d' % MAPCP,
                   'lemmas': 'TieC11.src_map_elems_in_place, TieC11.src_map_copies_false, TieC11.src_map_codec_bodies (vm_compute); Properties_C11.C11_tie_map_codecs'})
    return v


def run(tier):
    ck = Check(PID, tier)
    broken = standard_proof_phase(ck, 'Properties_C11')
    v = src_variant(ck)
    if MAPCP:
        ck.log('T-src: c11_map_elems_in_place=%s -> the map codecs of this source tree do not encode the members of an element in place (repair of C11-F1 missing or undone); the model runs its pinned variant (map_copies=1)' % v)
    try:
        facts = open(os.path.join(VERIF, 'coq', 'gen', 'SrcFacts.v')).read()
        ck.tie.append({'T-src facts': {k: (re.search(r'Definition %s : \w+ := ([^.]+)\.' % k, facts) or [None, None])[1]
                                      for k in ('iv_inline_capacity', 'iv_growth_factor', 'tc_size_cache_by_value')}})
    except OSError:
        pass
    if broken:
        # say which T-src tie lemma no longer checks (a stale TieC11.vo otherwise hides it behind an import error)
        from vlib import sh, COQ
        rc, so, se = sh(['coqc', '-Q', 'theories', 'Quill', '-Q', 'gen', 'QuillGen', os.path.join('theories', 'TieC11.v')], cwd=COQ, timeout=300)
        if rc != 0:
            m = re.search(r'line (\d+)', se or '')
            lemma = ''
            if m:
                src = open(os.path.join(COQ, 'theories', 'TieC11.v')).read().splitlines()[:int(m.group(1))]
                names = [re.match(r'\s*Lemma\s+(\w+)', l) for l in src]
                names = [n.group(1) for n in names if n]
                lemma = names[-1] if names else ''
            broken.insert(0, 'T-src tie lemma TieC11.%s does not check against this source tree (the source no longer has the shape / constants the model was written against)' % (lemma or '?'))
            ck.tie.append({'name': 'TieC11.' + (lemma or '?'), 'ok': False})
            try: os.remove(os.path.join(COQ, 'theories', 'TieC11.vo'))
            except OSError: pass
        else:
            ck.tie.append({'name': 'TieC11 (all lemmas)', 'ok': True})
    else:
        ck.tie.append({'name': 'TieC11 (all lemmas)', 'ok': True})
    mexe, err = ck.build_modelrun()
    if not mexe:
        ck.violation('no-failing-input-found', 'model extraction/build failed: ' + err[-400:]); return ck.finish(trusted=TRUSTED)
    t0 = time.time()
    exes, errs = build_all(ck)
    ck.log('harness build %.1fs' % (time.time() - t0))
    if not all(exes):
        e = next(x for x in errs if x)
        ck.violation('no-failing-input-found', 'harness alloc.cpp does not compile against the repository: ' + e[-900:])
        return ck.finish(trusted=TRUSTED)

    quick = tier == 'quick'
    g = Gen(ck.rng, mexe, ck)
    g.edge()
    g.cstrings(1 if quick else 6)
    g.maps(2 if quick else 40)
    g.sweep(1 if quick else 10)
    g.fit(40 if quick else 3000)
    g.scenarios(700 if quick else 120000)
    corp = corpus()
    cases = [c for f, c in corp] + g.cases
    ml = ck.run_model(mexe, cases)
    il, side = run_impl(ck, exes, cases, 'main')
    skipped = [i for i, l in enumerate(il) if l is None]
    if skipped:
        ck.notes.append('%d cases not run after %d crashes/hangs of a harness binary' % (len(skipped), MAX_DEATHS))
        keep = [i for i, l in enumerate(il) if l is not None]
        cases = [cases[i] for i in keep]; ml = [ml[i] for i in keep]; il = [il[i] for i in keep]
    monitor = make_monitor(side)

    def shrink(case, mode):
        c = parse_case(case)
        def fails(ops):
            cc = unparse(c['head'], ops)
            l1, s1 = run_impl(ck, exes, [cc], 'shrink')
            if mode == 'monitor': return make_monitor(s1)(cc, l1[0]) is not None
            return ck.run_model(mexe, [cc])[0] != l1[0]
        return unparse(c['head'], ddmin(c['ops'], fails, max_tests=60))

    dis, mon = correspond(ck, 'M-ALLOC vs log_statement / macros / queues (allocation and formatter-thread observations)',
                          cases, ml, il, monitor=monitor, shrink=shrink, known_match=make_known_match(side))

    # open findings: each replay is re-run and must still fail in the recorded way
    kf = 0
    for f in load_findings():
        rp = f.get('replay')
        if not rp: continue
        for l in open(os.path.join(VERIF, rp)):
            l = l.strip()
            if not l or l.startswith('#'): continue
            l1, s1 = run_impl(ck, exes, [l], 'kf')
            m = make_monitor(s1)(l, l1[0])
            if m:
                k = make_known_match(s1)(l, l1[0], m)
                if k:
                    kf += 1
                    if k not in ck.known: ck.known.append(k)
                else:
                    ck.violation('impl-failing-input', 'property monitor on the implementation (finding replay %s): %s' % (rp, m), case=l, observed=l1[0])
            else:
                ck.notes.append('finding replay %s no longer fails on this tree' % rp)

    if tier == 'thorough':
        from vlib import sh, COQ
        rc, so, se = sh(['coqchk', '-silent', '-o', '-Q', 'theories', 'Quill', '-Q', 'gen', 'QuillGen', 'Quill.Props.Properties_C11'], cwd=COQ, timeout=900)
        okchk = rc == 0 and '* Axioms: <none>' in (so + se)
        ck.tie.append({'name': 'coqchk -o Quill.Props.Properties_C11', 'ok': okchk, 'detail': 'Axioms: <none>' if okchk else (so + se)[-300:]})
        if not okchk: broken.append('coqchk rejected the compiled development or found axioms')

    if broken and not ck.violations:
        ck.violation('no-failing-input-found', '; '.join(broken))

    # statistics of what the run actually exercised (from the implementation's observations)
    st = dict(log_calls=0, steady_fit_listed_calls=0, steady_fit_listed_calls_that_allocated=0, first_calls_allocating=0, grow_events=0, dropped=0, threw=0,
              ivcap_growths=0, direct_fmt_on_caller=0, cases_deferred_fmt_on_backend=0, deferred_fmt_on_backend=0, deferred_fmt_on_caller=0)
    for c, i in zip(cases, il):
        obs = parse_obs(i)
        if obs is None: continue
        pc = parse_case(c)
        if len(obs) != len(pc['ops']): continue
        prev = dict(cap=0, ivcap=0)
        for o, ob in zip(pc['ops'], obs):
            if o['kind'] in (1, 2):
                st['log_calls'] += 1
                if prev['ivcap'] == 0 and ob['heap']: st['first_calls_allocating'] += 1
                if prev['ivcap'] and ob['cap'] > prev['cap']: st['grow_events'] += 1
                if ob['res'] == 0: st['dropped'] += 1
                if ob['res'] == 3: st['threw'] += 1
                if prev['ivcap'] and ob['ivcap'] > prev['ivcap']: st['ivcap_growths'] += 1
                if prev['ivcap'] and ob['res'] == 1 and ob['cap'] == prev['cap'] and (o['kind'] == 2 or (listed(pc['ts']) and o['nvar'] <= 12)):
                    st['steady_fit_listed_calls'] += 1
                    if ob['heap'] or ob['mmap']: st['steady_fit_listed_calls_that_allocated'] += 1
                st['direct_fmt_on_caller'] += ob['dirfmt']; st['deferred_fmt_on_caller'] += ob['defcaller']
            prev = ob
        s = side.get(pc['cid'])
        if s and s['defer_backend']:
            st['cases_deferred_fmt_on_backend'] += 1; st['deferred_fmt_on_backend'] += s['defer_backend']
    nt = len(set(c for c in cases if nontrivial(c)))
    cov = {k: v for k, v in g.cov.items() if not k.startswith('sig')}
    return ck.finish(trusted=TRUSTED, samples=[c[:300] for c in (g.cases[:1] + g.cases[40:41] + g.cases[-1:])],
                     rule='case = "alloc <mapcp> ..." (<mapcp> = the model\'s code-variant flag map_copies, taken from the T-src fact c11_map_elems_in_place); one case = one fresh logging thread of a bounded (8 KiB, dropping) or unbounded (2 KiB..64 KiB, dropping) frontend running a list of operations: preallocate / log the case\'s statement signature through one of %d macro families with fresh values / filler statement of a chosen size / shrink / backend drain; generators: every signature x every family (first vs second call), 0-14 C strings as arguments and as container elements, maps / unordered maps / nested maps with heap-owning keys and mapped values (strings of 0, 5, 15, 16, 17, 40 bytes, vectors), records that fit exactly / miss by one (after preallocate, second call, after drain, after shrink), random scenarios, oversize records; non-trivial = a log call happens after the thread context exists (steady state); distinct by case text' % len(FAMS),
                     evaluations=len(cases), distinct_nontrivial=nt, traces=len(cases) - len(dis) - len(mon),
                     extra_cov={'disagreements': len(dis), 'monitor_failures': len(mon), 'corpus_cases': len(corp),
                                'signatures': len(SIG_INDEX) - len(EXCLUDED_SIGS), 'signatures_hit': len([k for k in g.cov if k.startswith('sig')]),
                                'generator_distribution': cov, 'model_flag_map_copies': MAPCP, 'implementation_statistics': st, 'known_finding_replays_failing': kf,
                                'observables': 'per op: heap allocation on the caller (0/1), mmap on the caller (0/1), enqueued/dropped/threw, producer queue capacity, size-cache capacity, direct-format formatter calls on the caller, deferred-format formatter calls on the caller; side channel: count per entry point, formatter calls on the backend'})


def replay(path):
    txt = open(path).read()
    try:
        d = json.loads(txt)
    except ValueError:      # a corpus file: the first case line
        d = {'case': next((l.strip() for l in txt.splitlines() if l.strip() and not l.startswith('#')), None)}
    ck = Check(PID, 'quick')
    ck.srcfacts(); src_variant(ck)
    mexe, _ = ck.build_modelrun(); exes, errs = build_all(ck)
    c = d.get('case')
    if not c:
        print('replay holds no concrete case; broken:', d.get('broken')); return 1
    c = with_variant(c)
    if not all(exes):
        print('harness does not compile:', next(x for x in errs if x)[-600:]); return 1
    pc = parse_case(c)
    print('case :', c[:600]); print('      model variant: map_copies=%d (T-src)' % MAPCP)
    print('      frontend %s, statement signature %d: (%s)' % ('unbounded' if pc['fe'] else 'bounded', pc['sig'], ', '.join(t.cpp for t in pc['ts'])))
    m = ck.run_model(mexe, [c])[0]
    il, side = run_impl(ck, exes, [c], 'replay')
    mo = parse_obs(m); io = parse_obs(il[0])
    print('per op: heap mmap res(1 enq/0 drop/3 throw/4 n.a.) queue-capacity cache-capacity direct-fmt-on-caller deferred-fmt-on-caller')
    for k, o in enumerate(pc['ops']):
        name = FAMS[o['fam']] if o['kind'] == 1 else {0: 'preallocate', 2: 'filler(%d)' % o.get('x', 0), 3: 'shrink(%d)' % o.get('x', 0), 4: 'drain'}[o['kind']]
        fmt = lambda ob: ' '.join(str(ob[x]) for x in ('heap', 'mmap', 'res', 'cap', 'ivcap', 'dirfmt', 'defcaller')) if ob else '?'
        print('  op %d %-24s model: %-28s impl: %-28s %s' % (k, name, fmt(mo[k]) if mo and k < len(mo) else '?', fmt(io[k]) if io and k < len(io) else il[0][:40], entries(side, pc['cid'], k)))
    mm = make_monitor(side)(c, il[0])
    print('monitor:', mm or 'property holds on this case')
    if not mm and m != il[0]: print('model and implementation observations differ')
    return 1 if (mm or m != il[0]) else 0
