"""C06 — flush_log() returns only after all earlier statements are written and flushed.
Proof: Props/Properties_C06.v (a set flag belongs to a processed flush request and everything its thread
committed before is processed; processing a flush flushes all active sinks; with timestamp ordering nothing
older than a processed event is pending anywhere; control requests never discarded).
Tie: T-src (pop before flag store) + T-corr through the backend driver: flush_log() callers are real threads
parked in the interposed sleep, resumed at yield points inside the backend's poll."""
from be_common import Case, Track, HDR_LOG, SZ_FLUSH
from be_check import run_be, replay_be

PID = 'C06'
MANIFEST = dict(
    text='Machine-checked (Coq) on the backend micro-step model, for every configuration (queue kind, capacity, limits, number of sinks) and every interleaving of frontend and backend micro-steps: a flush flag is set only by processing that flush request, after it left its transit buffer (order also read from the source each run), so the processed sequence of its thread is a prefix of what the thread committed and contains the request (everything committed earlier by the caller was dispatched to its sinks, C03); processing the request flushes every active sink after all writes so far; with timestamp ordering (premises of C05) no event pending in any queue or buffer is older than any processed event, hence every other thread\'s completed statement with a smaller timestamp is processed before the flag is set; a refused flush request stays pending and is never dropped nor counted. Model run against the real backend: flush_log() callers are real threads, resumed at top level and at yield points inside poll; monitor on the implementation: when flush_log() returns, every earlier accepted statement of the caller (and, with ordering, of other threads with smaller timestamps) has a write on each of its sinks followed by a flush of that sink. Partial: "returns as long as the backend keeps running" is a liveness claim checked only by the monitor (every flush in a drained run returns), equal timestamps across threads are excluded from the other-threads clause (the backend breaks ties by cache order), the driver runs sink_min_flush_interval 0, 1 ms and 5 ms on a virtual steady clock (the idle-stage flush is modelled with its interval; the flush request ignores it). Queue kinds: bounded blocking, bounded dropping and UnboundedBlocking frontends (the default type; initial node 256/1024 bytes so that queues grow). For unbounded frontends the thread record of M-BE carries the node structure of the queue (the sequential layer of M-UQ, updated at every queue call; it decides the backend\'s per-call read limit = capacity of the consumer\'s current node) next to a byte queue too large to fill; the theorems quantify over every initial node structure (premise fresh_thr) and every capacity, and the extracted model is compared with the real backend on growing queues as well.',
    design='5 C06', technique='Coq invariant proofs (flag => processed prefix; ordering invariant via refinement) + source-fact translator + deterministic-driver differential correspondence')


def gen(rng, facts):
    ns = rng.randint(1, 3)
    nl = rng.randint(1, 2)
    loggers = [(0, rng.sample(range(ns), rng.randint(1, ns))) for _ in range(nl)]
    soft = rng.choice([1, 2, 4, 8]); hard = rng.choice([h for h in (1, 2, 4, 8, 16) if h >= soft])
    g = rng.choice([0, 1000, 1000, 5000])
    dropping = rng.choice([0, 1, 0, 1, 2])      # 2 = UnboundedBlocking (monitor-only cases)
    c = Case(dropping=dropping, capk=rng.choice([8, 10, 12]), tinit=rng.choice([1, 2, 4]), soft=soft, hard=hard,
             grace=g, loggers=loggers, sinks=[(0, [4095] if rng.random() < 0.15 else []) for _ in range(ns)], facts=facts,   # 4095: this sink's flush_sink() throws
             fiv=rng.choice([0, 0, 1000000, 5000000]))
    C = 1 << c.capk
    nt = rng.randint(1, 4)
    big = rng.random() < 0.35      # some runs fill the queue (flush request refused / retried)
    def pad():
        if big: return rng.choice([0, 6, C // 4, C // 3, C // 2 - HDR_LOG - 8])
        return rng.choice([0, 0, 5, 19])
    def a_log(t, stall=False):
        i = c.next_id; c.next_id += 1
        return ('log', t, i, rng.randrange(nl), 4, HDR_LOG + pad(), 0, stall)
    def a_flush(t):
        i = c.next_id; c.next_id += 1
        return ('flush', t, i, rng.randrange(nl), SZ_FLUSH)
    if dropping == 2 and nt >= 2 and g > 0 and rng.random() < 0.5:
        # unbounded queue growing to a new node: 64-byte records fill a node exactly, the hard limit stops the read on
        # the node boundary; another thread's flush_log() must still wait for the statements in the newer node
        per_node = (1 << c.capk) // 64
        if per_node <= 16:
            c.hard = rng.choice([per_node, per_node, 2 * per_node]); c.soft = rng.choice([1, 2, min(4, c.hard), c.hard])
            a, b = 0, 1
            for _ in range(c.hard + rng.randint(1, per_node + 2)):
                i = c.next_id; c.next_id += 1
                c.cmds.append(('log', a, i, 0, 4, 64, 0, False))
            c.tick(1); c.cmds.append(a_flush(b)); c.tick(rng.choice([2 * g, g + 1]))
            for _ in range(rng.randint(1, 3)): c.poll(); c.resume(b)
    for _ in range(rng.randint(5, 40)):
        r = rng.random(); t = rng.randrange(nt)
        if r < 0.4: c.cmds.append(a_log(t))
        elif r < 0.52:
            if rng.random() < 0.5: c.tick(rng.choice([1, 1, g + 1 if g else 3]))
            c.cmds.append(a_flush(t))
        elif r < 0.6: c.tick(rng.choice([1, 10, g, g + 1, 2 * g + 1, 1000001, 999999]) or 1)
        elif r < 0.68: c.resume(t)
        elif r < 0.71: c.exit(t)
        else:
            inj = []
            for _ in range(rng.choice([0, 1, 1, 2])):
                y = rng.choice([1, 2, 3, 3, 4, 4, 5, 6, 7, 8]); v = rng.choice([0, 0, 1, 2])
                cs = []
                k = rng.random()
                u = rng.randrange(nt + 1)
                if k < 0.35: cs.append(('resume', u))                       # a flush caller wakes up in the middle of the poll
                elif k < 0.6: cs.append(a_log(u)); cs.append(('tick', 1))
                elif k < 0.8: cs.append(('tick', 1)); cs.append(a_flush(u))
                else:
                    # between two queue reads of one pass: a thread whose queue was already read logs, a later thread asks
                    # for a flush, and more than the grace period passes before the later queue is read
                    u1 = rng.randrange(nt); u2 = rng.randrange(nt)
                    cs.append(a_log(min(u1, u2))); cs.append(('tick', 1)); cs.append(a_flush(max(u1, u2))); cs.append(('tick', g + 1 if g else 2))
                if rng.random() < 0.3: cs.append(('resume', rng.randrange(nt)))
                inj.append((y, v, cs))
            if g and rng.random() < 0.15:
                # D5 shape: a thread logs for the first time after the poll's cache refresh and before the clock is read; a
                # known thread then asks for a flush, and more than the grace period passes before the clock read
                inj.append((1, 0, [a_log(nt), ('tick', 1), a_flush(rng.randrange(nt)), ('tick', g + 1)]))
            c.poll(inj)
    c.mark_tail()
    for _ in range(5):
        for t in range(nt + 1): c.resume(t)
        c.tick(3 * g + 7)
        for _ in range(12): c.poll()
    for t in range(nt + 1): c.resume(t)
    return c


def corpus_cases(facts):
    out = []
    # two sinks, caller flushes right after logging; another thread logged earlier (smaller timestamp)
    c = Case(grace=1000, soft=4, hard=8, loggers=[(0, [0, 1])], sinks=[(0, []), (0, [])], facts=facts)
    c.log(1); c.tick(1); c.log(0); c.tick(1); c.flush(0); c.tick(5000)
    for _ in range(6): c.poll()
    c.resume(0)
    out.append(c)
    # D5 shape (fixed): first log of thread 1 between the cache refresh and the clock read of a poll, then thread 0's flush
    c = Case(grace=1000, soft=4, hard=8, facts=facts)
    c.log(0); c.tick(3000)
    for _ in range(3): c.poll()
    i1 = c.next_id; i2 = c.next_id + 1; c.next_id += 2
    c.poll([(1, 0, [('log', 1, i1, 0, 4, HDR_LOG, 0, False), ('tick', 1), ('flush', 0, i2, 0, SZ_FLUSH), ('tick', 1001)])])
    for _ in range(4): c.poll(); c.resume(0)
    c.tick(5000)
    for _ in range(4): c.poll()
    c.resume(0)
    out.append(c)
    # dropping queue filled before the flush request: the request is retried, never discarded
    c = Case(dropping=1, capk=8, soft=4, hard=8, grace=0, facts=facts)
    for _ in range(6): c.log(0, pad=6)
    c.flush(0)
    for _ in range(4): c.poll(); c.resume(0)
    for _ in range(4): c.poll()
    c.resume(0)
    out.append(c)
    return out


def never_full(case):
    """no reservation can ever be refused: each thread's total traffic fits its queue"""
    if case.dropping == 2: return True          # unbounded queue: grows instead of refusing
    C = 1 << case.capk
    tot = {}
    def add(s):
        if s[0] == 'log': tot[s[1]] = tot.get(s[1], 0) + s[5]
        elif s[0] == 'flush': tot[s[1]] = tot.get(s[1], 0) + s[4]
    for cmd in case.cmds:
        if cmd[0] == 'poll':
            for (_, _, cs) in cmd[1]:
                for s in cs: add(s)
        else: add(cmd)
    return all(v <= C for v in tot.values())


def drained_after(case, fid, t):
    """after flush request [fid] of thread t was issued, did the case keep the backend running long enough:
    the clock moved past twice the grace period, at least 24 polls, and after those the thread was resumed
    twice more with polls in between (retry of a refused request, then the look at the flag)"""
    seen = False; polls = 0; ticks = 0; late_resumes = 0; polls_at_resume = -1
    for cmd in case.cmds:
        if not seen:
            if cmd[0] == 'flush' and cmd[2] == fid: seen = True
            elif cmd[0] == 'poll' and any(s[0] == 'flush' and s[2] == fid for (_, _, cs) in cmd[1] for s in cs): seen = True
            continue
        if cmd[0] == 'poll': polls += 1
        elif cmd[0] == 'tick': ticks += cmd[1]
        elif cmd[0] == 'resume' and cmd[1] == t and polls >= 24 and ticks > 2 * case.grace and polls > polls_at_resume:
            late_resumes += 1; polls_at_resume = polls
    return late_resumes >= 3


def monitor(case, obs):
    tr = Track(case, obs)
    if not tr.ok: return 'no observations'
    g = case.grace
    acc = [(i, d) for i, d in tr.stmts.items() if d['outcome'] == 'accepted']
    ordered = g > 0 and never_full(case) and all(d.get('commit_clock', d['ts']) <= d['ts'] + g for _, d in acc)
    for fi, f in sorted(tr.flushes.items()):
        p = f['ret']
        if p is None:
            # every generated case ends with five rounds of {resume every thread, advance the clock past the grace
            # period, 12 polls}: a flush_log() still waiting after that never returns
            if drained_after(case, fi, f['thread']) and f['thread'] not in [t for (_, t) in tr.exits]:
                return 'flush_log() %d of thread %d never returned although the backend kept running (5 drain rounds of 12 polls after the request)' % (fi, f['thread'])
            continue
        for i, d in acc:
            if d['ret'] is None or d['ret'] >= f['start']: continue
            own = d['thread'] == f['thread']
            if not own and not (ordered and d['ts'] < f['ts']): continue
            for k in case.loggers[d['logger']][1]:
                w = [pos for (pos, kk, ii, _) in tr.writes if kk == k and ii == i]
                who = 'its own thread' if own else 'thread %d (smaller timestamp, ordering premises hold)' % d['thread']
                if not w or w[0] >= p:
                    return 'flush_log() %d of thread %d returned but statement %d of %s, accepted before the call, was not yet written to sink %d' % (fi, f['thread'], i, who, k)
                if 4095 in case.sinks[k][1]: continue     # a sink whose flush throws cannot be flushed; the others must be
                if not any(w[0] < sf < p for (sf, kk) in tr.sflush if kk == k):
                    return 'flush_log() %d of thread %d returned but sink %d was not flushed after it received statement %d of %s' % (fi, f['thread'], k, i, who)
    return None


def nontrivial(case, obs):
    tr = Track(case, obs)
    if not tr.ok: return False
    rets = [f for f in tr.flushes.values() if f['ret'] is not None]
    return any(any(d['outcome'] == 'accepted' and d['ret'] is not None and d['ret'] < f['start'] for d in tr.stmts.values()) for f in rets)


RULE = ('sink_min_flush_interval 0 / 1 ms / 5 ms (virtual steady clock), 15% of the sinks with a flush_sink() that throws (the others must still be flushed), 1-4 threads (+1 first-time thread), 1-3 recording sinks shared by 1-2 loggers in random patterns, blocking, dropping and unbounded (growing) queues of 256/1024/4096 bytes (unbounded: bursts that fill a node exactly with the hard limit on the node boundary before the flush of another thread), '
        '35% of the cases with records of C/4..C/2 so that queues fill and flush requests are refused and retried; grace 0/1000/5000; flush_log() callers resumed at top level '
        'and at the yield points inside poll (Y1-Y8: around the clock read, between queue reads, in the batch loop, in the single-event branch, in the idle stages); '
        'statements and further flush requests of other threads injected at the same points; thread exits; each case ends with a drain; '
        'non-trivial = a flush_log() that returned with at least one accepted statement before it; distinct by case text')

run = run_be(PID, 'Properties_C06', gen, monitor, nontrivial, RULE, n_quick=500, n_thorough=20000, corpus_cases=corpus_cases)
replay = replay_be(PID, monitor)
