"""C01 — bounded SPSC queue: exactly once, in order, intact, never over capacity.
Proof: Props/Properties_C01.v — release/acquire safety invariant for every op list and load choice,
window + wrap exactness, grants fit, physical disjointness, order sensitivity witnesses.
Tie: T-src (skeletons + memory orders from clang's AST, Tie.v) and T-corr (extracted sequential model
vs BoundedSPSCQueueImpl<uint8_t|uint16_t|size_t>), plus a two-thread run under ThreadSanitizer."""
import json, os, re
from vlib import Check, standard_proof_phase, correspond, ddmin, sh, VERIF, REPO, OUT
import bq_common as B

PID = 'C01'
MANIFEST = dict(
    text='Machine-checked (Coq) safety of the bounded SPSC queue for every interleaving of producer/consumer steps and every value an atomic load may legally return (release/acquire view model, ideal positions), every capacity and record-size sequence, any reader publish rule: no race on payload bytes, consumed stream = prefix of committed stream, grants within released space (<= capacity), contiguous and physically disjoint records; wrap-around: every guard on mod-2^wb counters equals the ideal one in every reachable state and the whole sequential layer commutes with mod 2^wb. The memory orders and method skeletons are re-extracted from /repo by clang on every run (T-src) and the arithmetic layer is run against the real queue for three integer widths (T-corr) with a direct property monitor; a two-thread checksummed run under ThreadSanitizer backs the order facts with an execution.',
    design='5 C01', technique='Coq invariant proof over a release/acquire transition system + source-fact translator (clang AST) + extracted-model/implementation differential correspondence')
TRUSTED = [
    'Coq 8.16.1 kernel (vm_compute for witnesses; no native_compute); every theorem Closed under the global context',
    'the release/acquire collapse of C++11 to seen/know views (DESIGN section 4, hand-argued)',
    'tools/srcfacts.py over clang 14 JSON AST (memory orders and skeletons of 8 queue methods)',
    'extraction: ExtrOcamlBasic only; extract/driver.ml; harness/bq.cpp, harness/bq_mt.cpp; ThreadSanitizer as an auxiliary searcher',
    'modelled rather than verified: the queue methods are re-stated in Gallina (Queue/BQDefs.v); mmap/alignment, _mm_clflush paths and the double arithmetic of the constructor are not modelled',
]
WITNESS = {
    'bq_cw_store': ('commit_write store not release', 'weak_cw', ['PAskCached 4', 'PWriteFinishCommit', 'CLoad 1', 'CRead']),
    'bq_em_load': ('empty() load not acquire', 'weak_em', ['PAskCached 4', 'PWriteFinishCommit', 'CLoad 1', 'CRead']),
    'bq_cr_store': ('commit_read store not release', 'weak_cr', ['PAskCached 8', 'PWriteFinishCommit', 'CLoad 1', 'CRead', 'CCommit true', 'PAskLoad 4 1', 'PWriteFinishCommit']),
    'bq_pw_load': ('prepare_write reload not acquire', 'weak_pw', ['PAskCached 8', 'PWriteFinishCommit', 'CLoad 1', 'CRead', 'CCommit true', 'PAskLoad 4 1', 'PWriteFinishCommit']),
}


def srcfacts_values():
    p = os.path.join(VERIF, 'coq', 'gen', 'SrcFacts.v')
    d = {}
    if os.path.exists(p):
        for m in re.finditer(r'Definition (\w+) : (?:mo|bool|N) := ([\w%]+)\.', open(p).read()):
            d[m.group(1)] = m.group(2)
    return d


def tsan_run(ck, n):
    """two real threads under TSan; returns None or a description of the failure"""
    exe, err = ck.build_harness('bq_mt_tsan', ['bq_mt.cpp'], flags=['-fsanitize=thread'], san=False)
    if not exe:
        return 'bq_mt.cpp does not compile against /repo: ' + err[-300:], None
    res = []
    for cap, seed in ((64, 1), (1024, 2), (4096, 3)):
        rc, so, se = sh([exe, str(cap), str(n), str(seed)], timeout=300, env=dict(os.environ, TSAN_OPTIONS='halt_on_error=1:exitcode=66'))
        res.append((cap, seed, rc))
        if rc != 0 or not so.startswith('OK'):
            m = re.search(r'(WARNING: ThreadSanitizer: [^\n]+)', se or '')
            return 'two-thread run cap=%d records=%d seed=%d: rc=%s %s %s' % (cap, n, seed, rc, so.strip()[:60], m.group(1) if m else (se or '')[-200:]), (cap, n, seed)
    return None, res


def run(tier):
    ck = Check(PID, tier)
    broken = standard_proof_phase(ck, 'Properties_C01')
    facts = srcfacts_values()
    ck.tie.append({'T-src facts': {k: facts.get(k) for k in ('bq_pw_load', 'bq_cw_store', 'bq_em_load', 'bq_cr_store', 'bq_cr_load')}})
    mexe, err = ck.build_modelrun()
    if not mexe:
        ck.violation('no-failing-input-found', 'model extraction/build failed: ' + err[-400:]); return ck.finish(trusted=TRUSTED)
    iexe, err = ck.build_harness('bq', ['bq.cpp'])
    if not iexe:
        ck.violation('no-failing-input-found', 'harness bq.cpp does not compile against /repo: ' + err[-600:]); return ck.finish(trusted=TRUSTED)
    n = 1500 if tier == 'quick' else 60000
    cases = B.boundary_cases() + [B.gen_case(ck.rng) for _ in range(n)]
    # safety holds for ANY publish rule: run the model with the rule the source has now (T-src)
    ob = '0' if facts.get('bq_publish_on_batch') == 'false' else '1'
    od = '0' if facts.get('bq_publish_on_drain') == 'false' else '1'
    def with_rule(c):
        t = c.split(); t[4] = ob; t[5] = od; return ' '.join(t)
    cases = [with_rule(c) for c in cases]
    ml = ck.run_model(mexe, cases); il = ck.run_impl(iexe, cases)

    def shrink(case, mode):
        hdr, ops = B.parse(case)
        def fails(o):
            c = B.unparse(hdr, o); i = ck.run_impl(iexe, [c])[0]
            return (B.monitor_c01(c, i) is not None) if mode == 'monitor' else (ck.run_model(mexe, [c])[0] != i)
        return B.unparse(hdr, ddmin(ops, fails))
    dis, mon = correspond(ck, 'M-BQ sequential layer vs BoundedSPSCQueueImpl', cases, ml, il, monitor=B.monitor_c01, shrink=shrink)

    # two real threads under TSan (execution-level backing of the memory-order facts)
    tmsg, tinfo = tsan_run(ck, 30000 if tier == 'quick' else 2000000)
    if tmsg:
        ck.violation('impl-failing-input', 'two-thread producer/consumer run under ThreadSanitizer: ' + tmsg,
                     case={'harness': 'harness/bq_mt.cpp', 'args': tinfo}, expected='OK, no data race', observed=tmsg)
    if broken and not ck.violations:
        # T-src or a proof broke: look for a ready-made model witness for a weakened order
        for k, (what, cfgname, trace) in WITNESS.items():
            v = facts.get(k)
            need = 'Acq' if 'load' in k else 'Rel'
            if v is not None and v not in (need, 'AcqRel', 'Sc'):
                ck.violation('model-witness', what + ' (SrcFacts.%s = %s); broken: %s' % (k, v, '; '.join(broken)[:300]),
                             case={'model': 'Queue.BQDefs.run 8 ' + cfgname, 'ops': trace}, expected='race = false',
                             observed='race = true (theorem C01_each_order_needed)')
                break
        else:
            ck.violation('no-failing-input-found', '; '.join(broken))
    res = dict(zip(cases, il))
    nt = len(set(c for c in cases if B.nontrivial(c, res[c], 0))) if not mon else 0
    hist = {}
    for c in cases:
        h = c.split(); hist[h[1] + 'bit'] = hist.get(h[1] + 'bit', 0) + 1
    return ck.finish(trusted=TRUSTED, samples=[cases[0], cases[len(cases) // 2][:400]],
                     rule='single-thread op sequences W n c / CW / R / CR / E on BoundedSPSCQueueImpl<uint8_t|uint16_t|size_t>, capacities 2^1..2^12, reader_store_percent in {0,5,37,100}; sizes steered to {1, C-1, C, C+1, free, free+-1, published-free+-1}; non-trivial = more than C bytes went through (positions passed the capacity; uint8_t counters wrap), >= 1 denial and >= 1 grant after a denial; distinct by case text',
                     evaluations=len(cases), distinct_nontrivial=nt, traces=len(cases) - len(dis) - len(mon),
                     extra_cov={'disagreements': len(dis), 'monitor_failures': len(mon), 'width_histogram': hist,
                                'tsan_two_thread_runs': tinfo if not tmsg else tmsg})


def replay(path):
    d = json.load(open(path)); ck = Check(PID, 'quick')
    c = d.get('case')
    if not isinstance(c, str):
        print('replay:', json.dumps(d, indent=1)[:2000]); return 1
    mexe, _ = ck.build_modelrun(); iexe, _ = ck.build_harness('bq', ['bq.cpp'])
    i = ck.run_impl(iexe, [c])[0]
    print('case :', c); print('model:', ck.run_model(mexe, [c])[0]); print('impl :', i); print('monitor:', B.monitor_c01(c, i))
    return 1 if B.monitor_c01(c, i) else 0
