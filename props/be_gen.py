"""Random and structured case generators for the backend driver."""
from be_common import Case, HDR_LOG


def simple_cmd(rng, case, nthreads, C, bt=True):
    r = rng.random()
    t = rng.randrange(nthreads)
    if r < 0.55:
        pad = rng.choice([0, 0, 0, 3, 19, C // 4, C // 2 - HDR_LOG, C - HDR_LOG, C - HDR_LOG - 40, C - HDR_LOG + 1, rng.randint(0, C // 3)])
        pad = max(0, pad)
        if not case.dropping: pad = min(pad, C - HDR_LOG)   # a record larger than a blocking queue's capacity blocks for ever (outside C09's scope)
        lg = rng.randrange(len(case.loggers))
        lvl = rng.choice([0, 3, 4, 4, 4, 6, 7, 8])
        mode = 0 if rng.random() < 0.93 else rng.choice([1, 2])
        i = case.next_id; case.next_id += 1
        st = rng.random() < 0.3; nm = (not st) and rng.random() < 0.3
        return ('log', t, i, lg, lvl, HDR_LOG + pad - (1 if st else 0), mode + (20 if nm else 10 if st else 0), rng.random() < 0.06)
    if r < 0.58 and bt:
        lg = rng.randrange(len(case.loggers)); i = case.next_id; case.next_id += 1
        k = rng.random()
        if k < 0.45: return ('log', t, i, lg, 9, HDR_LOG + rng.choice([0, 5]), 0, False)      # LOG_BACKTRACE
        if k < 0.7: return ('initbt', t, i, lg, rng.choice([0, 1, 2, 3, 3, 5]), rng.choice([10, 10, 7, 8, 4]), 36)
        if k < 0.9: return ('flushbt', t, i, lg, 32)
        return ('addfilter', rng.randrange(len(case.sinks)), rng.choice([2, 3, 5, 7]))
    if r < 0.65: return ('resume', t)
    if r < 0.72:
        i = case.next_id; case.next_id += 1
        return ('flush', t, i, rng.randrange(len(case.loggers)), 40)
    if r < 0.76: return ('exit', t)
    if r < 0.80: return ('setlevel', rng.randrange(len(case.loggers)), rng.choice([0, 4, 5, 8]))
    if r < 0.84: return ('setsinklevel', rng.randrange(len(case.sinks)), rng.choice([0, 4, 5, 8]))
    if r < 0.97: return ('tick', rng.choice([1, 10, 500, 1000, 1001, 5000, 100000]))
    return ('ctx',)


def gen_random(rng, facts, n=None, dropping=None, grace=None):
    ns = rng.randint(1, 3)
    sinks = [(rng.choice([0, 0, 0, 4, 6]), sorted(set(rng.sample(range(0, 12), rng.choice([0, 0, 0, 1, 2])))) if True else []) for _ in range(ns)]
    nl = rng.randint(1, 3)
    loggers = [(rng.choice([0, 0, 3, 4]), rng.sample(range(ns), rng.randint(1, ns))) for _ in range(nl)]
    soft = rng.choice([1, 2, 4, 8]); hard = rng.choice([h for h in (1, 2, 4, 8, 16) if h >= soft])
    c = Case(dropping=rng.choice([0, 0, 1]) if dropping is None else dropping, capk=rng.choice([8, 8, 10]),
             tinit=rng.choice([1, 2, 4]), soft=soft, hard=hard,
             grace=rng.choice([0, 0, 1000, 5000]) if grace is None else grace, loggers=loggers, sinks=sinks, facts=facts)
    C = 1 << c.capk
    nthreads = rng.randint(1, 4)
    n = n or rng.randint(5, 60)
    for _ in range(n):
        if rng.random() < 0.3:
            inj = []
            if rng.random() < 0.35:
                for _ in range(rng.randint(1, 3)):
                    y = rng.choice([1, 2, 3, 3, 4, 4, 5, 6, 7, 8]); v = rng.choice([0, 0, 1, 2])
                    cs = [simple_cmd(rng, c, nthreads, C) for _ in range(rng.randint(1, 3))]
                    inj.append((y, v, cs))
            c.poll(inj)
        else:
            c.cmds.append(simple_cmd(rng, c, nthreads, C))
    for _ in range(rng.randint(0, 6)): c.poll()
    c.ctx()
    return c
