"""C04 — async-formatted message = formatting the arguments at the call site; deep copy;
reserved = written = consumed.
Proof: Props/Properties_C04.v over M-CODEC (Codec/CodecDefs.v), Sanitize, M-IV: structural induction on
an arbitrarily nested type universe, all values.  Tie: T-corr, the extracted model against the real
Codec<T> triplets / LoggerImpl::log_statement / the manually driven backend, on ~75 C++ instantiations
(harness/codec.cpp + generated harness/codec_sigs.h), plus the property monitor evaluated directly on the
implementation (sizes equal, consumed = written, async text = call-site text after sanitisation)."""
import json, os, re, select, subprocess, sys, tempfile, threading, time
from vlib import Check, standard_proof_phase, correspond, ddmin, VERIF, tree_hash

PID = 'C04'
MANIFEST = dict(
    text='Machine-checked (Coq) for an arbitrarily nested type universe (arithmetic/enum/pointer, C strings incl. null and unterminated char arrays, std::string/string_view/path with embedded NUL, vector/deque/list/forward_list/(unordered) set and map/array/optional/pair/tuple, deferred POD / aligned / direct user types, chrono, StringRef) and every value: bytes reserved = bytes written = bytes consumed per argument and per statement (32-byte header + arguments + optional dynamic level), the encode pass consumes exactly the string lengths the size pass cached (any mix of arguments, any stale cache content), decode(encode v) = canonical v (C string cut at first NUL, null -> "", embedded NULs kept), hence for any libfmt rendering the backend text equals the text of the canonical values and, without unordered containers, of the caller\'s own view; deep copy (no dependence on caller memory unless StringRef); sanitisation = concat-map \\xHH; InlinedVector allocation points. The model carries a code-variant flag for the std::tuple decoder (elements decoded by the codec of their decoded type = the pinned code, or by the codec that encoded them = the repaired code, finding C04-F3 fixed); the variant of the source tree is fixed by T-src (tools/srcfacts.py c04t_facts, TieC04.v, C04_tie_tuple_decoder) and for it the theorems need no side condition on the types (C04_no_side_condition, C04_text_equal_code, stmt_size_exact_code). Two refutations of the full-strength claim are proved on the faithful model and replayed on the real code (unordered containers re-ordered, direct-format types inside containers quoted); the pinned tuple decoder is refuted on the flag-on variant (std::tuple<StringRef,..> made the backend read outside the record). Tied to the code by byte-exact differential runs of the extracted model against the real codecs and by an end-to-end monitor through the real logger/queue/backend.',
    design='5 C04', technique='Coq proof by structural induction on nested types (size/cache/round-trip) + extracted-model/implementation byte-exact differential correspondence + end-to-end text monitor')
TRUSTED = [
    'Coq 8.16.1 kernel (coqc, vm_compute for examples/refutations; no native_compute)',
    'axioms: none (every theorem Closed under the global context); little-endian fixed-width integer codec proved in Base/Bytes.v',
    'premises visible in the theorem statements: [reinsert] (std::set/map/unordered_* rebuilt by insertion: only "holds what was inserted" and, for the call-site clause, "an ordered container re-inserts to itself"), [render] (libfmt on decoded values, arbitrary function), [mem] (caller memory at format time); value ranges of the C++ integer types (uint32 string lengths, size_t counts) in [wt]',
    'extraction: ExtrOcamlBasic only, OCaml 4.13.1 ocamlopt, extract/driver.ml',
    'correspondence harness harness/codec.cpp + generated harness/codec_sigs.h (g++ -O1 -DNDEBUG, ASan+UBSan): builds values from the case line, zero-filled encode buffer so that alignment padding is canonical, StringRef targets at a fixed mmap address, recording sink, ManualBackendWorker driven by the harness thread',
    'modelled rather than verified: the codecs are re-stated in Gallina; libfmt (value -> text) is outside the model: text equality rests on "same decoded values in, same text out" plus the end-to-end monitor; DynamicFormatArgStore type mapping (which decoded type libfmt sees) is not modelled, which is why the quoted-nested-direct-type finding is caught by the monitor only',
    'UBSan check nonnull-attribute is switched off in the harness build: Codec<char const*>::encode calls memcpy(dst, nullptr, 0) for a null C string (formally undefined, harmless with glibc; reported, not counted as a C04 violation)',
    'not covered: wide strings (Windows only), std::vector<bool> (does not compile with quill), strings >= 4 GiB and containers >= 2^64 elements (excluded by the visible range hypotheses, not sampled)',
]

HERE = os.path.dirname(os.path.abspath(__file__))
NPARTS = 8

# ---------------------------------------------------------------------------------------- type DSL
class T:
    """one argument type: C++ spelling, model encoding, value generator"""
    def __init__(s, cpp, enc, kind, subs=(), w=0, n=0, strrel=True, key=None):
        s.cpp = cpp; s.enc = enc; s.kind = kind; s.subs = subs; s.w = w; s.n = n; s.strrel = strrel; s.key = key

    def has(s, pred):
        return pred(s) or any(x.has(pred) for x in s.subs)


def arith(cpp, w, strrel=False, special=None, key=None):
    t = T(cpp, [0, 0, w], 'arith', w=w, strrel=strrel, key=key); t.special = special; return t
def enum(cpp, w): return T(cpp, [0, 1, w], 'arith', w=w, strrel=False)
def pod(cpp, w): return T(cpp, [0, 3, w], 'arith', w=w)
def chrono(cpp, w): return T(cpp, [0, 4, w], 'arith', w=w)
PTR = T('void const*', [0, 2, 8], 'arith', w=8, strrel=False)
CSTR = T('char const*', [1], 'cstr')
MCSTR = T('char*', [1], 'cstr')
def chararr(n): return T('char[%d]' % n, [2, n], 'chararr', n=n)
STR = T('std::string', [3, 0], 'str', key='bytes')
SV = T('std::string_view', [3, 1], 'str')
PATH = T('fs::path', [3, 2], 'str')
DIRECT = T('DirU', [4], 'direct')
SREF = T('quill::utility::StringRef', [5], 'sref')
AL16 = T('Al16', [6, 16, 16], 'aligned', w=16)
AL8 = T('Al8', [6, 24, 8], 'aligned', w=24)
DSTR = T('DStr', [6, 40, 8], 'aligned', w=40)
def seq(k, cppname, t, extra=''): return T('%s<%s%s>' % (cppname, t.cpp, extra), [7, k] + t.enc, 'seq', (t,), n=k)
def vec(t): return seq(0, 'std::vector', t)
def deque(t): return seq(1, 'std::deque', t)
def lst(t): return seq(2, 'std::list', t)
def cset(t): return seq(3, 'std::set', t)
def mset(t): return seq(3, 'std::multiset', t)
def uset(t): return seq(4, 'std::unordered_set', t)
def fwd(t): return T('std::forward_list<%s>' % t.cpp, [8] + t.enc, 'fwd', (t,))
def arr(n, t): return T('std::array<%s, %d>' % (t.cpp, n), [9, n] + t.enc, 'arr', (t,), n=n)
def carr(n, t):
    if t.kind == 'chararr': cpp = 'char[%d][%d]' % (n, t.n)
    else: cpp = '%s[%d]' % (t.cpp, n)
    return T(cpp, [9, n] + t.enc, 'arr', (t,), n=n)
def opt(t): return T('std::optional<%s>' % t.cpp, [10] + t.enc, 'opt', (t,))
def pair(a, b): return T('std::pair<%s, %s>' % (a.cpp, b.cpp), [11] + a.enc + b.enc, 'pair', (a, b))
def tup(*ts): return T('std::tuple<%s>' % ', '.join(t.cpp for t in ts), [12, len(ts)] + sum((t.enc for t in ts), []), 'tuple', tuple(ts))
def cmap(k, v, name='std::map'): return T('%s<%s, %s>' % (name, k.cpp, v.cpp), [13, 0] + k.enc + v.enc, 'map', (k, v), n=0)
def umap(k, v): return T('std::unordered_map<%s, %s>' % (k.cpp, v.cpp), [13, 1] + k.enc + v.enc, 'map', (k, v), n=1)

I32 = arith('int32_t', 4, key='i32'); U32 = arith('uint32_t', 4, key='u'); U64 = arith('uint64_t', 8, key='u'); U16 = arith('uint16_t', 2, key='u')
I8 = arith('int8_t', 1); U8 = arith('uint8_t', 1, key='u'); I64 = arith('int64_t', 8)
F64 = arith('double', 8, special='f64'); F32 = arith('float', 4, special='f32')
CHAR = arith('char', 1, strrel=True); BOOL = arith('bool', 1, special='bool')
E8 = enum('E8', 1); E32 = enum('E32', 4)
PODA = pod('PodA', 8); PODB = pod('PodB', 12)
NS = chrono('std::chrono::nanoseconds', 8); SEC = chrono('std::chrono::duration<int32_t>', 4)

def is_unordered(t): return (t.kind == 'seq' and t.n == 4) or (t.kind == 'map' and t.n == 1)

# statement signatures: (id, with_dyn, [types]).  ids are stable (corpus / findings refer to them).
SIGS = [
    (1, 1, [I32]), (2, 0, [U64]), (3, 0, [F64]), (4, 0, [F32]), (5, 0, [CHAR]), (6, 0, [BOOL]), (7, 0, [I8]),
    (8, 0, [E8]), (9, 0, [E32]), (10, 0, [PTR]), (11, 1, [CSTR]), (12, 0, [MCSTR]), (13, 0, [chararr(4)]),
    (14, 0, [chararr(89)]), (15, 1, [STR]), (16, 0, [SV]), (17, 0, [PATH]), (18, 0, [DIRECT]), (19, 0, [SREF]),
    (20, 0, [PODA]), (21, 0, [PODB]), (22, 1, [AL16]), (23, 0, [AL8]), (24, 0, [DSTR]), (25, 0, [NS]), (26, 0, [chararr(1)]),
    # containers over arith / Str / CStr
    (30, 0, [vec(I32)]), (31, 1, [vec(STR)]), (32, 0, [vec(CSTR)]), (33, 0, [deque(U16)]), (34, 0, [deque(STR)]),
    (35, 0, [lst(F64)]), (36, 0, [lst(SV)]), (37, 0, [cset(U32)]), (38, 0, [cset(STR)]), (39, 0, [uset(U32)]),
    (40, 0, [uset(STR)]), (41, 0, [fwd(I32)]), (42, 0, [fwd(STR)]), (43, 0, [fwd(CSTR)]), (44, 0, [arr(3, I32)]),
    (45, 0, [arr(2, STR)]), (46, 0, [arr(2, CSTR)]), (47, 0, [carr(3, I32)]), (48, 0, [carr(2, STR)]), (49, 0, [carr(2, chararr(4))]),
    (50, 0, [opt(I32)]), (51, 0, [opt(STR)]), (52, 0, [opt(CSTR)]), (53, 0, [pair(I32, STR)]), (54, 0, [pair(CSTR, F64)]),
    (55, 0, [tup(I32, STR, CSTR, F64)]), (56, 0, [tup()]), (57, 0, [cmap(U32, U32)]), (58, 0, [cmap(STR, I32)]),
    (59, 0, [cmap(U32, STR)]), (60, 0, [umap(U32, STR)]), (61, 0, [umap(U32, U32)]), (62, 0, [mset(U8)]),
    (63, 0, [cmap(U16, CSTR, 'std::multimap')]), (64, 0, [vec(E8)]), (65, 0, [lst(CSTR)]), (66, 0, [deque(CSTR)]),
    # depth 3
    (70, 0, [vec(vec(STR))]), (71, 0, [vec(opt(pair(STR, I32)))]), (72, 0, [cmap(STR, vec(CSTR))]),
    (73, 0, [opt(tup(I32, vec(STR)))]), (74, 0, [tup(vec(CSTR), opt(STR), arr(3, I32))]), (75, 0, [vec(tup(I32, STR))]),
    (76, 0, [fwd(fwd(CSTR))]), (77, 0, [pair(vec(CSTR), fwd(STR))]), (78, 0, [cmap(U32, cmap(STR, opt(CSTR)))]),
    (79, 0, [vec(arr(2, opt(CSTR)))]),
    # user types nested
    (80, 0, [vec(PODA)]), (81, 0, [vec(AL16)]), (82, 0, [opt(AL8)]), (83, 0, [tup(U8, AL16)]), (84, 0, [vec(DIRECT)]),
    (85, 0, [opt(DIRECT)]), (86, 0, [tup(SREF, I32)]), (87, 0, [vec(NS)]), (88, 0, [pair(U8, DSTR)]), (89, 0, [cmap(U32, DIRECT)]),
    # several arguments in one statement
    (90, 1, []), (91, 1, [I32, F64, STR]), (92, 0, [CSTR, I32, CSTR]), (93, 0, [CSTR] * 2), (94, 0, [CSTR] * 11),
    (95, 0, [CSTR] * 12), (96, 0, [CSTR] * 13), (97, 0, [CSTR] * 14),
    (98, 1, [STR, CSTR, vec(CSTR), chararr(4), DIRECT, fwd(I32), I32]), (99, 0, [CSTR, AL16, CHAR]),
    (100, 0, [SV, PTR, E32, U64]), (101, 0, [chararr(4), opt(CSTR), cmap(STR, I32), F32]), (102, 0, [SREF, CSTR, STR]),
    (103, 0, [U8, AL8, CSTR, AL16]),
]
SIG = {i: (d, ts) for i, d, ts in SIGS}
# instantiations whose end-to-end text is known to differ (open findings); keyed narrowly below
NESTED_DIRECT = {84, 85, 89}
TUPLE_SREF = {86}
UNORDERED_SIGS = {39, 40, 60, 61}


def sigs_header():
    out = ['// GENERATED by props/c04.py (sigs_header) from its SIGS table - do not edit.',
           '// one case label per statement signature; SIG_PART selects the slice compiled into this binary']
    for k, (i, d, ts) in enumerate(SIGS):
        targs = ''.join(', ' + t.cpp for t in ts)
        out.append('#if SIG_PART == %d\n  case %d: run_case<%s%s>(a); break;\n#endif' % (k % NPARTS, i, 'true' if d else 'false', targs))
    return '\n'.join(out) + '\n'


def ensure_header():
    p = os.path.join(VERIF, 'harness', 'codec_sigs.h')
    txt = sigs_header()
    if not os.path.exists(p) or open(p).read() != txt:
        open(p, 'w').write(txt)
    return p


# ---------------------------------------------------------------------------------------- values
BOUNDARY_LENS = [0, 1, 87, 88, 89]
HUGE_LENS = [65535, 65536, 65537]
ODD = [0, 1, 9, 10, 13, 27, 31, 32, 34, 92, 123, 125, 126, 127, 128, 195, 169, 255]


class G:
    """value generation for one case"""
    def __init__(s, rng, huge=False, nulls=True, maxn=4, big_unordered=False):
        s.rng = rng; s.huge = huge; s.nulls = nulls; s.maxn = maxn; s.ref_cur = 0; s.big_unordered = big_unordered
        s.hit = set()

    def slen(s):
        r = s.rng.random()
        if s.huge:
            n = s.huge if s.huge is not True else s.rng.choice(HUGE_LENS)
            s.huge = False; s.hit.add('len%d' % n); return n
        if r < 0.35:
            n = s.rng.choice(BOUNDARY_LENS); s.hit.add('len%d' % n); return n
        return s.rng.randint(0, 24)

    def sbytes(s, n, nul=True):
        r = s.rng.random()
        if r < 0.4:
            return [s.rng.randint(32, 126) for _ in range(n)]
        if r < 0.5:
            return [s.rng.randint(1, 255) for _ in range(n)]
        out = []
        for _ in range(n):
            q = s.rng.random()
            if q < 0.6: out.append(s.rng.randint(97, 122))
            elif q < 0.7 and nul: out.append(0); s.hit.add('nul')
            else: out.append(s.rng.choice(ODD[1:] if not nul else ODD))
        if any(b < 32 or b > 126 for b in out): s.hit.add('nonprint')
        return out

    def count(s, t):
        if is_unordered(t) and not s.big_unordered:
            return s.rng.choice([0, 1])
        r = s.rng.random()
        if r < 0.2: s.hit.add('empty'); return 0
        return s.rng.randint(1, s.maxn)

    def val(s, t):
        k = t.kind
        if k == 'arith':
            sp = getattr(t, 'special', None)
            if sp == 'bool': return [s.rng.randint(0, 1)]
            r = s.rng.random()
            if sp == 'f64' and r < 0.4:
                v = s.rng.choice([0x7ff8000000000000, 0x7ff0000000000000, 0xfff0000000000000, 0x8000000000000000, 1, 0x7fefffffffffffff, 0x3ff0000000000000, 0x7ff0000000000001])
                s.hit.add('float-special'); return list(v.to_bytes(8, 'little'))
            if sp == 'f32' and r < 0.4:
                v = s.rng.choice([0x7fc00000, 0x7f800000, 0xff800000, 0x80000000, 1, 0x7f7fffff, 0x3f800000])
                s.hit.add('float-special'); return list(v.to_bytes(4, 'little'))
            if r < 0.15: s.hit.add('arith-extreme'); return [0] * t.w
            if r < 0.3: s.hit.add('arith-extreme'); return [255] * t.w
            if r < 0.4: s.hit.add('arith-extreme'); return [255] * (t.w - 1) + [127]
            if r < 0.5: s.hit.add('arith-extreme'); return [0] * (t.w - 1) + [128]
            return [s.rng.randint(0, 255) for _ in range(t.w)]
        if k == 'cstr':
            if s.nulls and s.rng.random() < 0.12: s.hit.add('null-cstr'); return [0]
            n = s.slen(); return [1, n] + s.sbytes(n)
        if k == 'chararr':
            r = s.rng.random()
            if r < 0.35: s.hit.add('chararr-no-nul'); return [s.rng.randint(1, 255) for _ in range(t.n)]
            b = s.sbytes(t.n)
            if r < 0.7: b[s.rng.randrange(t.n)] = 0
            return b
        if k in ('str', 'direct'):
            n = s.slen(); return [n] + s.sbytes(n)
        if k == 'sref':
            n = s.rng.randint(0, 20); b = s.sbytes(n)
            p = 0x200000000000 + s.ref_cur; s.ref_cur += n + 1
            return [p, n] + b
        if k == 'aligned':
            return [s.rng.randint(0, 255) for _ in range(t.w)]
        if k == 'seq':
            e = t.subs[0]; n = s.count(t)
            if t.n in (3, 4):      # set-like: the value is the iteration sequence: sorted (unique unless multiset)
                items = s.sorted_items(e, n, unique='multiset' not in t.cpp)
            else:
                items = [s.val(e) for _ in range(n)]
            return [len(items)] + sum(items, [])
        if k == 'fwd':
            e = t.subs[0]; n = s.count(t)
            return [n] + sum((s.val(e) for _ in range(n)), [])
        if k == 'arr':
            return sum((s.val(t.subs[0]) for _ in range(t.n)), [])
        if k == 'opt':
            if s.rng.random() < 0.35: s.hit.add('opt-empty'); return [0]
            s.hit.add('opt-full'); return [1] + s.val(t.subs[0])
        if k in ('pair', 'tuple'):
            return sum((s.val(x) for x in t.subs), [])
        if k == 'map':
            kt, vt = t.subs; n = s.count(t)
            keys = s.sorted_items(kt, n, unique='multimap' not in t.cpp)
            return [len(keys)] + sum((kk + s.val(vt) for kk in keys), [])
        raise ValueError(k)

    def sorted_items(s, e, n, unique=True):
        """n element encodings in the iteration order of std::set<E> / std::map<E,..>"""
        items = []
        for _ in range(n):
            if e.key == 'bytes':
                ln = s.rng.randint(0, 6); b = s.sbytes(ln); items.append([ln] + b)
            else:
                items.append(s.val(e))
        def keyf(v):
            if e.key == 'bytes': return bytes(v[1:])
            x = int.from_bytes(bytes(v), 'little')
            if e.key == 'i32' and x >= 2 ** 31: x -= 2 ** 32
            return x
        if unique:
            d = {}
            for v in items: d.setdefault(keyf(v), v)
            items = list(d.values())
        items.sort(key=keyf)
        return items


def make_case(cid, sig, g, rng, clear=1, showbytes=None, base=None, dyn=None, fmtk=None, stale=None):
    d, ts = SIG[sig]
    if showbytes is None:
        showbytes = 0 if any(t.has(lambda x: x is DSTR) for t in ts) else 1
        if g.big_unordered and any(t.has(is_unordered) for t in ts): showbytes = 0
    if base is None: base = rng.choice([0, 0, 1, 3, 8, 15, 16, 17, 33, 63])
    if dyn is None: dyn = rng.choice([0, 0, 4, 9]) if d else 0
    if fmtk is None: fmtk = rng.randint(0, 3)
    if stale is None: stale = [rng.randint(0, 70000) for _ in range(rng.choice([0, 0, 1, 3, 12, 13]))]
    tyenc = sum((t.enc for t in ts), [])
    vals = sum((g.val(t) for t in ts), [])
    toks = [clear, showbytes, base, dyn, (cid << 16) | sig, fmtk, len(stale)] + stale + [len(tyenc), len(ts)] + tyenc + vals
    return 'codec ' + ' '.join(map(str, toks))


def case_fields(case):
    a = list(map(int, case.split()[1:]))
    return dict(clear=a[0], showbytes=a[1], base=a[2], dyn=a[3], cid=a[4] >> 16, sig=a[4] & 0xffff, fmtk=a[5], nstale=a[6])


def gen(rng, n, cid0=0):
    cases = []; cov = {}
    ids = [i for i, _, _ in SIGS]
    cid = cid0
    def add(sig, **kw):
        nonlocal cid
        cid += 1
        gkw = {k: kw.pop(k) for k in ('huge', 'nulls', 'maxn', 'big_unordered') if k in kw}
        g = G(rng, **gkw)
        c = make_case(cid, sig, g, rng, **kw)
        cases.append(c)
        for h in g.hit: cov[h] = cov.get(h, 0) + 1
        cov['sig%d' % sig] = cov.get('sig%d' % sig, 0) + 1
    # every signature a few times, then weighted random; a few very long strings
    skip = TUPLE_SREF if finding_open('C04-F3') else set()   # while C04-F3 was open these instantiations crashed the backend
    for sig in ids:
        if sig in skip: continue
        for _ in range(3): add(sig)
    for sig in (11, 15, 16, 18, 31, 42, 98):
        for ln in HUGE_LENS:
            add(sig, huge=ln, maxn=2)
    while len(cases) < n:
        sig = rng.choice(ids)
        if sig in skip: continue
        add(sig)
    return cases, cov, cid


def gen_aux(rng, n):
    """sanitiser and InlinedVector cases"""
    out = []
    out.append('san ' + ' '.join(str(b) for b in range(256)))
    out.append('san 97 98 99')
    out.append('san')
    for _ in range(n):
        ln = rng.choice([0, 1, 5, 40])
        out.append(('san ' + ' '.join(str(rng.choice(ODD + [65, 66, 67])) for _ in range(ln))).strip())
    out.append('iv ' + ' '.join(['0 %d' % i for i in range(30)]) + ' 1 ' + ' '.join(['0 %d' % i for i in range(26)]))
    for _ in range(n):
        ops = []
        for _ in range(rng.randint(1, 40)):
            ops.append('1' if rng.random() < 0.1 else '0 %d' % rng.randint(0, 2 ** 32 - 1))
        out.append('iv ' + ' '.join(ops))
    return out


# ---------------------------------------------------------------------------------------- monitor
def printable(c): return (32 <= c <= 126) or c == 10
def sanitize(bs):
    if all(printable(c) for c in bs): return list(bs)
    out = []
    for c in bs:
        if printable(c): out.append(c)
        else: out += [92, 120] + [ord('0123456789ABCDEF'[(c >> 4) & 15]), ord('0123456789ABCDEF'[c & 15])]
    return out


def parse_unit(line):
    """implementation / model observation line -> dict (None if crashed / malformed)"""
    try:
        a = list(map(int, line.split()))
    except ValueError:
        return None
    if len(a) < 4: return None
    d = {'size': a[0], 'ncache': a[1]}
    i = 2 + a[1]
    d['cache'] = a[2:i]
    d['enc_ok'] = a[i]; i += 1
    if d['enc_ok']:
        d['written'] = a[i]; i += 1
        rest = a[i:]
        d['reserved'] = rest[-1]; d['consumed'] = rest[-2]; d['dec_ok'] = rest[-3]
    else:
        d['reserved'] = a[-1]
    return d


def parse_side(line):
    a = list(map(int, line.split()))
    d = {'cid': a[0], 'strrel': a[1], 'cs_ok': a[2]}
    i = 3; n = a[i]; d['cs'] = a[i + 1:i + 1 + n]; i += 1 + n
    nm = a[i]; i += 1; d['msgs'] = []
    for _ in range(nm):
        n = a[i]; d['msgs'].append(a[i + 1:i + 1 + n]); i += 1 + n
    d['nerr'] = a[i]
    return d


SENTINEL = list(b'S 424242')


def make_monitor(side):
    def monitor(case, impl_line):
        if not case.startswith('codec '):
            return None
        f = case_fields(case)
        if impl_line.startswith('CRASH') or impl_line.startswith('HANG') or impl_line == 'NOOUTPUT':
            return 'implementation did not survive the statement: ' + impl_line
        u = parse_unit(impl_line)
        if u is None or u['size'] >= 2 ** 63:
            return 'harness could not run the case: ' + impl_line[:60]
        if not u['enc_ok']:
            return 'encode pass indexed the size cache out of bounds (QuillError)'
        if u['written'] != u['size']:
            return 'bytes written by encode (%d) != size computed by compute_encoded_size (%d)' % (u['written'], u['size'])
        if u['consumed'] != u['written']:
            return 'bytes consumed by the decoder (%d) != bytes written (%d)' % (u['consumed'], u['written'])
        exp_res = 32 + u['size'] + (1 if f['dyn'] else 0)
        if u['reserved'] != exp_res:
            return 'log_statement reserved %d bytes, header + arguments + level = %d' % (u['reserved'], exp_res)
        s = side.get(f['cid'])
        if s is None:
            return 'no end-to-end observation (backend died after the statement)'
        if s['nerr']:
            return 'backend reported %d error(s) while formatting' % s['nerr']
        if len(s['msgs']) != 2:
            return 'sink received %d messages for statement + sentinel' % len(s['msgs'])
        if s['msgs'][1] != SENTINEL:
            return 'the statement after this one was not read back intact (consumed != written on the queue)'
        if s['cs_ok']:
            d, ts = SIG[f['sig']]
            strrel = any(t.strrel for t in ts)
            exp = sanitize(s['cs']) if strrel else s['cs']
            if exp and exp[-1] == 10: exp = exp[:-1]        # the backend hands the message to the sink without one trailing newline
            if s['msgs'][0] != exp:
                return 'async text %r != call-site text%s %r' % (bytes(s['msgs'][0])[:80], ' (sanitised)' if strrel else '', bytes(exp)[:80])
            if bool(s['strrel']) != strrel:
                return 'has_string_related_type() = %d, expected %d' % (s['strrel'], strrel)
        return None
    return monitor


FINDINGS_FILE = os.path.join(VERIF, 'known_findings.d', 'C04.json')


def finding_open(fid):
    try:
        return any(f.get('id') == fid and f.get('status') == 'open' for f in json.load(open(FINDINGS_FILE)))
    except (OSError, ValueError):
        return False


def make_known_match(side):
    """open findings (known_findings.d/C04.json), each keyed by the instantiations it was replayed on
    and by the exact shape of the failure; anything else on the same instantiations is still reported"""
    def known_match(case, impl_line, msg):
        if not case.startswith('codec '): return None
        f = case_fields(case)
        sig = f['sig']
        s = side.get(f['cid'])
        if sig in UNORDERED_SIGS and msg.startswith('async text') and s and s['cs_ok'] and len(s['msgs']) == 2:
            exp = sanitize(s['cs'])
            if sorted(exp) == sorted(s['msgs'][0]):      # same characters, another element order
                return 'C04-F1 unordered_set/unordered_map arguments are rebuilt by insertion on the backend and are formatted in another element order than at the call site'
        if sig in NESTED_DIRECT and msg.startswith('async text') and s and s['cs_ok'] and len(s['msgs']) == 2:
            exp = sanitize(s['cs'])
            if s['msgs'][0].count(34) >= exp.count(34) + 2:   # the element is wrapped in double quotes
                return 'C04-F2 a DirectFormatCodec user type nested in a container/optional/map is formatted on the backend as a quoted, escaped string, not as formatter<T> prints it at the call site'
        if finding_open('C04-F3') and sig in TUPLE_SREF and (msg.startswith('implementation did not survive') or msg.startswith('no end-to-end observation')
                                  or msg.startswith('bytes consumed by the decoder')):
            return 'C04-F3 std::tuple<StringRef,...>: the tuple decoder runs Codec<std::string_view> on the pointer+size bytes Codec<StringRef> wrote; consumed != written, the backend then reads outside the record'
        return None
    return known_match


# ---------------------------------------------------------------------------------------- run
def corpus():
    d = os.path.join(VERIF, 'corpus', PID)
    out = []
    if os.path.isdir(d):
        for f in sorted(os.listdir(d)):
            for l in open(os.path.join(d, f)):
                l = l.strip()
                if l and not l.startswith('#'): out.append((f, l))
    return out


def build_all(ck):
    hdr = ensure_header()
    key = tree_hash([hdr])
    exes = [None] * NPARTS; errs = [''] * NPARTS
    def job(k):
        exes[k], errs[k] = ck.build_harness('codec_p%d' % k, ['codec.cpp'], flags=['-DNDEBUG', '-fno-sanitize=nonnull-attribute', '-DSIG_PART=%d' % k], extra_key=key)
    th = [threading.Thread(target=job, args=(k,)) for k in range(NPARTS)]
    for t in th: t.start()
    for t in th: t.join()
    return exes, errs


def part_of(case):
    if not case.startswith('codec '): return 0
    sig = case_fields(case)['sig']
    for k, (i, d, ts) in enumerate(SIGS):
        if i == sig: return k % NPARTS
    return 0


class Proc:
    """one harness process fed case by case; a crash or hang is an observation of that case and the
    process is restarted for the next one (so a defect that kills the backend costs one restart per
    failing case, not one process per remaining case)"""
    def __init__(s, exe, sidefile):
        s.exe = exe; s.sidefile = sidefile; s.p = None; s.errf = None
        s.env = dict(os.environ)
        s.env.setdefault('ASAN_OPTIONS', 'detect_leaks=0:abort_on_error=0:exitcode=99')
        s.env.setdefault('UBSAN_OPTIONS', 'print_stacktrace=1:halt_on_error=1:exitcode=98')

    def start(s):
        s.errf = tempfile.TemporaryFile()
        s.p = subprocess.Popen([s.exe, s.sidefile], stdin=subprocess.PIPE, stdout=subprocess.PIPE, stderr=s.errf, env=s.env)
        s.buf = b''

    def stop(s):
        if s.p:
            try:
                s.p.stdin.close()
            except OSError:
                pass
            try:
                s.p.wait(timeout=5)
            except subprocess.TimeoutExpired:
                s.p.kill(); s.p.wait()
            s.p = None
        if s.errf: s.errf.close(); s.errf = None

    def kill(s):
        if s.p:
            s.p.kill(); s.p.wait(); s.p = None
        if s.errf: s.errf.close(); s.errf = None

    def one(s, case, timeout=20):
        if s.p is None: s.start()
        data = (case + '\n').encode()
        fd_in = s.p.stdin.fileno(); fd_out = s.p.stdout.fileno()
        deadline = time.time() + timeout
        off = 0
        while True:
            nl = s.buf.find(b'\n')
            if nl >= 0 and off >= len(data):
                line = s.buf[:nl].decode(); s.buf = s.buf[nl + 1:]
                return line
            left = deadline - time.time()
            if left <= 0:
                s.kill(); return 'HANG'
            wl = [fd_in] if off < len(data) else []
            r, w, _ = select.select([fd_out], wl, [], min(left, 1.0))
            if w:
                try:
                    off += os.write(fd_in, data[off:off + 65536])
                except (BrokenPipeError, OSError):
                    off = len(data)
            if r:
                chunk = os.read(fd_out, 1 << 16)
                if not chunk:
                    rc = s.p.wait()
                    s.errf.seek(0); err = s.errf.read().decode('utf8', 'replace')
                    m = re.search(r'(AddressSanitizer: [\w-]+|runtime error: [^\n]{0,80}|terminate called[^\n]{0,80})', err)
                    s.p = None; s.errf.close(); s.errf = None
                    return 'CRASH ' + (m.group(1).replace(' ', '_') if m else 'rc=%s' % rc)
                s.buf += chunk


MAX_DEATHS = 12


def run_impl_parts(ck, exes, cases, tag):
    """route each case to the binary holding its instantiation; returns (lines, side dict).
    After MAX_DEATHS crashes/hangs of one binary its remaining cases are not run (line None)."""
    lines = [None] * len(cases); side = {}
    groups = {}
    for idx, c in enumerate(cases): groups.setdefault(part_of(c), []).append(idx)
    sfs = {}
    def job(k, idxs):
        sf = os.path.join(ck_out(), 'c04-side-%s-%d.txt' % (tag, k))
        if os.path.exists(sf): os.remove(sf)
        sfs[k] = sf
        pr = Proc(exes[k], sf); deaths = 0
        for i in idxs:
            l = pr.one(cases[i])
            lines[i] = l
            if l.startswith('CRASH') or l == 'HANG':
                deaths += 1
                if deaths >= MAX_DEATHS: break
        pr.stop()
    th = [threading.Thread(target=job, args=(k, idxs)) for k, idxs in groups.items()]
    for t in th: t.start()
    for t in th: t.join()
    for k, sf in sfs.items():
        if os.path.exists(sf):
            for l in open(sf):
                try:
                    d = parse_side(l); side[d['cid']] = d
                except (ValueError, IndexError):
                    pass
            os.remove(sf)
    return lines, side


def ck_out():
    return os.path.join(VERIF, 'out')


def nontrivial(case):
    """a codec case is non-trivial when some argument is variable-length or nested (the cache / prefix / padding machinery ran)"""
    if not case.startswith('codec '): return False
    d, ts = SIG.get(case_fields(case)['sig'], (0, []))
    return any(t.kind != 'arith' or t.enc[1] in (3,) for t in ts)


def run(tier):
    ck = Check(PID, tier)
    broken = standard_proof_phase(ck, 'Properties_C04', need_srcfacts=False)   # no T-src fact is used by C04
    mexe, err = ck.build_modelrun()
    if not mexe:
        ck.violation('no-failing-input-found', 'model extraction/build failed: ' + err[-400:]); return ck.finish(trusted=TRUSTED)
    t0 = time.time()
    exes, errs = build_all(ck)
    ck.log('harness build %.1fs' % (time.time() - t0))
    if not all(exes):
        e = next(x for x in errs if x)
        ck.violation('no-failing-input-found', 'harness codec.cpp does not compile against the repository: ' + e[-900:])
        return ck.finish(trusted=TRUSTED)

    n = 2500 if tier == 'quick' else 200000
    corp = corpus()
    known_files = set()
    try:
        for fnd in json.load(open(FINDINGS_FILE)):
            if fnd.get('status') == 'open' and fnd.get('replay'): known_files.add(os.path.basename(fnd['replay']))
    except (OSError, ValueError):
        pass
    gcases, cov, cid = gen(ck.rng, n, cid0=1000)
    aux = gen_aux(ck.rng, 30 if tier == 'quick' else 2000)
    # corpus cases of open findings may crash the harness: they run one by one, after the batch
    batch_corpus = [c for f, c in corp if f not in known_files]
    cases = batch_corpus + gcases + aux
    ml = ck.run_model(mexe, cases)
    il, side = run_impl_parts(ck, exes, cases, 'main')
    skipped = [i for i, l in enumerate(il) if l is None]
    if skipped:
        ck.notes.append('%d cases not run after %d crashes/hangs of a harness binary' % (len(skipped), MAX_DEATHS))
        keep = [i for i, l in enumerate(il) if l is not None]
        cases = [cases[i] for i in keep]; ml = [ml[i] for i in keep]; il = [il[i] for i in keep]
    monitor = make_monitor(side)

    def shrink(case, mode):
        """a case is one statement: normalise the incidental parameters (stale cache, address, format
        string, dynamic level) one at a time while the failure persists"""
        if not case.startswith('codec '): return case
        def fails(c):
            l1, s1 = run_impl_parts(ck, exes, [c], 'shrink')
            if mode == 'monitor': return make_monitor(s1)(c, l1[0]) is not None
            return ck.run_model(mexe, [c])[0] != l1[0]
        a = case.split()[1:]
        ns = int(a[6])
        cur = a
        if ns:
            c = 'codec ' + ' '.join(a[:6] + ['0'] + a[7 + ns:])
            if fails(c): cur = c.split()[1:]
        for i, v in ((2, '0'), (3, '0'), (5, '0')):
            if cur[i] != v:
                c = 'codec ' + ' '.join(cur[:i] + [v] + cur[i + 1:])
                if fails(c): cur = c.split()[1:]
        return 'codec ' + ' '.join(cur)

    dis, mon = correspond(ck, 'M-CODEC vs Codec<T>/log_statement/backend', cases, ml, il, monitor=monitor, shrink=shrink, known_match=make_known_match(side))

    # end-to-end only: unordered containers with several elements, direct types in containers
    e2e = []
    for sig in (39, 40, 60, 61):
        for _ in range(3 if tier == 'quick' else 40):
            cid += 1
            e2e.append(make_case(cid, sig, G(ck.rng, big_unordered=True, maxn=6), ck.rng))
    ml2 = ck.run_model(mexe, e2e)
    il2, side2 = run_impl_parts(ck, exes, e2e, 'e2e')
    keep = [i for i, l in enumerate(il2) if l is not None]
    e2e = [e2e[i] for i in keep]; ml2 = [ml2[i] for i in keep]; il2 = [il2[i] for i in keep]
    dis2, mon2 = correspond(ck, 'M-CODEC vs unordered containers (sizes only)', e2e, ml2, il2, monitor=make_monitor(side2), shrink=shrink, known_match=make_known_match(side2))

    # open findings: replay each one on the implementation (own process: some of them crash it)
    kf = 0
    for f, c in corp:
        if f not in known_files: continue
        l1, s1 = run_impl_parts(ck, exes, [c], 'kf')
        m = make_monitor(s1)(c, l1[0])
        if m:
            k = make_known_match(s1)(c, l1[0], m)
            if k:
                kf += 1
                if k not in ck.known: ck.known.append(k)
            else:
                ck.violation('impl-failing-input', 'property monitor on the implementation (finding replay %s): %s' % (f, m), case=c, observed=l1[0])
        else:
            ck.notes.append('finding replay %s no longer fails on this tree' % f)

    if tier == 'thorough':
        # independent re-check of the compiled proofs (kernel only), axioms reported by coqchk itself
        from vlib import sh, COQ
        rc, so, se = sh(['coqchk', '-silent', '-o', '-Q', 'theories', 'Quill', '-Q', 'gen', 'QuillGen', 'Quill.Props.Properties_C04'], cwd=COQ, timeout=900)
        okchk = rc == 0 and '* Axioms: <none>' in (so + se)
        ck.tie.append({'name': 'coqchk -o Quill.Props.Properties_C04', 'ok': okchk, 'detail': 'Axioms: <none>' if okchk else (so + se)[-300:]})
        if not okchk: broken.append('coqchk rejected the compiled development or found axioms')

    if broken and not ck.violations:
        ck.violation('no-failing-input-found', '; '.join(broken))
    allc = cases + e2e
    nt = len(set(c for c in allc if nontrivial(c)))
    cov2 = {k: v for k, v in cov.items() if not k.startswith('sig')}
    return ck.finish(trusted=TRUSTED, samples=[c[:300] for c in (gcases[:2] + gcases[-1:] + aux[:1])],
                     rule='one case = one log statement (signature id selects the C++ instantiation, values from the PRNG) or one sanitiser / InlinedVector sequence; each signature at least 3 times then uniform over %d signatures; non-trivial = some argument is variable-length, nested or a deferred user type; distinct by case text' % len(SIGS),
                     evaluations=len(allc), distinct_nontrivial=nt,
                     traces=len(allc) - len(dis) - len(mon) - len(dis2) - len(mon2),
                     extra_cov={'disagreements': len(dis) + len(dis2), 'monitor_failures': len(mon) + len(mon2), 'corpus_cases': len(corp),
                                'signatures': len(SIGS), 'signatures_hit': len([k for k in cov if k.startswith('sig')]),
                                'boundaries_hit': cov2, 'known_finding_replays_failing': kf,
                                'observables': 'size, cache entries, encoded bytes, consumed, reserved (queue), call-site text, async text, sentinel text, notifier count'})


def replay(path):
    d = json.load(open(path))
    ck = Check(PID, 'quick')
    mexe, _ = ck.build_modelrun(); exes, errs = build_all(ck)
    c = d.get('case')
    if not c:
        print('replay holds no concrete case; broken:', d.get('broken')); return 1
    if not all(exes):
        print('harness does not compile:', next(x for x in errs if x)[-600:]); return 1
    print('case :', c[:400])
    print('model:', ck.run_model(mexe, [c])[0][:400])
    il, side = run_impl_parts(ck, exes, [c], 'replay')
    print('impl :', il[0][:400])
    if c.startswith('codec '):
        s = side.get(case_fields(c)['cid'])
        if s:
            print('call-site text:', bytes(s['cs'])); print('sink messages :', [bytes(m) for m in s['msgs']], 'notifier calls:', s['nerr'])
    m = make_monitor(side)(c, il[0])
    print('monitor:', m or 'property holds on this case')
    return 1 if m else 0
