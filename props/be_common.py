"""Shared by the M-BE family (C03 C05 C06 C08 C10 C16 C20): case construction for the deterministic
backend driver (harness/be.cpp <-> Backend/BEExec.v), parsing of the observation stream, and the
python-side bookkeeping the property monitors use (what the test itself issued: ids, timestamps,
levels, logger/sink configuration), independent of the Coq model."""
import re

CLOCK0 = 1700000000000000000
HDR_LOG = 45          # encoded size of a driver statement with empty padding: 32 header + 8 payload + 4 string length + 1 dynamic level
SZ_FLUSH = 40         # 32 header + 8 flag pointer


def batch_of(C, pct=5):
    return int((C * pct) / 100.0)


class Case:
    """a driver case: configuration + command list; serialises to the shared line format"""
    def __init__(self, dropping=0, capk=10, tinit=4, soft=4, hard=8, grace=0, loggers=None, sinks=None,
                 facts=None, fiv=0):
        self.fiv = fiv                            # sink_min_flush_interval in ticks (ns), a multiple of 1_000_000
        self.dropping = dropping; self.capk = capk; self.tinit = tinit; self.soft = soft; self.hard = hard
        self.grace = grace
        self.loggers = loggers or [(0, [0])]      # (level, [sink idx])
        self.sinks = sinks or [(0, [])]           # (level, [throwing write indices])
        self.facts = facts or {}
        self.cmds = []                            # tuples
        self.next_id = 1

    # ---- the closing phase of a case (drain / stop): shrinking never removes it (be_check.py)
    def mark_tail(self): self._tail_from = len(self.cmds)
    @property
    def keep_tail(self):
        f = getattr(self, '_tail_from', None)
        return 0 if f is None else max(0, len(self.cmds) - f)
    @keep_tail.setter
    def keep_tail(self, n): self._tail_from = len(self.cmds) - n

    # ---- commands
    def log(self, t, lg=0, lvl=4, pad=0, mode=0, stall=False, id=None, static=False, named=False):
        i = id if id is not None else self.next_id
        self.next_id = max(self.next_id, i) + 1
        # static=True: a static-level call site (no dynamic level byte in the record); mode + 10 tells the harness
        # named=True: a call site with named placeholders (mode + 20)
        c = ('log', t, i, lg, lvl, (HDR_LOG - 1 if static else HDR_LOG) + pad, mode + (20 if named else 10 if static else 0), stall); self.cmds.append(c); return i
    def resume(self, t): self.cmds.append(('resume', t))
    def flush(self, t, lg=0):
        i = self.next_id; self.next_id += 1
        self.cmds.append(('flush', t, i, lg, SZ_FLUSH)); return i
    def exit(self, t): self.cmds.append(('exit', t))
    def init_bt(self, t, lg=0, cap=3, flvl=10):
        i = self.next_id; self.next_id += 1
        self.cmds.append(('initbt', t, i, lg, cap, flvl, 36)); return i
    def flush_bt(self, t, lg=0):
        i = self.next_id; self.next_id += 1
        self.cmds.append(('flushbt', t, i, lg, 32)); return i
    def add_filter(self, k, m): self.cmds.append(('addfilter', k, m))
    def shrink(self, t, c): self.cmds.append(('shrink', t, c))     # shrink_thread_local_queue(c) + reported capacity
    def set_level(self, l, v): self.cmds.append(('setlevel', l, v))
    def set_sink_level(self, k, v): self.cmds.append(('setsinklevel', k, v))
    def tick(self, d): self.cmds.append(('tick', d))
    def ctx(self): self.cmds.append(('ctx',))
    def stop(self, d, n=200): self.cmds.append(('stop', d, n))      # BackendWorker::_exit(), the clock moving d per loop iteration (top level only)
    def poll(self, inj=None): self.cmds.append(('poll', inj or []))   # inj: [(yield, visit, [simple cmds])]

    @staticmethod
    def enc_simple(c):
        k = c[0]
        if k == 'log': return [2 if c[7] else 1, c[1], c[2], c[3], c[4], c[5], c[6]]
        if k == 'resume': return [3, c[1]]
        if k == 'flush': return [4, c[1], c[2], c[3], c[4]]
        if k == 'exit': return [5, c[1]]
        if k == 'setlevel': return [6, c[1], c[2]]
        if k == 'setsinklevel': return [7, c[1], c[2]]
        if k == 'tick': return [8, c[1]]
        if k == 'ctx': return [10]
        if k == 'initbt': return [11, c[1], c[2], c[3], c[4], c[5], c[6]]
        if k == 'flushbt': return [12, c[1], c[2], c[3], c[4]]
        if k == 'addfilter': return [13, c[1], c[2]]
        if k == 'shrink': return [14, c[1], c[2]]
        if k == 'stop': return [15, c[1], c[2]]
        raise ValueError(k)

    def line(self):
        C = 1 << (40 if self.dropping == 2 else self.capk)   # dropping = 2: UnboundedBlocking, initial capacity 2^capk
        f = self.facts
        ob = 0 if f.get('bq_publish_on_batch') == 'false' else 1
        od = 0 if f.get('bq_publish_on_drain') == 'false' else 1
        bits = int(re.sub(r'%N', '', f.get('tcm_invalid_count_bits', '32')))
        rf2 = 0 if f.get('be_refresh_after_clock') == 'false' else 1
        ca = 0 if f.get('be_format_catch_all') == 'false' else 1
        rfirst = 0 if f.get('be_report_before_ctx_removal') == 'false' else 1
        btr = 0 if f.get('bt_reset_index') == 'false' else 1
        btg = 0 if f.get('bt_cap0_guard') == 'false' else 1
        btc = 0 if f.get('be_bt_replay_catch') == 'false' else 1
        follow = 0 if f.get('be_unbounded_read_follows_chain') == 'false' else 1
        out = ['be', self.dropping, self.capk, batch_of(C), ob, od, self.tinit, self.soft, self.hard, self.grace, bits, rf2, ca, rfirst, btr, btg, btc, self.fiv, follow, CLOCK0]
        out.append(len(self.loggers))
        for lvl, ks in self.loggers: out += [lvl, len(ks)] + list(ks)
        out.append(len(self.sinks))
        for lvl, th in self.sinks: out += [lvl, len(th)] + list(th)
        for c in self.cmds:
            if c[0] == 'poll':
                out += [9, len(c[1])]
                for y, v, cs in c[1]:
                    toks = []
                    for s in cs: toks += self.enc_simple(s)
                    out += [y, v, len(toks)] + toks
            else:
                out += self.enc_simple(c)
        return ' '.join(str(x) for x in out)

    def flat_cmds(self):
        """commands in the order they are *started* is not knowable statically for injected ones; this
        returns top-level commands with injected ones nested (used by monitors through walk())."""
        return self.cmds


def parse_obs(line):
    """observation stream -> list of tuples"""
    if line.startswith(('CRASH', 'HANG', 'NOOUTPUT')):
        return None
    t = [int(x) for x in line.split()]
    out = []; i = 0
    while i < len(t):
        k = t[i]
        if k == 1: out.append(('write', t[i + 1], t[i + 2], t[i + 3], t[i + 4])); i += 5
        elif k == 2: out.append(('sflush', t[i + 1])); i += 2
        elif k == 3: out.append(('note', t[i + 1], t[i + 2])); i += 3
        elif k == 4: out.append(('flag', t[i + 1])); i += 2
        elif k == 5: out.append(('res', t[i + 1])); i += 2
        elif k == 6: out.append(('pollend',)); i += 1
        elif k == 7: out.append(('ctx', t[i + 1])); i += 2
        elif k == 8: out.append(('inj', t[i + 1], t[i + 2])); i += 3
        elif k == 9: out.append(('cap', t[i + 1])); i += 2
        else: out.append(('?', k)); i += 1
    return out


FIRED = []   # (id(poll cmd), yield, visit) of the injections that fired in the last align() call


def align(case, obs):
    """pair every command that reports a result with its ('res', code) observation, in time order.
    Commands inside a poll run at their yield point if it is reached; since which injections fire is not
    known statically, alignment walks the stream: top-level commands in order; within a poll segment
    (up to 'pollend') the 'res' tokens are matched with the injected commands in (visit order as listed)."""
    res = []   # (cmd, code, position in obs)
    self_fired = FIRED
    del self_fired[:]
    pos = 0
    def next_res():
        nonlocal pos
        while pos < len(obs) and obs[pos][0] not in ('res', 'ctx', 'pollend', 'cap'):
            pos += 1
        return pos
    for c in case.cmds:
        if c[0] == 'poll':
            # injected commands that produce results, in listed order (the generator lists them in firing order)
            # injected commands run only when their yield point is reached: the stream says which ones fired ('inj' tokens)
            pend = []
            while True:
                while pos < len(obs) and obs[pos][0] not in ('res', 'ctx', 'pollend', 'inj', 'cap'):
                    pos += 1
                p = pos
                if p >= len(obs): break
                if obs[p][0] == 'pollend': pos = p + 1; break
                if obs[p][0] == 'inj':
                    fired = [s for (y, v, cs) in c[1] if (y, v) == (obs[p][1], obs[p][2]) for s in cs]
                    self_fired.append((id(c), obs[p][1], obs[p][2]))
                    pend += [s for s in fired if s[0] in ('log', 'resume', 'flush', 'exit', 'initbt', 'flushbt', 'shrink')]
                elif obs[p][0] in ('res', 'cap') and pend:
                    res.append((pend.pop(0), obs[p][1], p))
                pos = p + 1
        elif c[0] in ('log', 'resume', 'flush', 'exit', 'initbt', 'flushbt', 'shrink', 'stop'):
            p = next_res()
            if p < len(obs) and obs[p][0] in ('res', 'cap'):
                res.append((c, obs[p][1], p)); pos = p + 1
        elif c[0] == 'ctx':
            p = next_res()
            if p < len(obs) and obs[p][0] == 'ctx':
                res.append((c, obs[p][1], p)); pos = p + 1
    return res


class Track:
    """what the test itself knows: replays the command list against the observation stream and records,
    per statement id: thread, logger, level, issue clock, outcome (accepted / dropped / filtered / parked),
    the stream position where its call returned; plus sink writes / flushes / notes with positions."""
    def __init__(self, case, obs):
        self.case = case; self.obs = obs
        self.stmts = {}      # id -> dict
        self.flushes = {}    # id -> dict(thread, start_pos, ret_pos)
        self.writes = []     # (pos, sink, id, level)
        self.named_seen = [] # (pos, sink, id, number of named args the sink received)
        self.sflush = []     # (pos, sink)
        self.notes = []      # (pos, kind, n)
        self.ctx = []        # (pos, n)
        self.exits = []      # (pos, thread)
        self.ctl = []        # (pos, kind, cmd) completed backtrace control requests
        self.stops = []      # (pos, result code) of stop commands: 1 = the drain loop left through its empty branch
        self.shrinks = []    # (pos, thread, requested capacity, reported capacity or None when the thread was busy)
        self.ok = obs is not None
        if not self.ok: return
        for p, o in enumerate(obs):
            if o[0] == 'write': self.writes.append((p, o[1], o[2], o[3])); self.named_seen.append((p, o[1], o[2], o[4]))
            elif o[0] == 'sflush': self.sflush.append((p, o[1]))
            elif o[0] == 'note': self.notes.append((p, o[1], o[2]))
            elif o[0] == 'ctx': self.ctx.append((p, o[1]))
        clock = CLOCK0
        levels = {i: l for i, (l, _) in enumerate(case.loggers)}
        pending = {}          # thread -> ('log', id) | ('flush', id)
        dead = set()
        al = align(case, obs)
        k = 0
        def handle(c):
            nonlocal clock, k
            kind = c[0]
            if kind == 'tick': clock += c[1]; return
            if kind == 'setlevel': levels[c[1]] = c[2]; return
            if kind in ('setsinklevel',): return
            if kind in ('log', 'resume', 'flush', 'exit', 'ctx', 'initbt', 'flushbt', 'shrink', 'stop'):
                if k >= len(al) or al[k][0] is not c:
                    return
                code, pos = al[k][1], al[k][2]; k += 1
                if kind == 'log':
                    t, i, lgi, lvl = c[1], c[2], c[3], c[4]
                    d = dict(thread=t, logger=lgi, level=lvl, ts=clock, size=c[5], mode=c[6] % 10, static=10 <= c[6] < 20, named=c[6] >= 20, pos=pos, outcome=None, ret=None)
                    self.stmts[i] = d
                    if t in pending or t in dead: d['outcome'] = 'ignored'
                    elif lvl < levels[lgi]: d['outcome'] = 'filtered'
                    elif code == 2: d['outcome'] = 'parked'; pending[t] = ('log', i)
                    elif code == 1: d['outcome'] = 'accepted'; d['ret'] = pos; d['commit_clock'] = clock
                    else: d['outcome'] = 'dropped'; d['ret'] = pos
                elif kind == 'flush':
                    t, i = c[1], c[2]
                    f = dict(thread=t, start=pos, ret=None, ts=clock, logger=c[3])
                    if t in pending or t in dead: f['ignored'] = True
                    else:
                        self.flushes[i] = f
                        if code == 2: pending[t] = ('flush', i)
                        else: f['ret'] = pos
                elif kind == 'resume':
                    t = c[1]
                    if t in pending:
                        what, i = pending[t]
                        if code != 2:
                            del pending[t]
                            if what == 'log':
                                self.stmts[i]['outcome'] = 'accepted' if code == 1 else 'dropped'; self.stmts[i]['ret'] = pos; self.stmts[i]['commit_clock'] = clock
                            elif what == 'flush':
                                self.flushes[i]['ret'] = pos
                elif kind in ('initbt', 'flushbt'):
                    t = c[1]
                    if t in pending or t in dead: pass
                    elif code == 2: pending[t] = ('ctl', c[2])
                    else: self.ctl.append((pos, kind, c))
                elif kind == 'stop':
                    self.stops.append((pos, code))
                elif kind == 'shrink':
                    self.shrinks.append((pos, c[1], c[2], code if obs[pos][0] == 'cap' else None))
                elif kind == 'exit':
                    t = c[1]
                    if code == 1: dead.add(t); self.exits.append((pos, t))
        fired = list(FIRED)
        for c in case.cmds:
            if c[0] == 'poll':
                for (pid, y, v) in fired:
                    if pid == id(c):
                        for (y2, v2, cs) in c[1]:
                            if (y2, v2) == (y, v):
                                for s in cs: handle(s)
            else:
                handle(c)
        self.pending = pending
