"""C15 — time rotation separates statements at the configured daily/hourly/minute points.
Proof: Props/Properties_C15.v over the M-ROT model (Rotate/*.v). Tie: T-corr with the same harness as
C14 (harness/rot.cpp), start instants and record timestamps injected; monitor = separation at the
schedule's points, sharing without a point, names from the open instant — evaluated on the
implementation's directory listing with the schedule computed independently (zoneinfo)."""
import json, os, sys, datetime
from vlib import Check, standard_proof_phase, correspond, ddmin
from props.rot_common import *

PID = 'C15'
MANIFEST = dict(
    text='Machine-checked proof (Coq, all theorems closed under the global context) over the executable RotatingSink model: for every start instant and every non-decreasing timestamp sequence of one run (overwrite on, directory without files named stem.*.ext, live file initially empty) no file holds two statements with a rotation point of the schedule between them (C15_separates); a statement stays in the live file with everything written after it while no point passes and no size rotation fires (C15_shares); a rotated file carries strftime of the instant it was opened, equal suffixes get strictly increasing indices and names stay pairwise distinct (C15_name, C15_name_index_bump); the C14 theorems hold with time rotation enabled (C15_compose). The schedule premises are theorems for hourly/minutely rotation (points P0 + j*period; libc premise: the adjusted broken-down time lies in the future). For daily rotation they follow from the grid property of the next-point function (C15_schedule_daily), which is a theorem in GMT for every code variant (timegm is arithmetic: C15_schedule_daily_gmt) and, in local time, a theorem for the code variant (c_plus24 = false: HH:MM converted with tm_isdst = -1, the HH:MM of the next day through mktime with tm_mday + 1, fixes/C15-daily-dst.diff) from premises on the calendar of libc only - local days do not go backwards, the instant mktime gives for HH:MM of day d lies in day d, no premise about DST (C15_schedule_daily_local); the variant that stands for the source tree is read from it on every run (T-src: rot_facts, TieC15.v, C15_code_variant). For the earlier variant (+ 24 h, tm_isdst of the current instant) the grid property is refuted with the real libc values of a DST-change day (daily_dst_grid_refuted, finding C15-daily-dst, repaired; daily_dst_code_example shows the repaired result). sched_drift_refuted replays the pre-fix behaviour (D7, fixed). Tied to the real RotatingFileSink by differential runs in GMT and five local zones, with daily schedules across DST changes and HH:MM inside the skipped / repeated hour (0 disagreements); the monitor computes the schedule independently with zoneinfo (a day whose HH:MM occurs twice: a rotation at either instant is accepted, the choice is that of the C library).',
    design='5 C15', technique='Coq invariant proof over an executable model + extracted-model/implementation differential correspondence in a scratch directory')
TRUSTED = [
    'Coq 8.16.1 kernel (coqc, vm_compute for refutation / non-vacuity examples; no native_compute)',
    'axioms: none (every theorem Closed under the global context); libc (strftime, localtime/gmtime + mktime/timegm) is a Section variable; for daily rotation in local time the premises on it are the calendar properties stated in C15_schedule_daily_local (they fail for an HH:MM inside a repeated hour, where mktime with tm_isdst = -1 is ambiguous: such days are covered by the correspondence and the monitor only)',
    'T-src: tools/srcfacts.py rot_facts (clang 14 JSON AST skeleton of RotatingSink::_calculate_initial_rotation_tp) decides the model flag c_plus24; TieC15.v pins the skeleton by vm_compute; that the Gallina variant c_plus24 = false is faithful to that text is by inspection (and sampled by the correspondence on every run)',
    'extraction: ExtrOcamlBasic only, OCaml 4.13.1 ocamlopt, extract/driver.ml; oracle table filled from the real libc by harness/rot.cpp (direct libc calls, not through quill)',
    'correspondence harness harness/rot.cpp (TZ set per case with setenv + tzset; glibc mktime answers an ambiguous local time from the UTC offset remembered from its previous call: the harness primes it with mktime(localtime(t)) before every sink call at instant t and before the oracle calls for t), g++ -fsanitize=address,undefined; the monitor computes the schedule with python zoneinfo (system tzdata)',
    'modelled rather than verified: RotatingSink.h is re-stated in Gallina (Rotate/RotModel.v); the do/while that advances the hourly/minutely point is modelled by its closed form (period > 0); uint64 overflow of instants not modelled',
]

_trans = {}
def transitions(zone):
    """UTC instants in 2023 where the zone's offset changes"""
    if zone in _trans: return _trans[zone]
    tz = ZoneInfo(zone); out = []
    t = 1672531200; prev = datetime.datetime.fromtimestamp(t, tz).utcoffset()
    while t < 1704067200:
        t += 1800
        o = datetime.datetime.fromtimestamp(t, tz).utcoffset()
        if o != prev: out.append(t)
        prev = o
    _trans[zone] = out
    return out


def gen(rng, n):
    cases = []; ids = [0]
    def nid():
        ids[0] += 1; return ids[0]
    while len(cases) < n:
        freq = rng.choice([1, 1, 2, 3, 3])
        gmt = rng.choice([1, 0, 0]); zone = rng.randrange(1, 6)
        c = default_case(freq=freq, gmt=gmt, zone=zone, scheme=rng.choice([0, 1, 2, 2]),
                         limit=rng.choice([0, 0, 512]), maxb=rng.choice([UNLIMITED, UNLIMITED, 3, 2, 1]), over=rng.choice([1, 1, 1, 1, 0]))
        if freq == 1:
            c['hh'], c['mm'] = rng.choice([(0, 0), (2, 0), (2, 30), (12, 0), (23, 59), (3, 17), (rng.randrange(24), rng.randrange(60))])
            per = 86400
        else:
            c['interval'] = rng.choice([1, 1, 2, 3, 7])
            per = c['interval'] * (3600 if freq == 2 else 60)
        tr = transitions(ZONES[zone]) if not gmt else []
        aimed = None
        if tr and freq == 1 and rng.random() < 0.3:
            # HH:MM inside / at the edge of the hour skipped or repeated by a change of the zone offset
            aimed = rng.choice(tr)
            w = datetime.datetime.fromtimestamp(aimed, ZoneInfo(ZONES[zone])) + datetime.timedelta(minutes=rng.choice([-61, -60, -59, -31, -30, -29, -1, 0, 1, 29, 30, 59, 60]))
            c['hh'], c['mm'] = w.hour, w.minute
        if aimed is not None:
            start = aimed - rng.randrange(0, 60 * 3600)
        elif tr and rng.random() < 0.6:
            start = rng.choice(tr) - rng.randrange(0, 36 * 3600)
        else:
            start = 1672531200 + rng.randrange(0, 365 * 86400)
        start_ns = start * NS + rng.choice([0, 0, 1, 999999999, rng.randrange(NS)])
        horizon = start_ns + int(9 * per * NS)
        pts = grid_points(c, start_ns, start_ns, horizon)
        ops = [('R', rng.choice([0, 1]), 1, start_ns)]
        t = start_ns
        style = rng.choice(['boundary', 'boundary', 'gaps', 'dense', 'mixed'])
        nst = rng.randint(4, 14)
        pi = 0
        for _ in range(nst):
            r = rng.random()
            if style in ('boundary', 'mixed') and pts and r < 0.6:
                # a statement at g-1, g or g+1 (ns) of the next point after t, or of a later one
                later = [g for g in pts if g + 1 >= t]
                if later:
                    g = later[0] if rng.random() < 0.7 else rng.choice(later[:4])
                    t = max(t, g + rng.choice([-1, 0, 1, -NS, NS - 1]))
                else:
                    t += rng.choice([0, NS])
            elif style in ('gaps', 'mixed') and r < 0.85:
                t += int(rng.choice([0.5, 1, 1, 7.3, 0.01, 2.5]) * per * NS)
            else:
                t += rng.choice([0, 1, NS, per * NS // 7, 3 * NS])
            w = rng.choice([50, 100, 200, 200, 256, 600]) if c['limit'] else rng.choice([20, 50])
            ops.append(('W', nid(), t, w, w))
        c['ops'] = ops
        cases.append(unparse(c))
    return cases


def dst_shape(case):
    """None, or for a daily schedule in a local zone whose span [start, last timestamp] holds a change of the zone
    offset: 'crossing' | 'ambiguous' (HH:MM occurs twice on a day of the span) | 'skipped' (HH:MM does not exist
    on a day of the span)"""
    c = parse(case)
    if c['freq'] != 1 or c['gmt'] or not c['ops']: return None
    lo = c['ops'][0][3]; hi = max([o[2] for o in c['ops'][1:] if o[0] == 'W'] or [lo])
    if not any(lo // NS < t <= hi // NS for t in transitions(ZONES[c['zone']])): return None
    tz = zone_of(c); shape = 'crossing'
    for d, cands in daily_days(c, lo, hi):
        if len(cands) == 2: shape = 'ambiguous'
        else:
            back = datetime.datetime.fromtimestamp(cands[0] // NS, tz)
            if (back.hour, back.minute) != (c['hh'], c['mm']): return 'skipped'
    return shape


def nontrivial(case, impl_line):
    """at least one time rotation (two sink files hold statements) and one pair of consecutive statements sharing a file"""
    if impl_line.startswith('RAW'): return False
    c = parse(case)
    files = json.loads(impl_line)[-1]
    sink = [f for f in files if classify(c, f[0])[0] != 'other']
    return sum(1 for f in sink if f[2]) >= 2 and any(len(f[2]) >= 2 for f in sink)


def monitor(case, impl_line):
    # C15_compose: the C14 clauses hold as well
    return monitor_c15(case, impl_line) or monitor_c14(case, impl_line)


def run(tier):
    ck = Check(PID, tier)
    broken = standard_proof_phase(ck, 'Properties_C15')
    read_variant(ck)
    mexe, err = ck.build_modelrun()
    if not mexe:
        ck.violation('no-failing-input-found', 'model extraction/build failed: ' + err[-400:]); return ck.finish(trusted=TRUSTED)
    iexe, err = ck.build_harness('rot', ['rot.cpp'])
    if not iexe:
        ck.violation('no-failing-input-found', 'harness rot.cpp does not compile against the repo: ' + err[-600:])
        return ck.finish(trusted=TRUSTED)
    n = 3000 if tier == "quick" else 40000
    cor = corpus(PID)
    cases = cor + gen(ck.rng, n)
    ml, il, tabs = run_both(ck, mexe, iexe, cases)

    def both(case):
        m, i, _ = run_both(ck, mexe, iexe, [case]); return m[0], i[0]

    ck.findings = json.load(open(os.path.join(os.path.dirname(os.path.dirname(os.path.abspath(__file__))), 'known_findings.d', PID + '.json')))
    findings = {f['id']: f for f in ck.known_for()}

    def known_match(case, impl_line, msg):
        return None                     # no open finding of C15 (D7 and C15-daily-dst are repaired)

    def shrink(case, mode):
        c = parse(case)
        head, rest = c['ops'][:1], c['ops'][1:]
        def fails(o):
            c2 = dict(c); c2['ops'] = head + o
            s = unparse(c2); m, i = both(s)
            if mode == 'monitor':
                msg = monitor(s, i)
                return msg is not None and known_match(s, i, msg) is None
            return m != i
        c2 = dict(c); c2['ops'] = head + ddmin(rest, fails)
        return unparse(c2)

    dis, mon = correspond(ck, 'M-ROT vs RotatingFileSink', cases, ml, il, monitor=monitor, shrink=shrink, known_match=known_match)
    if broken and not ck.violations:
        ck.violation('no-failing-input-found', '; '.join(broken))
    nt = len(set(c for c, i in zip(cases, il) if nontrivial(c, i)))
    hist = {}
    for cs in cases:
        c = parse(cs)
        for k in (FREQS[c['freq']], SCHEMES[c['scheme']], 'GMT' if c['gmt'] else ZONES[c['zone']], 'size-rotation' if c['limit'] else 'time-only',
                  'maxb=%s' % ('inf' if c['maxb'] == UNLIMITED else c['maxb'])):
            hist[k] = hist.get(k, 0) + 1
    shapes = {}
    for cs, i in zip(cases, il):
        sh = dst_shape(cs)
        if sh:
            shapes['daily_local_dst_' + sh] = shapes.get('daily_local_dst_' + sh, 0) + 1
            if nontrivial(cs, i): shapes['daily_local_dst_' + sh + '_nontrivial'] = shapes.get('daily_local_dst_' + sh + '_nontrivial', 0) + 1
    return ck.finish(trusted=TRUSTED, samples=cases[:2] + cases[-2:],
                     rule='one construct then write_log with non-decreasing injected timestamps (case line: see harness/rot.cpp); timestamps at g-1/g/g+1 ns of schedule points, gaps of 0.5/1/7.3 periods, DST days for daily/hourly in local zones (30% of the daily local cases put HH:MM at -61..+60 minutes around the wall clock of a change of the zone offset: skipped and repeated HH:MM), size rotation in the same period; non-trivial = at least two sink files hold statements and two statements share a file; distinct by case text',
                     evaluations=len(cases), distinct_nontrivial=nt, traces=len(cases) - len(dis) - len(mon),
                     extra_cov={'disagreements': len(dis), 'monitor_failures': len(mon), 'corpus_cases': len(cor), 'generator_histogram': hist,
                                'daily_schedules_across_a_dst_change': shapes})


def replay(path):
    d = json.load(open(path))
    ck = Check(PID, 'quick')
    ck.srcfacts(); read_variant()
    mexe, _ = ck.build_modelrun(); iexe, _ = ck.build_harness('rot', ['rot.cpp'])
    c = d.get('case')
    if not c:
        print('replay holds no concrete case; broken:', d.get('broken')); return 1
    ml, il, _ = run_both(ck, mexe, iexe, [c])
    cc = parse(c)
    print('case :', c)
    print('model variant (T-src): c_cntacct=%(cntacct)d c_plus24=%(plus24)d' % VARIANT)
    print('config: freq=%s interval=%d daily=%02d:%02d zone=%s scheme=%s limit=%d max_backup=%s overwrite=%d' % (
        FREQS[cc['freq']], cc['interval'], cc['hh'], cc['mm'], 'GMT' if cc['gmt'] else ZONES[cc['zone']], SCHEMES[cc['scheme']], cc['limit'], cc['maxb'], cc['over']))
    tz = zone_of(cc)
    for o in cc['ops']:
        t = o[3] if o[0] == 'R' else o[2]
        print('  op', o, datetime.datetime.fromtimestamp(t // NS, tz).isoformat())
    print('model:', ml[0]); print('impl :', il[0])
    msg = monitor(c, il[0]); print('monitor:', msg)
    return 1 if msg or ml[0] != il[0] else 0
