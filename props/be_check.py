"""Generic runner for the properties decided on M-BE through the deterministic backend driver."""
import copy, json, os
from vlib import Check, standard_proof_phase, correspond, ddmin
from props.c01 import srcfacts_values
import be_common as BC

TRUSTED_BE = [
    'Coq 8.16.1 kernel (vm_compute for witnesses; no native_compute); every theorem Closed under the global context',
    'M-BE is sequentially consistent at micro-step granularity (queue-internal weak memory is C01/C02; cross-thread visibility latency is what the grace period absorbs)',
    'tools/srcfacts.py (clang 14 JSON AST): order "clock read / cache refresh", catch coverage, counter width, commit_read guard are read from /repo on every run and passed to the model',
    'extraction: ExtrOcamlBasic only; extract/driver.ml; deterministic driver harness/be.cpp (recording sinks, capturing notifier, worker threads parked through interposed nanosleep/clock_gettime, virtual clock) and the QUILL_VERIF yield points in BackendWorker.h',
    'modelled rather than verified: the backend loop is re-stated in Gallina (Backend/BEDefs.v); libfmt, PatternFormatter (C12), the byte codec (C04), real sinks and the OS are outside this model',
]


def run_be(PID, prop_file, gen, monitor, nontrivial, rule, n_quick=400, n_thorough=20000, trusted=None, corpus_cases=None,
           known_match=None, extra_cov=None, extra_phase=None):
    tier = os.environ.get('VERIF_TIER_OVERRIDE')  # unused
    def run(tier):
        ck = Check(PID, tier)
        broken = standard_proof_phase(ck, prop_file)
        facts = srcfacts_values()
        ck.tie.append({'T-src facts': {k: facts.get(k) for k in ('be_refresh_after_clock', 'be_format_catch_all', 'be_format_catch_std',
                                                                  'be_pop_before_flag', 'be_report_before_ctx_removal', 'tcm_invalid_count_bits', 'bq_publish_on_drain')}})
        mexe, err = ck.build_modelrun()
        if not mexe:
            ck.violation('no-failing-input-found', 'model extraction/build failed: ' + err[-400:]); return ck.finish(trusted=trusted or TRUSTED_BE)
        iexe, err = ck.build_harness('be', ['be.cpp'], flags=['-ldl'], san=(tier != 'quick'))
        if not iexe:
            ck.violation('no-failing-input-found', 'harness be.cpp does not compile against /repo: ' + err[-600:]); return ck.finish(trusted=trusted or TRUSTED_BE)
        n = n_quick if tier == 'quick' else n_thorough
        cobjs = list(corpus_cases(facts) if corpus_cases else []) + [gen(ck.rng, facts) for _ in range(n)]
        lines = [c.line() for c in cobjs]
        byline = dict(zip(lines, cobjs))
        ml = ck.run_model(mexe, lines)
        il = ck.run_impl(iexe, lines, timeout=600, per_case_timeout=15, max_fail=8, stall=15)
        if 'NOTRUN' in il:   # after 8 crashes/hangs (each one is reported) the remaining cases are not run
            keep = [k for k, i in enumerate(il) if i != 'NOTRUN']
            lines = [lines[k] for k in keep]; ml = [ml[k] for k in keep]; il = [il[k] for k in keep]; cobjs = [cobjs[k] for k in keep]

        mon_only = []

        def mon(line, impl):
            c = byline.get(line)
            if impl.startswith(('CRASH', 'HANG', 'NOOUTPUT')):
                return 'implementation ' + impl
            return monitor(c, BC.parse_obs(impl)) if c is not None else None

        def shrink(line, mode):
            """ddmin on the command list; a trial gets 3 s (a case runs in milliseconds, a hanging variant must not
            cost the whole timeout) and the whole shrink 90 s of wall clock"""
            import time
            c0 = byline[line]
            t_end = time.time() + 90
            ntail = getattr(c0, 'keep_tail', 0)      # the closing drain phase of a case is never shrunk away
            tail = c0.cmds[len(c0.cmds) - ntail:] if ntail else []
            head0 = c0.cmds[:len(c0.cmds) - ntail] if ntail else c0.cmds
            def mk(cmds):
                c = copy.copy(c0); c.cmds = list(cmds) + tail; return c
            def run1(l):
                return ck.run_impl(iexe, [l], per_case_timeout=3)[0]
            def msg_of(c):
                i = run1(c.line())
                if i.startswith(('CRASH', 'HANG', 'NOOUTPUT')): return i.split()[0]
                m = monitor(c, BC.parse_obs(i))
                return None if m is None else ''.join(ch for ch in m if not ch.isdigit())[:40]
            orig = msg_of(mk(head0)) if mode == 'monitor' else None
            def fails(cmds):
                if time.time() > t_end: return False
                c = mk(cmds)
                if mode == 'monitor':
                    return msg_of(c) == orig          # the same kind of failure, not just any failure
                l = c.line(); i = run1(l)
                return ck.run_model(mexe, [l])[0] != i
            return mk(ddmin(head0, fails, max_tests=150)).line()

        km = None
        if known_match:
            km = lambda line, impl, msg: known_match(byline.get(line), impl, msg)
        dis, mons = correspond(ck, 'M-BE vs backend driver', lines, ml, il, monitor=mon, shrink=shrink, known_match=km)
        phase_cov = extra_phase(ck, tier, broken) if extra_phase else None   # optional property-specific search (may add violations)
        abs_cov = mbe_abstraction_search(ck, broken)
        if broken and not ck.violations:
            ck.violation('no-failing-input-found', '; '.join(broken))
        nt = len(set(l for l, i in zip(lines, il) if not i.startswith(('CRASH', 'HANG', 'NOOUTPUT')) and nontrivial(byline[l], BC.parse_obs(i))))
        hist = {}
        for c in cobjs:
            for cmd in c.cmds:
                hist[cmd[0]] = hist.get(cmd[0], 0) + 1
                if cmd[0] == 'poll':
                    hist['injected'] = hist.get('injected', 0) + sum(len(cs) for _, _, cs in cmd[1])
        cov = {'disagreements': len(dis), 'monitor_failures': len(mons), 'command_histogram': hist,
               'queue_kinds': {'bounded_blocking': sum(1 for c in cobjs if c.dropping == 0), 'bounded_dropping': sum(1 for c in cobjs if c.dropping == 1), 'unbounded_blocking': sum(1 for c in cobjs if c.dropping == 2)}}
        cov['monitor_only_cases_unbounded_queue'] = len(mon_only)
        if extra_cov: cov.update(extra_cov)
        if phase_cov: cov.update(phase_cov)
        if abs_cov: cov['abstraction_search'] = abs_cov
        return ck.finish(trusted=trusted or TRUSTED_BE, samples=[lines[0][:600], lines[-1][:600]], rule=rule,
                         evaluations=len(lines), distinct_nontrivial=nt, traces=len(lines) - len(dis) - len(mons), extra_cov=cov)
    return run


def mbe_abstraction_search(ck, broken):
    """when the T-src facts behind M-BE's two abstractions (atomic FIFO queues; atomic registration / cache refresh) no
    longer hold (theorem Cxx_tie_MBE_abstractions undischarged) and nothing concrete was found on the driver, which runs
    one thread at a time: look for a failing input where such a fault shows - real threads on the registration protocol
    (harness/reg_mt.cpp, C03) and on the unbounded queue (harness/uq_mt.cpp, C02)"""
    if ck.violations or not any('tie_MBE_abstractions' in b for b in broken): return None
    import props.c03 as c03, props.c02 as c02
    out = {}
    exe, err = ck.build_harness('reg_mt', ['reg_mt.cpp'], flags=c03.REG_FLAGS, san=False)
    if exe:
        cases, il, rounds = c03.reg_runs(ck, exe, 'quick')
        bad = [(c, i, c03.reg_monitor(c, i)) for c, i in zip(cases, il) if i != 'NOTRUN' and c03.reg_monitor(c, i)]
        out['registration_runs'] = len(cases); out['registration_mismatches'] = len(bad)
        if bad:
            c0, i0, m0 = min(bad, key=lambda x: int(x[0].split()[1]) * int(x[0].split()[2]))
            ck.violation('impl-failing-input', 'registration / cache refresh are not the atomic steps M-BE assumes - real threads on ThreadContextManager + BackendWorker::_update_active_thread_contexts_cache '
                         '(harness/reg_mt.cpp): ' + m0 + ' [for this property: the statements of such a thread are never read, ordered, flushed, counted or reclaimed]',
                         case=c0, expected='every registered context is in the backend\'s cache', observed=i0,
                         extra={'note': 'the outcome depends on the thread interleaving: repeat the case (./check C03 --replay repeats it up to 2000 times)'})
            return out
    qmsg, qinfo = c02.mt_runs(ck, 'quick')
    out['queue_two_thread_search'] = qmsg or 'no failure'
    if qmsg:
        ck.violation('impl-failing-input', 'a thread\'s queue is not the FIFO M-BE assumes - two real threads over UnboundedSPSCQueue: ' + qmsg, case=qinfo,
                     expected='OK (every record once, in order, intact)', observed=qmsg)
    return out


def be_driver_phase(ck, tier, gen, monitor, n_quick, n_thorough, name):
    """the backend-driver correspondence + a property monitor as a phase of another check (used by C07 for the drain
    of exited threads' statements): model vs implementation on generated cases, monitor on the implementation;
    violations are added to ck; returns coverage numbers"""
    facts = srcfacts_values()
    mexe, err = ck.build_modelrun()
    iexe, err2 = ck.build_harness('be', ['be.cpp'], flags=['-ldl'], san=(tier != 'quick'))
    if not mexe or not iexe:
        ck.violation('no-failing-input-found', 'backend driver or model did not build: ' + (err or err2 or '')[-400:]); return {'built': False}
    n = n_quick if tier == 'quick' else n_thorough
    cobjs = [gen(ck.rng, facts) for _ in range(n)]
    lines = [c.line() for c in cobjs]; byline = dict(zip(lines, cobjs))
    ml = ck.run_model(mexe, lines)
    il = ck.run_impl(iexe, lines, timeout=600, per_case_timeout=15, max_fail=8, stall=15)
    keep = [k for k, i in enumerate(il) if i != 'NOTRUN']
    lines = [lines[k] for k in keep]; ml = [ml[k] for k in keep]; il = [il[k] for k in keep]
    def mon(line, impl):
        if impl.startswith(('CRASH', 'HANG', 'NOOUTPUT')): return 'implementation ' + impl
        return monitor(byline[line], BC.parse_obs(impl))
    def shrink(line, mode):
        import time
        c0 = byline[line]; t_end = time.time() + 60
        ntail = getattr(c0, 'keep_tail', 0)      # the closing drain / stop phase of a case is never shrunk away
        tail = c0.cmds[len(c0.cmds) - ntail:] if ntail else []
        def mk(cmds):
            c = copy.copy(c0); c.cmds = list(cmds) + tail; return c
        def msg_of(c):
            i = ck.run_impl(iexe, [c.line()], per_case_timeout=3)[0]
            if i.startswith(('CRASH', 'HANG', 'NOOUTPUT')): return i.split()[0]
            m = monitor(c, BC.parse_obs(i))
            return None if m is None else ''.join(ch for ch in m if not ch.isdigit())[:40]
        orig = msg_of(mk(c0.cmds[:len(c0.cmds) - ntail] if ntail else c0.cmds)) if mode == 'monitor' else None
        def fails(cmds):
            if time.time() > t_end: return False
            c = mk(cmds)
            if mode == 'monitor':
                return msg_of(c) == orig          # the same kind of failure, not just any failure (a shrunk case without its drain fails trivially)
            l = c.line(); i = ck.run_impl(iexe, [l], per_case_timeout=3)[0]
            return ck.run_model(mexe, [l])[0] != i
        return mk(ddmin(c0.cmds[:len(c0.cmds) - ntail] if ntail else c0.cmds, fails, max_tests=120)).line()
    dis, mons = correspond(ck, name, lines, ml, il, monitor=mon, shrink=shrink)
    return {'driver_cases': len(lines), 'disagreements': len(dis), 'monitor_failures': len(mons)}


def replay_be(PID, monitor):
    def replay(path):
        d = json.load(open(path)); ck = Check(PID, 'quick'); c = d.get('case')
        if not isinstance(c, str):
            print(json.dumps(d, indent=1)[:3000]); return 1
        mexe, _ = ck.build_modelrun(); iexe, _ = ck.build_harness('be', ['be.cpp'], flags=['-ldl'], san=False)
        i = ck.run_impl(iexe, [c], per_case_timeout=15)[0]
        print('case :', c); print('model:', ck.run_model(mexe, [c])[0]); print('impl :', i)
        print('broken:', d.get('broken'))
        return 1
    return replay
