"""C05 — output is in global timestamp order when enqueues respect the grace period.
Proof: Props/Properties_C05.v (M-BE refines the timestamp skeleton; ordering invariant; D5 and grace-0
refutations). Tie: T-src (order "clock read / cache refresh") + T-corr through the driver with a virtual clock."""
from be_common import Case, Track, HDR_LOG
from be_check import run_be, replay_be

PID = 'C05'
MANIFEST = dict(
    text='Machine-checked (Coq): the backend micro-step model refines a timestamp skeleton (every micro-step is matched by skeleton steps: proved simulation), and the skeleton\'s ordering invariant holds for every op list; hence for every interleaving of clock reads, registrations, enqueues and backend steps over any number of threads, every capacity and soft/hard limit, the sequence of events the backend processes is sorted by timestamp, provided the grace period is non-zero, the cache is refreshed again after the clock read (read from the source each run), formatter exceptions are contained, and each statement is committed within the grace period of its timestamp (C05_sorted). The pinned tree\'s order is refuted (D5, fixed) and so is a zero grace period (documented meaning). Model run against the real backend with a virtual clock (interposed clock_gettime), threads stalled between clock read and enqueue, first-time threads injected at the yield points around the clock read; monitor on the implementation: written timestamps non-decreasing whenever the run respected the grace period. Scope: one ideal clock (TSC drift/resync not modelled), user clocks excluded as in the code, SC at micro-step granularity. Queue kinds: bounded blocking, bounded dropping and UnboundedBlocking frontends (the default type; initial node 256/1024 bytes so that queues grow). For unbounded frontends the thread record of M-BE carries the node structure of the queue (the sequential layer of M-UQ, updated at every queue call; it decides the backend\'s per-call read limit = capacity of the consumer\'s current node) next to a byte queue too large to fill; the theorems quantify over every initial node structure (premise fresh_thr) and every capacity, and the extracted model is compared with the real backend on growing queues as well.',
    design='5 C05', technique='Coq refinement proof (backend micro-step machine -> timestamp skeleton) + ordering invariant + source-fact translator + deterministic-driver differential correspondence')

GRACES = [1000, 1000, 5000]


def gen(rng, facts):
    g = rng.choice(GRACES)
    ns = 1; nl = rng.randint(1, 2)
    soft = rng.choice([1, 1, 2, 8]); hard = rng.choice([h for h in (1, 2, 4, 8, 16) if h >= soft])
    c = Case(dropping=rng.choice([0, 0, 1, 2, 2]), capk=rng.choice([8, 10]), tinit=rng.choice([1, 2, 4]), soft=soft, hard=hard,
             grace=g, loggers=[(0, [0]) for _ in range(nl)], sinks=[(0, [])], facts=facts)
    nt = rng.randint(2, 5)
    pads = [0, 0, 5]
    def a_log(t, stall=False):
        return ('log', t, None, rng.randrange(nl), 4, HDR_LOG + rng.choice(pads), 0, stall)
    def fresh(cmd):
        l = list(cmd); l[2] = c.next_id; c.next_id += 1; return tuple(l)
    if c.dropping == 2 and rng.random() < 0.25:
        # shrink the queue, then a statement that does not fit the shrunken node (it lands in a node further down the
        # chain), then a later statement of another thread
        a = rng.randrange(nt); b = (a + 1) % nt
        if rng.random() < 0.5: c.cmds.append(fresh(a_log(a))); c.poll(); c.poll()
        c.shrink(a, rng.choice([64, 128, 128, 256]))
        big = c.next_id; c.next_id += 1
        c.cmds.append(('log', a, big, 0, 4, HDR_LOG + rng.choice([100, 230, 500]), 0, False))
        c.tick(1); c.cmds.append(fresh(a_log(b))); c.tick(rng.choice([2 * g, g + 1]))
        for _ in range(rng.randint(1, 3)): c.poll()
    if c.dropping == 2 and rng.random() < 0.6:
        # unbounded queue growing to a new node: 64-byte records fill a node exactly; the hard limit stops the read
        # on or around the node boundary while another thread holds a later timestamp
        pads = [19]
        per_node = (1 << c.capk) // 64
        c.hard = rng.choice([per_node, per_node, per_node // 2, 2 * per_node]); c.soft = rng.choice([1, 2, min(4, c.hard), c.hard])
        a = rng.randrange(nt); b = (a + 1) % nt
        if rng.random() < 0.5: c.cmds.append(fresh(a_log(b))); c.tick(g + 1); c.poll(); c.poll()
        for _ in range(c.hard + rng.randint(1, per_node + 2)): c.cmds.append(fresh(a_log(a)))
        c.tick(1); c.cmds.append(fresh(a_log(b))); c.tick(rng.choice([2 * g, g + 1, 5000000]))
        for _ in range(rng.randint(1, 4)): c.poll()
    for _ in range(rng.randint(6, 45)):
        r = rng.random(); t = rng.randrange(nt)
        if r < 0.35: c.cmds.append(fresh(a_log(t)))
        elif r < 0.45:
            # stall between clock read and enqueue for {0, g-1, g, g+1} ticks, other threads log meanwhile
            c.cmds.append(fresh(a_log(t, stall=True)))
            d = rng.choice([0, g - 1, g, g + 1, g // 2])
            if d: c.tick(d)
            u = rng.randrange(nt)
            if u != t and rng.random() < 0.7: c.cmds.append(fresh(a_log(u)))
            if rng.random() < 0.5:
                # a moment later (still inside the grace period of the stalled statement) the backend polls: the other
                # thread's later statement must wait (a cut-off that is too lenient lets it overtake)
                if rng.random() < 0.6: c.tick(rng.choice([1, 2, max(1, g // 4)]))
                c.poll()
            if rng.random() < 0.4:
                # the stalled statement is enqueued in the middle of the backend's pass, between two queue reads, and time
                # passes before the next queue is read (a cut-off taken per queue instead of once per pass shows here)
                c.poll([(3, rng.choice([0, 1, 1, 2]), [('resume', t), ('tick', rng.choice([g + 1, 2 * g, 1]))])])
            else:
                c.resume(t)
        elif r < 0.6: c.tick(rng.choice([1, g - 1, g, g + 1, 2 * g, 10]))
        elif r < 0.65: c.resume(t)
        else:
            inj = []
            if rng.random() < 0.5:
                y = rng.choice([1, 1, 2, 2, 3, 4]); v = rng.choice([0, 0, 1])
                u = rng.randrange(nt + 2)       # maybe a first-time thread
                cs = [fresh(a_log(u))]
                if rng.random() < 0.5: cs.append(('tick', rng.choice([1, g, g + 1])))
                if rng.random() < 0.4: cs.append(fresh(a_log(rng.randrange(nt))))
                inj.append((y, v, cs))
            c.poll(inj)
    c.mark_tail()
    for _ in range(4):
        for t in range(nt + 2): c.resume(t)
        c.tick(3 * g)
        for _ in range(12): c.poll()
    return c


def corpus_cases(facts):
    # D5 replay: a first-time thread registers and logs between the cache refresh and the clock read (yield 1)
    c = Case(grace=1000, soft=4, hard=8, facts=facts)
    c.log(0); c.tick(5000); c.poll(); c.poll()
    c.poll([(1, 0, [('log', 1, 2, 0, 4, HDR_LOG, 0, False), ('tick', 1), ('log', 0, 3, 0, 4, HDR_LOG, 0, False), ('tick', 2000)])]); c.next_id = 4
    for _ in range(4): c.poll()
    # D17 replay: shrink to 128 bytes, then a 145-byte statement (it lands in a third node, the 128-byte node stays
    # unused), then another thread's later statement: the pass must not skip the first thread's statement
    d = Case(dropping=2, capk=8, tinit=4, soft=4, hard=8, grace=1000, facts=facts)
    d.shrink(0, 128); d.log(0, pad=100); d.tick(1); d.log(1); d.tick(5000)
    for _ in range(4): d.poll()
    return [c, d]


def monitor(case, obs):
    tr = Track(case, obs)
    if not tr.ok: return 'no observations'
    g = case.grace
    if g == 0: return None
    within = all(d.get('commit_clock', d['ts']) <= d['ts'] + g for d in tr.stmts.values() if d['outcome'] == 'accepted')
    if not within: return None       # the premise of the property does not hold for this run
    last = None
    for pos, k, i, lvl in tr.writes:
        d = tr.stmts.get(i)
        if d is None: continue
        if last is not None and d['ts'] < last[1]:
            return 'statement %d (timestamp +%d) written after statement %d (timestamp +%d) although every enqueue respected the grace period' % (
                i, d['ts'] - 1700000000000000000, last[0], last[1] - 1700000000000000000)
        last = (i, d['ts'])
    return None


def nontrivial(case, obs):
    tr = Track(case, obs)
    if not tr.ok: return False
    acc = [d for d in tr.stmts.values() if d['outcome'] == 'accepted']
    return len(set(d['thread'] for d in acc)) >= 2 and len(set(d['ts'] for d in acc)) >= 3


RULE = ('virtual-clock schedules: 2-5 threads (+ first-time threads), statements stalled between clock read and enqueue for {0, g-1, g, g+1, g/2} ticks (resumed at top level or between two queue reads of a pass, followed by a clock jump), ticks of {1, g-1, g, g+1, 2g}, '
        'log calls injected at the yield points after the first cache refresh (Y1), after the clock read (Y2), between queue reads (Y3) and in the batch loop (Y4), soft limit 1 (always batch) to 8, '
        'grace 1000/5000 ticks, bounded blocking, bounded dropping and unbounded (growing) queues, bursts of 64-byte records that fill a node exactly with the hard limit on/around the node boundary; non-trivial = accepted statements from >= 2 threads with >= 3 distinct timestamps; the monitor applies when every accepted statement was committed within the grace period; distinct by case text')

def gen_stop_order(rng, facts):
    """the shutdown drain writes in timestamp order too: 2-4 threads log with the clock moving between the calls (all
    within the grace period), at least one of them more statements than the hard limit / the transit buffer holds (so its
    queue is read in several passes of the drain) or more bytes than a queue node; a few polls may run before; then the
    stop command (BackendWorker::_exit on the driver, the clock moving per loop iteration)"""
    nt = rng.randint(2, 4)
    soft = rng.choice([1, 2, 4]); hard = rng.choice([h for h in (2, 4, 8) if h >= soft])
    g = rng.choice([1000, 5000])
    c = Case(dropping=rng.choice([0, 2, 2]), capk=rng.choice([8, 10]), tinit=rng.choice([2, 4]), soft=soft, hard=hard, grace=g, facts=facts)
    order = list(range(nt)); rng.shuffle(order)
    for t in order:
        n = rng.choice([1, 2, hard - 1, hard, hard + 1, 2 * hard + 1, 3 * hard]) if rng.random() < 0.8 else rng.randint(1, 12)
        for _ in range(max(1, n)):
            c.log(t, pad=rng.choice([0, 0, 19])); c.tick(1)
        if rng.random() < 0.2: c.poll()
    if rng.random() < 0.3:
        for _ in range(rng.randint(1, 3)): c.poll()
    c.mark_tail()
    c.stop(rng.choice([g // 3, g, 5 * g]))
    c.ctx()
    return c


def stop_phase(ck, tier, broken):
    from be_check import be_driver_phase
    return be_driver_phase(ck, tier, gen_stop_order, monitor, 300, 10000, 'M-BE exit_drain vs BackendWorker::_exit on the backend driver (timestamp order of the shutdown drain)')


run = run_be(PID, 'Properties_C05', gen, monitor, nontrivial, RULE, n_quick=500, n_thorough=20000, corpus_cases=corpus_cases, extra_phase=stop_phase)
replay = replay_be(PID, monitor)
