"""C09 — a blocked log call resumes once the backend made room; no stall on an empty queue.
Proof: Props/Properties_C09.v (publish-on-drain invariant of the sequential queue model, every
history); refutation for the unfixed guard (D3). Tie: T-src (commit_read guard skeleton) + T-corr."""
import json, os
from vlib import Check, standard_proof_phase, correspond, ddmin
import bq_common as B
from props.c01 import srcfacts_values

PID = 'C09'
MANIFEST = dict(
    text='Machine-checked (Coq): for every capacity, batch threshold and history of writes/commits/reads/commit_reads of the bounded queue, whenever the consumer has read everything and has run commit_read since its last read (the backend pass discipline), the published reader position equals the real one and every record that fits the capacity is granted - so a blocking producer resumes and a dropping queue accepts (C09_no_stall, C09_published_exact), with the guard of commit_read read from the source on every run; the pinned tree\'s guard is refuted (D3, fixed). Tied to the real queue by differential runs and a direct monitor. Scope: bounded queue and the queue-level reason for progress; the unbounded-queue clause (D13 open) and the "finitely many backend polls" clause at backend level are not yet covered by a theorem here.',
    design='5 C09', technique='Coq invariant proof (publish-on-drain) over the sequential queue model + source-fact translator + differential correspondence')
TRUSTED = [
    'Coq 8.16.1 kernel; theorems Closed under the global context',
    'sequentially consistent interleaving of the queue methods (liveness under release/acquire additionally needs the C++ progress guarantee that a repeated load eventually returns the newest store)',
    'tools/srcfacts.py (commit_read guard), extraction ExtrOcamlBasic only, harness/bq.cpp',
    'modelled rather than verified: Queue/BQDefs.v re-states the methods; the backend read-pass discipline (commit_read after a pass that read something) is a premise, exercised end-to-end by the backend checks',
]


def gen_c09(rng):
    """histories that leave a small unpublished amount, drain, then ask for a big record"""
    wb = rng.choice([8, 16, 64]); k = rng.randint(3, {8: 7, 16: 12, 64: 12}[wb]); C = 1 << k
    pct = rng.choice([5, 5, 37, 100]); b = B.batch_of(C, pct)
    ref = B.Ref(C, b); ops = []
    for _ in range(rng.randint(1, 12)):
        small = rng.choice([1, max(1, b - 1), max(1, b // 2), rng.randint(1, max(1, min(C - 1, b + 3)))])
        small = min(small, C - 1, (1 << wb) - 1)
        ops.append(('W', small, 1)); ref.W(small, 1)
        for _ in range(rng.choice([1, 2, 3])):
            ops.append(('R',))
            if ref.R() is None: break
        ops.append(('CR',)); ref.CR()
        if rng.random() < 0.6:
            n = rng.choice([C, C - (ref.r - ref.ar), C - (ref.r - ref.ar) + 1, C - 1])
            n = max(1, min(n, (1 << wb) - 1))
            ops.append(('W', n, 1)); ref.W(n, 1)
            for _ in range(2):
                ops.append(('R',)); ref.R()
            ops.append(('CR',)); ref.CR()
    return B.unparse(['bq', str(wb), str(k), str(b), '1', '1', str(pct)], ops)


def run(tier):
    ck = Check(PID, tier)
    broken = standard_proof_phase(ck, 'Properties_C09')
    facts = srcfacts_values()
    ck.tie.append({'T-src facts': {k: facts.get(k) for k in ('bq_publish_on_drain', 'bq_publish_on_batch')}})
    mexe, err = ck.build_modelrun()
    if not mexe:
        ck.violation('no-failing-input-found', 'model extraction/build failed: ' + err[-400:]); return ck.finish(trusted=TRUSTED)
    iexe, err = ck.build_harness('bq', ['bq.cpp'])
    if not iexe:
        ck.violation('no-failing-input-found', 'harness bq.cpp does not compile against /repo: ' + err[-600:]); return ck.finish(trusted=TRUSTED)
    n = 1500 if tier == 'quick' else 60000
    cases = B.boundary_cases() + [gen_c09(ck.rng) for _ in range(n // 2)] + [B.gen_case(ck.rng) for _ in range(n // 2)]
    ml = ck.run_model(mexe, cases); il = ck.run_impl(iexe, cases)

    def shrink(case, mode):
        hdr, ops = B.parse(case)
        def fails(o):
            c = B.unparse(hdr, o); i = ck.run_impl(iexe, [c])[0]
            return (B.monitor_c09(c, i) is not None) if mode == 'monitor' else (ck.run_model(mexe, [c])[0] != i)
        return B.unparse(hdr, ddmin(ops, fails))
    dis, mon = correspond(ck, 'M-BQ sequential layer vs BoundedSPSCQueueImpl', cases, ml, il, monitor=B.monitor_c09, shrink=shrink)
    if broken and not ck.violations:
        if facts.get('bq_publish_on_drain') == 'false':
            ck.violation('model-witness', 'commit_read no longer publishes when the consumer has drained the queue; broken: ' + '; '.join(broken)[:300],
                         case='bq 64 10 51 1 0 5 0 36 1 2 2 3 0 996 1', expected='second write granted',
                         observed='refused for ever (theorem C09_stall_refuted_without_drain_publish)')
        else:
            ck.violation('no-failing-input-found', '; '.join(broken))
    # non-trivial: the history reaches a quiescent drained state with unpublished < batch and then asks for > C - unpublished
    def nt(case):
        hdr, ops = B.parse(case); C = 1 << int(hdr[2]); ref = B.Ref(C, int(hdr[3]), on_drain=False); hit = False
        for o in ops:
            if o[0] == 'W':
                if ref.w == ref.r and not ref.dirty and ref.ar != ref.r and o[1] > C - (ref.r - ref.ar): hit = True
                # steer the reference with the fixed behaviour: grant whenever it really fits
                if o[1] <= C - (ref.w - ref.r): ref.rc = ref.r; ref.ar = max(ref.ar, 0); ref.W(o[1], o[2])
            elif o[0] == 'R': ref.R()
            elif o[0] == 'CR': ref.CR()
            elif o[0] == 'CW': ref.CW()
            elif o[0] == 'E': ref.E()
        return hit
    ntc = len(set(c for c in cases if nt(c)))
    return ck.finish(trusted=TRUSTED, samples=[cases[0], cases[-1][:400]],
                     rule='op sequences on the real queue (3 integer widths); half aimed at the D3 shape: small write, drain, commit_read leaving unpublished in [1,batch), then a write of C-unpublished, C-unpublished+1 or C; non-trivial = at some write the queue is empty, the consumer quiescent, the pinned tree would not have published (unpublished < batch) and the record needs more than C-unpublished bytes; distinct by case text',
                     evaluations=len(cases), distinct_nontrivial=ntc, traces=len(cases) - len(dis) - len(mon),
                     extra_cov={'disagreements': len(dis), 'monitor_failures': len(mon)})


def replay(path):
    d = json.load(open(path)); ck = Check(PID, 'quick'); c = d.get('case')
    if not isinstance(c, str):
        print(json.dumps(d, indent=1)[:2000]); return 1
    mexe, _ = ck.build_modelrun(); iexe, _ = ck.build_harness('bq', ['bq.cpp'])
    i = ck.run_impl(iexe, [c])[0]
    print('case :', c); print('model:', ck.run_model(mexe, [c])[0]); print('impl :', i); print('monitor:', B.monitor_c09(c, i))
    return 1 if B.monitor_c09(c, i) else 0
