"""C09 — a blocked log call resumes once the backend made room; no stall on an empty queue.
Proof: Props/Properties_C09.v (publish-on-drain invariant of the sequential queue model, every
history); refutation for the unfixed guard (D3). Tie: T-src (commit_read guard skeleton) + T-corr."""
import json, os
from vlib import Check, standard_proof_phase, correspond, ddmin, VERIF
import bq_common as B
import uq_common as U
from props.c01 import srcfacts_values

PID = 'C09'
MANIFEST = dict(
    text='Machine-checked (Coq): for every capacity, batch threshold and history of writes/commits/reads/commit_reads of the bounded queue, whenever the consumer has read everything and has run commit_read since its last read (the backend pass discipline), the published reader position equals the real one and every record that fits the capacity is granted - so a blocking producer resumes and a dropping queue accepts (C09_no_stall, C09_published_exact), with the guard of commit_read read from the source on every run; the pinned tree\'s guard is refuted (D3, fixed). Tied to the real queue by differential runs and a direct monitor. Unbounded-queue clause (Props/Properties_C09u.v, sequential M-UQ model tied to the real UnboundedSPSCQueue): at consumer quiescence every record n <= max is granted when the maximum capacity is a power of two (C09_unbounded_no_stall), and for any maximum every n <= 2^floor(log2 max) (C09_unbounded_no_stall_prev_pow2); for a maximum that is not a power of two the remaining sizes are refuted (uq_nonpow2_refuted; D13, open finding replayed on every run). Backend level (Backend/BEPub.v, M-BE, bounded queues): the discipline the queue-level theorem assumes - commit_read after every read pass that consumed something, publish on drain - is an invariant of the backend micro-step model (PubI: at every step boundary of every schedule no read pass is open and the published reader position is exact whenever the consumer has nothing left to read), so for every history, whenever a thread\'s queue is empty its pending statement that fits the capacity is granted at the next try: parked producers resume, a dropping queue accepts (C09_backend_empty_queue_grants; no premise on the backend being idle); the read pass skeleton (commit_read whenever bytes were read) is tied to the source (C09_tie_read_pass_commits). Not proved: that the backend empties the queue within a bounded number of polls (progress of the poll loop under limits and grace period is observed on the driver, not proved).',
    design='5 C09', technique='Coq invariant proof (publish-on-drain) over the sequential queue model + source-fact translator + differential correspondence')
TRUSTED = [
    'Coq 8.16.1 kernel; theorems Closed under the global context',
    'sequentially consistent interleaving of the queue methods (liveness under release/acquire additionally needs the C++ progress guarantee that a repeated load eventually returns the newest store)',
    'tools/srcfacts.py (commit_read guard), extraction ExtrOcamlBasic only, harness/bq.cpp',
    'modelled rather than verified: Queue/BQDefs.v re-states the methods; the backend read-pass discipline (commit_read after a pass that read something) is a premise, exercised end-to-end by the backend checks',
]


def gen_c09(rng):
    """histories that leave a small unpublished amount, drain, then ask for a big record"""
    wb = rng.choice([8, 16, 64]); k = rng.randint(3, {8: 7, 16: 12, 64: 12}[wb]); C = 1 << k
    pct = rng.choice([5, 5, 37, 100]); b = B.batch_of(C, pct)
    ref = B.Ref(C, b); ops = []
    for _ in range(rng.randint(1, 12)):
        small = rng.choice([1, max(1, b - 1), max(1, b // 2), rng.randint(1, max(1, min(C - 1, b + 3)))])
        small = min(small, C - 1, (1 << wb) - 1)
        ops.append(('W', small, 1)); ref.W(small, 1)
        for _ in range(rng.choice([1, 2, 3])):
            ops.append(('R',))
            if ref.R() is None: break
        ops.append(('CR',)); ref.CR()
        if rng.random() < 0.6:
            n = rng.choice([C, C - (ref.r - ref.ar), C - (ref.r - ref.ar) + 1, C - 1])
            n = max(1, min(n, (1 << wb) - 1))
            ops.append(('W', n, 1)); ref.W(n, 1)
            for _ in range(2):
                ops.append(('R',)); ref.R()
            ops.append(('CR',)); ref.CR()
    return B.unparse(['bq', str(wb), str(k), str(b), '1', '1', str(pct)], ops)


def unbounded_clause(ck, tier, mexe, facts, broken):
    """the unbounded-queue clause: Props/Properties_C09u.v as obligations, the sequential M-UQ model against the real
    UnboundedSPSCQueue, the C09 monitor on the implementation, and the open finding D13 (KNOWN-FINDING while it replays)"""
    from props.c02 import flags_from, with_flags, WRAP
    for o in ck.coq_obligations('Properties_C09u'):
        if not o['discharged']:
            broken.append('theorem %s: %s' % (o['name'], o['why']))
    iexe, err = ck.build_harness('uq', ['uq.cpp'], flags=WRAP)
    if not iexe:
        ck.violation('no-failing-input-found', 'harness uq.cpp does not compile against /repo: ' + err[-600:]); return {}
    findings = [f for f in json.load(open(os.path.join(VERIF, 'known_findings.d', PID + '.json'))) if f.get('status') == 'open']
    d13 = next((f for f in findings if f['id'] == 'D13'), None)
    replays = []
    if d13 and d13.get('replay'):
        replays = [l.strip() for l in open(os.path.join(VERIF, d13['replay'])) if l.strip() and not l.startswith('#')]
    n = 600 if tier == 'quick' else 30000
    fl = flags_from(facts)
    cases = [with_flags(c, fl) for c in replays + U.boundary_cases() + [U.gen_c09u(ck.rng) for _ in range(n)] + [U.gen_case(ck.rng, allow_uncommitted=False) for _ in range(n // 3)]]
    ml = ck.run_model(mexe, cases); il = ck.run_impl(iexe, cases)

    def known_match(case, impl_line, msg):
        # only the specific shape: max not a power of two and every refusal at quiescence has prev_pow2(max) < n <= max
        if d13 and 'refused although every record was read' in (msg or '') and U.d13_shape(case, impl_line):
            return '%s open: %s' % (d13['id'], d13['what'])
        return None

    def shrink(case, mode):
        hdr, ops = U.parse(case)
        def fails(o):
            c = U.unparse(hdr, o); i = ck.run_impl(iexe, [c])[0]
            if mode == 'monitor':
                m = U.monitor_c09u(c, i)
                return m is not None and known_match(c, i, m) is None
            return ck.run_model(mexe, [c])[0] != i
        return U.unparse(hdr, ddmin(ops, fails))
    dis, mon = correspond(ck, 'M-UQ sequential layer vs UnboundedSPSCQueue (C09 clause)', cases, ml, il,
                          monitor=U.monitor_c09u, shrink=shrink, known_match=known_match)
    known_hits = sum(1 for (c, m, i, mf) in mon if known_match(c, i, mf))
    # non-trivial: a write issued at consumer quiescence that does not fit the current node (so that growth decides)
    def nt(case, line):
        try:
            hdr, ev, allocs, frees, live = U.walk(case, line)
        except ValueError:
            return False
        written = read = 0; dirty = False; pcap = allocs[0] if allocs else 0
        for idx, o, v in ev:
            if o[0] == 'W':
                if written == read and not dirty and o[1] > pcap and o[1] <= int(hdr[7]): return True
                if v[0] == 1: written += 1
                pcap = v[2]
            elif o[0] == 'R':
                if v[0]: read += 1; dirty = True
            elif o[0] == 'CR': dirty = False
            elif o[0] == 'S': pcap = v[0]
        return False
    return {'cases': len(cases), 'disagreements': len(dis), 'monitor_failures': len(mon), 'monitor_failures_known_D13': known_hits,
            'distinct_nontrivial': len(set(c for c, i in zip(cases, il) if nt(c, i))), 'traces': len(cases) - len(dis) - (len(mon) - known_hits),
            'rule': 'op sequences on the real UnboundedSPSCQueue that drain completely (reads until null, commit_read) and then ask for pcap, pcap+1, 2pcap, prev_pow2(max)-1, prev_pow2(max), prev_pow2(max)+1, max-1, max; max in 12 values (6 not powers of two); non-trivial = a write at consumer quiescence larger than the current node and <= max',
            'samples': [cases[0], cases[len(cases) // 2][:300]]}


def gen_backend(rng, facts):
    """backend level: bounded blocking / dropping queues of 256 or 1024 bytes, 1-4 threads logging statements of up
    to the full capacity (so that producers park and dropping queues refuse), backend polls in between (with parked
    producers resumed at yield points inside a pass), then a drain phase in which every parked producer is resumed
    after the backend has polled"""
    from be_common import Case, HDR_LOG
    soft = rng.choice([1, 2, 4]); hard = rng.choice([h for h in (2, 4, 8) if h >= soft])
    c = Case(dropping=rng.choice([0, 0, 1]), capk=rng.choice([8, 8, 10]), tinit=rng.choice([2, 4]), soft=soft, hard=hard,
             grace=rng.choice([0, 0, 1000]), facts=facts)
    C = 1 << c.capk
    nt = rng.randint(1, 4)
    for _ in range(rng.randint(4, 40)):
        r = rng.random(); t = rng.randrange(nt)
        if r < 0.55:
            pad = rng.choice([0, 3, C // 4, C // 2 - HDR_LOG, C - HDR_LOG, C - HDR_LOG - 1, C - 2 * HDR_LOG, rng.randint(0, C - HDR_LOG)])
            c.log(t, pad=max(0, min(pad, C - HDR_LOG)))
        elif r < 0.7: c.resume(t)
        elif r < 0.78: c.tick(rng.choice([1, 1000, 1001, 3000]))
        else:
            inj = []
            if rng.random() < 0.4:
                inj.append((rng.choice([3, 4, 5, 6, 8]), rng.choice([0, 1]), [('resume', rng.randrange(nt))]))
            c.poll(inj)
    n0 = len(c.cmds)
    for _ in range(6):
        c.tick(2000)
        for _ in range(12): c.poll()
        for t in range(nt): c.resume(t)
    c.ctx()
    c.keep_tail = len(c.cmds) - n0
    return c


def backend_monitor(case, obs):
    """C09 on the implementation's observations, independent of the Coq model. A thread's queue is certainly empty
    when every statement of that thread accepted so far has already been written to the sink (written implies
    consumed). At such a moment (1) a retry of a parked producer must succeed, (2) a dropping queue must accept,
    (3) a fresh blocking call must not park - for any statement that fits the capacity (all generated ones do).
    And at the end of the drain phase nobody is still parked."""
    from be_common import Track
    tr = Track(case, obs)
    if not tr.ok: return 'no observations'
    wpos = {}
    for pos, k, i, lvl in tr.writes: wpos.setdefault(i, pos)
    by_thread = {}
    for i, d in sorted(tr.stmts.items()):
        by_thread.setdefault(d['thread'], []).append((i, d))
    for t, lst in by_thread.items():
        for k, (i, d) in enumerate(lst):
            if d['outcome'] in ('ignored', 'filtered'): continue
            # the moment the call (or its last retry) was decided: its return position, or for a still parked one the end
            decided = d['ret'] if d['ret'] is not None else None
            earlier = [(j, e) for j, e in lst[:k] if e['outcome'] == 'accepted']
            def drained_at(p):
                return all(wpos.get(j, 1 << 60) < p for j, e in earlier)
            if d['outcome'] == 'dropped' and decided is not None and drained_at(d['pos']):
                return ('statement %d (thread %d, %d bytes, capacity %d) was refused by the dropping queue although the queue was empty: every earlier accepted '
                        'statement of the thread had already been written' % (i, t, d['size'], 1 << case.capk))
            if d['outcome'] == 'parked':
                return ('statement %d (thread %d, %d bytes, capacity %d) is still blocked at the end: the backend polled 72 times and the producer retried 6 times '
                        'after the last of them' % (i, t, d['size'], 1 << case.capk))
    # a retry that comes back "still parked" although the thread's queue was empty at that moment
    pending = {}
    from be_common import align
    for c, code, pos in align(case, obs):
        if c[0] == 'log':
            t, i = c[1], c[2]
            if i in tr.stmts and code == 2 and tr.stmts[i]['outcome'] != 'ignored': pending[t] = i
            if i in tr.stmts and code == 2:
                d = tr.stmts[i]
                if not c[7]:       # not a stalled call: it parked because the queue refused it
                    earlier = [j for j, e in tr.stmts.items() if e['thread'] == t and j < i and e['outcome'] == 'accepted']
                    if all(wpos.get(j, 1 << 60) < pos for j in earlier) and case.dropping == 0:
                        return ('statement %d (thread %d, %d bytes, capacity %d) parked although the thread\'s queue was empty: every earlier accepted statement of the thread had already been written'
                                % (i, t, d['size'], 1 << case.capk))
        elif c[0] == 'resume' and c[1] in pending:
            t = c[1]; i = pending[t]
            if code != 2: del pending[t]
            else:
                d = tr.stmts[i]
                earlier = [j for j, e in tr.stmts.items() if e['thread'] == t and j < i and e['outcome'] == 'accepted']
                if all(wpos.get(j, 1 << 60) < pos for j in earlier) and case.dropping == 0:
                    return ('statement %d (thread %d, %d bytes, capacity %d): the retry came back blocked although the thread\'s queue was empty (every earlier accepted statement already written)'
                            % (i, t, d['size'], 1 << case.capk))
    return None


def backend_phase(ck, tier):
    from be_check import be_driver_phase
    return be_driver_phase(ck, tier, gen_backend, backend_monitor, 400, 20000, 'M-BE vs backend driver (blocked / refused producers on bounded queues)')


def run(tier):
    ck = Check(PID, tier)
    broken = standard_proof_phase(ck, 'Properties_C09')
    facts = srcfacts_values()
    ck.tie.append({'T-src facts': {k: facts.get(k) for k in ('bq_publish_on_drain', 'bq_publish_on_batch')}})
    mexe, err = ck.build_modelrun()
    if not mexe:
        ck.violation('no-failing-input-found', 'model extraction/build failed: ' + err[-400:]); return ck.finish(trusted=TRUSTED)
    iexe, err = ck.build_harness('bq', ['bq.cpp'])
    if not iexe:
        ck.violation('no-failing-input-found', 'harness bq.cpp does not compile against /repo: ' + err[-600:]); return ck.finish(trusted=TRUSTED)
    n = 1500 if tier == 'quick' else 60000
    cases = B.boundary_cases() + [gen_c09(ck.rng) for _ in range(n // 2)] + [B.gen_case(ck.rng) for _ in range(n // 2)]
    ml = ck.run_model(mexe, cases); il = ck.run_impl(iexe, cases)

    def shrink(case, mode):
        hdr, ops = B.parse(case)
        def fails(o):
            c = B.unparse(hdr, o); i = ck.run_impl(iexe, [c])[0]
            return (B.monitor_c09(c, i) is not None) if mode == 'monitor' else (ck.run_model(mexe, [c])[0] != i)
        return B.unparse(hdr, ddmin(ops, fails))
    dis, mon = correspond(ck, 'M-BQ sequential layer vs BoundedSPSCQueueImpl', cases, ml, il, monitor=B.monitor_c09, shrink=shrink)
    if broken and not ck.violations:
        if facts.get('bq_publish_on_drain') == 'false':
            ck.violation('model-witness', 'commit_read no longer publishes when the consumer has drained the queue; broken: ' + '; '.join(broken)[:300],
                         case='bq 64 10 51 1 0 5 0 36 1 2 2 3 0 996 1', expected='second write granted',
                         observed='refused for ever (theorem C09_stall_refuted_without_drain_publish)')
        else:
            ck.violation('no-failing-input-found', '; '.join(broken))
    uq_cov = unbounded_clause(ck, tier, mexe, facts, broken)
    be_cov = backend_phase(ck, tier)
    # non-trivial: the history reaches a quiescent drained state with unpublished < batch and then asks for > C - unpublished
    def nt(case):
        hdr, ops = B.parse(case); C = 1 << int(hdr[2]); ref = B.Ref(C, int(hdr[3]), on_drain=False); hit = False
        for o in ops:
            if o[0] == 'W':
                if ref.w == ref.r and not ref.dirty and ref.ar != ref.r and o[1] > C - (ref.r - ref.ar): hit = True
                # steer the reference with the fixed behaviour: grant whenever it really fits
                if o[1] <= C - (ref.w - ref.r): ref.rc = ref.r; ref.ar = max(ref.ar, 0); ref.W(o[1], o[2])
            elif o[0] == 'R': ref.R()
            elif o[0] == 'CR': ref.CR()
            elif o[0] == 'CW': ref.CW()
            elif o[0] == 'E': ref.E()
        return hit
    ntc = len(set(c for c in cases if nt(c)))
    return ck.finish(trusted=TRUSTED, samples=[cases[0], cases[-1][:400]],
                     rule='op sequences on the real queue (3 integer widths); half aimed at the D3 shape: small write, drain, commit_read leaving unpublished in [1,batch), then a write of C-unpublished, C-unpublished+1 or C; non-trivial = at some write the queue is empty, the consumer quiescent, the pinned tree would not have published (unpublished < batch) and the record needs more than C-unpublished bytes; distinct by case text',
                     evaluations=len(cases) + uq_cov.get('cases', 0), distinct_nontrivial=ntc + uq_cov.get('distinct_nontrivial', 0),
                     traces=len(cases) - len(dis) - len(mon) + uq_cov.get('traces', 0),
                     extra_cov={'disagreements': len(dis), 'monitor_failures': len(mon), 'unbounded_clause': uq_cov, 'backend_level': be_cov})


def replay(path):
    d = json.load(open(path)); ck = Check(PID, 'quick'); c = d.get('case')
    if not isinstance(c, str):
        print(json.dumps(d, indent=1)[:2000]); return 1
    mexe, _ = ck.build_modelrun()
    if c.startswith('uq '):
        from props.c02 import WRAP
        iexe, _ = ck.build_harness('uq', ['uq.cpp'], flags=WRAP)
        i = ck.run_impl(iexe, [c])[0]
        print('case :', c); print('model:', ck.run_model(mexe, [c])[0]); print('impl :', i); print('monitor:', U.monitor_c09u(c, i))
        if U.monitor_c09u(c, i) and U.d13_shape(c, i): print('KNOWN-FINDING: property=%s D13 open (max capacity not a power of two and prev_pow2(max) < n <= max)' % PID)
        return 1 if U.monitor_c09u(c, i) else 0
    iexe, _ = ck.build_harness('bq', ['bq.cpp'])
    i = ck.run_impl(iexe, [c])[0]
    print('case :', c); print('model:', ck.run_model(mexe, [c])[0]); print('impl :', i); print('monitor:', B.monitor_c09(c, i))
    return 1 if B.monitor_c09(c, i) else 0
