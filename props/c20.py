"""C20 — exited threads: drained, then reclaimed.
Proof: Props/Properties_C20.v (counter invariant for every op list, clean-up trigger, removal only when
drained, 8-bit wrap refutation) + C03_conservation. Tie: T-src (counter width) + T-corr through the driver."""
from be_common import Case, Track, HDR_LOG
from be_check import run_be, replay_be
import props.c03 as c03
from teb_phase import teb_phase

PID = 'C20'
MANIFEST = dict(
    text='Machine-checked (Coq) on the backend micro-step model for every interleaving and any number of thread start/exit cycles: the dead-context counter equals the number of registered contexts of exited threads mod 2^bits (width read from the source each run), clean-up is attempted exactly when one exists (below 2^bits pending), a context is removed only when its thread is dead and its queue and transit buffer are empty, so (conservation, C03) pending statements of exited threads are delivered first; the pinned tree\'s 8-bit counter is refuted at 256 exits (D2, fixed). Model run against the real backend with up to 513 short-lived threads per case; monitor: after a drain the number of retained contexts equals the number of live threads that logged, and nothing is lost. Shrinking the backend buffer: the slot array of TransitEventBuffer (M-TEB: positions, mask, _expand, request_shrink / try_shrink; variant read from the source) is proved to behave like a plain list for every initial capacity and every history of backend calls - try_shrink changes no queued event, acts exactly when requested and empty, and restores the initial capacity; the extracted model, the list and the real class run the same histories (harness/teb.cpp). Not covered by a theorem: the relaxed flag under non-TSO hardware (M-BE is sequentially consistent); M-BE itself keeps the buffer as a list (the refinement is what justifies it).',
    design='5 C20', technique='Coq invariant proof (counter tracks dead contexts) over the backend micro-step machine + Coq refinement proof (TransitEventBuffer slot array -> list, shrink exact) + source-fact translator + deterministic-driver and unit-level differential correspondence')


def gen_exits(facts, n, rng, poll_between=False):
    c = Case(dropping=0, capk=10, tinit=2, soft=4, hard=8, grace=0, facts=facts)
    keep = rng.randint(0, 2)
    K0 = 300
    for t in range(keep): c.log(K0 + t)
    for t in range(n):
        c.log(t, pad=rng.choice([0, 10]))
        if poll_between and rng.random() < 0.1: c.poll()
        c.exit(t)
    for _ in range(10 + n // 2): c.poll()
    c.ctx()
    c.flush(K0) if keep else None
    for _ in range(4): c.poll()
    if keep: c.resume(K0)
    c.ctx()
    c.final_live = keep
    return c


def gen(rng, facts):
    r = rng.random()
    if r < 0.025:
        return gen_exits(facts, rng.choice([255, 256, 257]), rng, poll_between=rng.random() < 0.5)
    if r < 0.3:
        return gen_exits(facts, rng.choice([1, 2, 3, 17, 64]), rng, poll_between=True)
    # random lifecycle mix
    nl = rng.randint(1, 2)
    c = Case(dropping=rng.choice([0, 1, 2, 2]), capk=rng.choice([8, 10]), tinit=2, soft=rng.choice([1, 4]), hard=8, grace=rng.choice([0, 1000]),
             loggers=[(0, [0]) for _ in range(nl)], sinks=[(0, [])], facts=facts)
    C = 1 << c.capk
    nt = rng.randint(2, 12); alive = set(); logged = set(); dead = set()
    for _ in range(rng.randint(5, 60)):
        t = rng.randrange(nt)
        r2 = rng.random()
        if r2 < 0.5:
            c.log(t, lg=rng.randrange(nl), pad=rng.choice([0, 0, 30, C // 3]))
        elif r2 < 0.7: c.exit(t)
        elif r2 < 0.75: c.flush(t)
        elif r2 < 0.8: c.resume(t)
        elif r2 < 0.87: c.shrink(t, rng.choice([64, 128, 256, 512, 100, 1024, 4096]))     # takes effect on unbounded queues only
        else:
            inj = []
            if rng.random() < 0.3:
                u = rng.randrange(nt)
                # a thread's last words inside a backend pass: plain; into a fresh node after a shrink; too large for the
                # current node (both leave a drained node in front of the node that holds the record - unbounded queues)
                k = rng.random()
                last = []
                if k < 0.35 and c.dropping == 2: last.append(('shrink', u, rng.choice([64, 128, 256])))
                pad = rng.choice([C, 2 * C + 3]) if 0.35 <= k < 0.6 and c.dropping == 2 else 0
                last += [('log', u, c.next_id, 0, 4, HDR_LOG + pad, 0, False), ('exit', u)]
                inj.append((rng.choice([3, 4, 6, 7, 8, 8]), 0, last)); c.next_id += 1
            c.poll(inj)
    n0 = len(c.cmds)
    for _ in range(5):
        for t in range(nt): c.resume(t)
        c.tick(2000)
        for _ in range(10): c.poll()
    c.ctx()
    c.keep_tail = len(c.cmds) - n0
    c.final_live = None
    return c


def corpus_cases(facts):
    import random
    return [gen_exits(facts, 256, random.Random(1)), gen_exits(facts, 257, random.Random(2)), gen_exits(facts, 255, random.Random(3))]


def monitor(case, obs):
    m = c03.monitor(case, obs)
    if m: return m
    tr = Track(case, obs)
    if tr.pending: return None
    # live threads that logged (registered contexts that must be retained) at the end
    logged = set(d['thread'] for d in tr.stmts.values() if d['outcome'] in ('accepted', 'dropped', 'parked')) | set(f['thread'] for f in tr.flushes.values())
    logged |= set(t for (_, t, _, cap) in tr.shrinks if cap is not None)       # asking for the capacity creates the context too
    # shrinking takes effect: two capacity reports of one thread with no log call of that thread in between; the second
    # request is at most half the first report -> the thread then reports the request rounded up to a power of two
    if case.dropping == 2:
        last = {}
        for (pos, t, req, cap) in tr.shrinks:
            if cap is None: continue
            if t in last:
                ppos, pcap = last[t]
                quiet = not any(d['thread'] == t and ppos < d['pos'] < pos for d in tr.stmts.values()) and \
                        not any(f['thread'] == t and ppos < f['start'] < pos for f in tr.flushes.values())
                if quiet and req <= pcap // 2:
                    want_cap = 1
                    while want_cap < req: want_cap *= 2
                    if cap != want_cap:
                        return 'thread %d reported capacity %d, then shrink(%d) without logging in between: it reports %d, expected %d' % (t, pcap, req, cap, want_cap)
                elif quiet and cap != pcap:
                    return 'thread %d reported capacity %d, then shrink(%d) (more than half): it reports %d, the capacity must not change' % (t, pcap, req, cap)
            last[t] = (pos, cap)
    exited = set(t for (_, t) in tr.exits)
    want = len(logged - exited)
    if tr.ctx:
        got = tr.ctx[-1][1]
        if got != want:
            return 'after the final drain the backend retains %d thread contexts but %d live threads have logged (exited: %d threads)' % (got, want, len(exited))
    return None


def nontrivial(case, obs):
    tr = Track(case, obs)
    return tr.ok and len(tr.exits) >= 1 and any(d['outcome'] == 'accepted' for d in tr.stmts.values())


RULE = ('thread lifecycles through the driver: bursts of n short-lived threads (each logs once and exits) with n in {1,2,3,17,64,255,256,257} between clean-ups, '
        'with and without polls in between, plus random mixes of log/exit/flush/shrink/poll over 2-12 threads (bounded and unbounded queues; shrink_thread_local_queue with the capacity reported afterwards) with log+exit injected at yield points; '
        'every case ends with a drain and a context count; non-trivial = at least one exit and one delivered statement; distinct by case text')

TRUSTED = None
def _teb(ck, tier, broken):
    return teb_phase(ck, tier, broken, 'C20_tie_transit_buffer')

run = run_be(PID, 'Properties_C20', gen, monitor, nontrivial, RULE, n_quick=120, n_thorough=5000, corpus_cases=corpus_cases, extra_phase=_teb)
replay = replay_be(PID, monitor)
