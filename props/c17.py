"""C17 — removing / re-creating loggers never loses statements nor frees state in use.
Proof: Props/Properties_C17.v over the M-REG model (Registry/RegModel.v): every list of frontend calls and
backend micro-steps = every interleaving; invariants by induction.
Tie: T-src (guard, per-logger re-check, order erase -> sink clean-up -> flag store, request before invalidation,
spinlock memory orders, registry skeletons; TieC17.v) + T-corr (extracted model vs the real
Frontend / LoggerManager / SinkManager / ManualBackendWorker through harness/lg.cpp, ASan+UBSan build; frontend calls
injected at the yield points of a poll and inside the destructor of a sink that the backend destroys in the clean-up loop)
+ an independent property monitor on the implementation's API trace."""
import json, os, re, sys
from vlib import Check, standard_proof_phase, correspond, ddmin, sh, VERIF, REPO, OUT
from props.c01 import srcfacts_values

PID = 'C17'
MANIFEST = dict(
    text='Machine-checked (Coq) over an executable model of the logger and sink registries and of the removal protocol (LoggerManager name-sorted vector with create_or_get / get / remove_logger / cleanup_invalidated_loggers, SinkManager weak table with create_or_get_sink / cleanup_unused_sinks, the LoggerRemovalRequest of remove_logger_blocking travelling through the caller\'s queue, the backend\'s _logger_removal_flags, per-thread FIFO queues and transit buffers, sink use counts). A schedule is a list of micro-steps (frontend calls of any thread; backend: read one record, process one event, enter / one iteration / leave the clean-up loop) in any order, so every theorem quantifies over every interleaving, any number of remove/re-create cycles and every sharing pattern. Proved for the configuration read from the source: a logger is erased only when invalid and only in a state where every queue and transit buffer is empty and everything committed has been processed, and every statement committed through an erased logger was written to each sink the logger was created with (C17_erase_step_drained, C17_delivered_before_free, C17_thread_order); every queued or buffered record refers to a logger still registered and, under the documented contract "a logger is not used after its removal", no step dereferences a freed logger or writes to a destroyed sink (C17_refs_present, C17_no_dangling); a sink\'s use count equals user handles + registered loggers holding it, it is destroyed once, exactly when nothing references it (C17_sink_lifetime, C17_destroy_step); a removal flag is stored only at the end of the clean-up, after the erase and the pruning of expired sink entries, the blocked caller is released only then, and create_or_get of the freed name builds a new object over the given sinks (C17_flag_after_erase, C17_blocking_returns_after, C17_unblock_step, C17_create_after); the logger vector stays strictly name-sorted, the sink vector sorted with at most the first entry of a name alive, lookups find a name whenever present, create_or_get / get are idempotent (C17_reg_sorted_unique, C17_create_get_idem, C17_get_idem, C17_get_removed_none, C17_create_sink_idem); Spinlock in a release/acquire view model: mutual exclusion and happens-before between critical sections for every schedule (C17_spin_mutex). Each protocol ingredient has a refutation (vm_compute witness) of the variant without it: guard without transit buffers / without queues / not re-evaluated per logger, flag stored before the erase, no pruning, get without validity test, re-creation while a non-blocking removal is pending (documented misuse), relaxed spinlock orders. Tie: the guard, the per-logger re-check, the order erase -> cleanup_unused_sinks -> flag store (and that the flag is stored nowhere else), request-before-invalidation, ownership types, memory orders and 19 method skeletons are read from /repo by clang on every run (TieC17.v); the extracted model is run against the real Frontend / LoggerManager / SinkManager / ManualBackendWorker (ASan+UBSan build, frontend calls injected at the QUILL_VERIF yield points inside a poll) on generated histories; a further injection point needs no hook in the library: the destructor of a recording sink that the backend destroys while it erases a logger inside the loop of cleanup_invalidated_loggers makes other threads log through / remove other loggers between two iterations of that loop (the schedule that tells a per-logger emptiness re-check from one evaluated once per pass), and the generator aims at it, with a monitor evaluating the property directly on the implementation\'s API trace.',
    design='5 C17', technique='Coq invariant proofs over a micro-step transition system of the logger/sink registries and the removal protocol (+ release/acquire view model of the spinlock) + source-fact translator (clang AST) + extracted-model/implementation differential correspondence with an independent property monitor, ASan')
TRUSTED = [
    'Coq 8.16.1 kernel (vm_compute for witnesses; no native_compute); every theorem Closed under the global context',
    'tools/srcfacts.py over clang 14 JSON AST (19 method skeletons, 10 order/presence/type facts, 7 memory orders)',
    'extraction: ExtrOcamlBasic only; extract/driver.ml; harness/lg.cpp (interposed clock_gettime/nanosleep, one OS thread running at a time, object identities carried in the logger pattern and a sink constructor argument), g++ -fsanitize=address,undefined -DNDEBUG',
    'modelled rather than verified: the registry methods are re-stated in Gallina (Registry/RegModel.v); queues and transit buffers are FIFO lists (byte level: C01/C02), unbounded; std::lower_bound is a linear scan for the first element not below the key (equal on sorted vectors, sortedness is proved); shared_ptr use counts are a multiset of owners; frontend calls under the LoggerManager spinlock are atomic steps, disabled while the backend holds the lock in the clean-up loop; remove_logger = mark_invalid + flag store in one step; thread contexts are fixed for a case; the release/acquire collapse of C++11 to views for the spinlock (as for C01); CsvWriter / FileSink destructors (file close) are the sink destructor event',
    'premise visible in C17_no_dangling: the documented contract (LoggerImpl::log_statement asserts it; Frontend.h: "After calling this function, no thread should use this logger", "you should not attempt to create a new logger with the same name" while an asynchronous removal is pending)',
]

NTMAX = 3
DTOR = 100      # injection key DTOR + n: inside the destructor of the sink named n, when the backend destroys it in the clean-up loop
ARITY = {1: 3, 2: 1, 3: 3, 14: 2, 5: 3, 6: 4, 7: 2, 8: 3, 9: 2, 10: 1, 15: 1}   # 4 and 11 have a length field


# ------------------------------------------------------------------ cases
def toks_simple(o):
    k = o[0]
    if k == 'sink': return [1, o[1], o[2]]
    if k == 'drop': return [2, o[1]]
    if k == 'create': return [3, o[1], o[2], len(o[3])] + list(o[3])
    if k == 'get': return [4, o[1], o[2]]
    if k == 'log': return [5, o[1], o[2], o[3]]
    if k == 'remove': return [6, o[1]]
    if k == 'rb': return [7, o[1], o[2]]
    if k == 'wait': return [8, o[1]]
    if k == 'count': return [9]
    if k == 'list': return [10]
    raise ValueError(o)


def toks(o):
    if o[0] == 'poll':
        if not o[1]: return [12]
        out = [11, len(o[1])]
        for key, ops in o[1]:
            t = [x for s in ops for x in toks_simple(s)]
            out += [key, len(t)] + t
        return out
    if o[0] == 'iffree':
        t = [x for s in o[2] for x in toks_simple(s)]
        return [13, o[1], len(t)] + t
    return toks_simple(o)


def commits_in(ops):
    n = 0
    for o in ops:
        if o[0] in ('log', 'rb'): n += 1
        elif o[0] == 'poll': n += sum(commits_in(x[1]) for x in o[1])
        elif o[0] == 'iffree': n += commits_in(o[2])
    return n


def suffix(nt, body):
    """drain: every blocked thread looks at its flag, then enough plain polls for everything committed, then again"""
    p = commits_in(body) + 3
    w = [('wait', t) for t in range(nt)]
    return w + [('poll', [])] * p + w + [('poll', []), ('count',), ('list',)]


def line(flags, nt, body, with_suffix=True):
    ops = list(body) + (suffix(nt, body) if with_suffix else [])
    return 'lg ' + ' '.join(map(str, list(flags) + [nt] + [x for o in ops for x in toks(o)]))


def parse_simple_toks(t, maxn=None):
    out = []; i = 0
    need = {1: 3, 2: 2, 4: 3, 5: 4, 6: 2, 7: 3, 8: 2, 9: 1, 10: 1}
    while i < len(t) and (maxn is None or len(out) < maxn):
        c = t[i]
        if c == 3:
            if i + 3 >= len(t) or i + 4 + t[i + 3] > len(t): break
            k = t[i + 3]; out.append(('create', t[i + 1], t[i + 2], tuple(t[i + 4:i + 4 + k]))); i += 4 + k
            continue
        if c not in need or i + need[c] > len(t): break
        if c == 1: out.append(('sink', t[i + 1], t[i + 2]))
        elif c == 2: out.append(('drop', t[i + 1]))
        elif c == 4: out.append(('get', t[i + 1], t[i + 2]))
        elif c == 5: out.append(('log', t[i + 1], t[i + 2], t[i + 3]))
        elif c == 6: out.append(('remove', t[i + 1]))
        elif c == 7: out.append(('rb', t[i + 1], t[i + 2]))
        elif c == 8: out.append(('wait', t[i + 1]))
        elif c == 9: out.append(('count',))
        elif c == 10: out.append(('list',))
        i += need[c]
    return out


def parse(case):
    """-> flags, nt, ops (the whole line, suffix included)"""
    t = [int(x) for x in case.split()[1:]]
    flags = t[:6]; nt = t[6]; t = t[7:]; ops = []; i = 0
    while i < len(t):
        c = t[i]
        if c == 12: ops.append(('poll', [])); i += 1
        elif c == 11:
            n = t[i + 1]; i += 2; inj = []
            for _ in range(n):
                key, nt_ = t[i], t[i + 1]; i += 2
                inj.append((key, parse_simple_toks(t[i:i + nt_]))); i += nt_
            ops.append(('poll', inj))
        elif c == 13:
            th, n = t[i + 1], t[i + 2]; i += 3
            ops.append(('iffree', th, parse_simple_toks(t[i:i + n]))); i += n
        else:
            one = parse_simple_toks(t[i:], 1)
            if not one: break
            ops.append(one[0]); i += len(toks_simple(one[0]))
    return flags, nt, ops


def split_suffix(nt, ops):
    """body, has_drain: strip the standard drain suffix if the line ends with one"""
    for cut in range(len(ops), -1, -1):
        if ops[cut:] == suffix(nt, ops[:cut]):
            return ops[:cut], True
    return ops, False


# ------------------------------------------------------------------ the property on the implementation's API trace
def events(obs_line):
    t = [int(x) for x in obs_line.split()]
    ev = []; i = 0
    while i < len(t):
        c = t[i]
        if c == 4:
            k = t[i + 4]; ev.append((4, t[i + 1], t[i + 2], t[i + 3], tuple(t[i + 5:i + 5 + k]))); i += 5 + k
        elif c == 11:
            k = t[i + 1]; ev.append((11, tuple(t[i + 2:i + 2 + k]))); i += 2 + k
        elif c in ARITY:
            ev.append(tuple(t[i:i + 1 + ARITY[c]])); i += 1 + ARITY[c]
        else:
            raise ValueError('unknown observation tag %d at %d' % (c, i))
    return ev


def owed(L, committed, u, S):
    """what sink S must receive from logger u: every committed message once per occurrence of S in u's sink list"""
    k = L[u]['sinks'].count(S)
    return sorted(m for _, m in committed[u] for _ in range(k))


def monitor(case, impl_line):
    """C17 evaluated directly on the API trace of the implementation (no use of the Coq model).
    In-contract traces only (the generator never logs through a removed logger and never re-creates a name
    whose removal is not known to be complete)."""
    if impl_line.startswith(('CRASH', 'HANG', 'NOOUTPUT', 'NOTRUN')):
        return 'implementation ' + impl_line
    try:
        ev = events(impl_line)
    except (ValueError, IndexError) as e:
        return 'unreadable observation stream: %s' % e
    flags, nt, ops = parse(case)
    body, drained = split_suffix(nt, ops)
    hnd = {}            # handle -> sink object
    sink_name = {}      # sink object -> name
    live_by_name = {}   # sink name -> object believed live
    destroyed = set()
    var = {}            # variable -> logger object
    L = {}              # logger object -> dict(name, sinks, state: valid | removed | blocking | gone, owed: {sink: [msgs]}, by)
    cur = {}            # logger name -> current object
    blocked = {}        # thread -> logger object
    maxl = 0; maxs = 0
    written = {}        # (sink, logger) -> list of messages
    committed = {}      # logger -> list of (thread, msg)
    ncommit = 0
    last_count = None

    def holders(S):
        return [u for u, d in L.items() if S in d['sinks'] and d['state'] != 'gone']

    for e in ev:
        k = e[0]
        if k == 15:
            return 'backend error notifier fired / unreadable statement (%s)' % (e,)
        if k == 3:
            _, h, name, S = e
            if S == 0:
                if h not in hnd: return 'create_or_get_sink skipped although handle %d is empty' % h
                continue
            if h in hnd: return 'handle %d overwritten' % h
            known = live_by_name.get(name)
            if known is not None and known not in destroyed:
                if S != known: return 'create_or_get_sink(%d) returned object %d but object %d of that name is alive (not idempotent)' % (name, S, known)
            else:
                if S != maxs + 1: return 'create_or_get_sink(%d) returned object %d, expected a new object %d' % (name, S, maxs + 1)
                maxs = S; sink_name[S] = name; live_by_name[name] = S
            hnd[h] = S
        elif k == 14:
            _, h, r = e
            if r == 1: hnd.pop(h, None)
        elif k == 4:
            _, v, name, u, hs = e
            c = cur.get(name)
            if c is not None and L[c]['state'] == 'valid':
                if u != c: return 'create_or_get_logger(%d) returned object %d but the valid logger of that name is %d (not idempotent)' % (name, u, c)
            elif c is None or L[c]['state'] == 'gone':
                if u != maxl + 1:
                    return 'create_or_get_logger(%d) returned object %d, expected a new logger %d (%s)' % (
                        name, u, maxl + 1, 'first use of the name' if c is None else 'remove_logger_blocking of object %d had returned' % c)
                maxl = u
                ss = [hnd[h] for h in hs if h in hnd]
                for S in ss:
                    if S in destroyed: return 'logger %d created over destroyed sink %d' % (u, S)
                L[u] = dict(name=name, sinks=ss, state='valid'); cur[name] = u; committed[u] = []
            else:
                # the name is being removed (not known complete): outside the contract, nothing is claimed
                if u not in L:
                    maxl = max(maxl, u); L[u] = dict(name=name, sinks=[hnd[h] for h in hs if h in hnd], state='valid', limbo=True); cur[name] = u; committed[u] = []
                if c is not None: L[c]['limbo'] = True
            var[v] = u
        elif k == 5:
            _, v, name, u = e
            c = cur.get(name)
            exp = c if (c is not None and L[c]['state'] == 'valid') else 0
            if u != exp: return 'get_logger(%d) returned %d, expected %d' % (name, u, exp)
            if u: var[v] = u
            else: var.pop(v, None)
        elif k == 6:
            _, t, v, m, r = e
            u = var.get(v)
            if r == 1:
                if u is None: return 'log through empty variable %d reported committed' % v
                if L[u]['state'] != 'valid': return 'generator error: log through removed logger %d' % u
                committed[u].append((t, m)); ncommit += 1
            elif u is not None and t < nt and t not in blocked:
                return 'log call of thread %d through logger %d not committed' % (t, u)
        elif k == 7:
            _, v, r = e
            if r == 1:
                u = var.pop(v, None)
                if u is None: return 'remove_logger through empty variable'
                L[u]['state'] = 'removed'
        elif k == 8:
            _, t, v, r = e
            if r == 0: continue
            u = var.pop(v, None)
            if u is None: return 'remove_logger_blocking through empty variable'
            ncommit += 1
            if r == 1: return 'remove_logger_blocking of logger %d returned before any backend step' % u
            L[u]['state'] = 'blocking'; blocked[t] = u
        elif k == 9:
            _, t, r = e
            if r == 1:
                u = blocked.pop(t, None)
                if u is None: return 'thread %d returned from remove_logger_blocking but was not blocked' % t
                # (d) the removal is complete: everything logged through u is written, u is gone
                for S in L[u]['sinks']:
                    w = written.get((S, u), [])
                    if sorted(w) != owed(L, committed, u, S):
                        return 'remove_logger_blocking of logger %d returned but sink %d has %s of its statements %s' % (u, S, w, [m for _, m in committed[u]])
                L[u]['state'] = 'gone'
                for S in set(L[u]['sinks']):
                    if S not in hnd.values() and not holders(S) and S not in destroyed:
                        return 'remove_logger_blocking of logger %d returned but its unshared sink %d is not destroyed' % (u, S)
            elif r == 2 and t not in blocked:
                return 'thread %d parked but not in remove_logger_blocking' % t
        elif k == 1:
            _, S, u, m = e
            if S in destroyed: return 'sink %d written after its destruction' % S
            if u not in L or S not in L[u]['sinks']: return 'sink %d received a statement of logger %d which does not hold it' % (S, u)
            if L[u]['state'] == 'gone': return 'statement of logger %d written after its removal completed' % u
            w = written.setdefault((S, u), [])
            if w.count(m) >= L[u]['sinks'].count(S): return 'statement %d of logger %d written to sink %d more often than the logger holds it' % (m, u, S)
            if m not in [x for _, x in committed[u]]: return 'sink %d received statement %d never logged through logger %d' % (S, m, u)
            w.append(m)
            # thread order per (thread, logger, sink)
            th = [t for t, x in committed[u] if x == m][0]
            mine = [x for t, x in committed[u] if t == th]
            got = [x for j, x in enumerate(w) if x in mine and x not in w[:j]]
            if got != mine[:len(got)]: return 'sink %d: statements of thread %d through logger %d out of order: %s' % (S, th, u, got)
        elif k == 2:
            S = e[1]
            if S in destroyed: return 'sink %d destroyed twice' % S
            if S in hnd.values(): return 'sink %d destroyed while a user handle refers to it' % S
            for u in holders(S):
                if L[u]['state'] == 'valid': return 'sink %d destroyed while valid logger %d refers to it' % (S, u)
                if sorted(written.get((S, u), [])) != owed(L, committed, u, S):
                    return 'sink %d destroyed before all statements of logger %d were written: %s of %s' % (S, u, written.get((S, u), []), [m for _, m in committed[u]])
            destroyed.add(S)
        elif k == 10:
            last_count = e[1]
            nvalid = sum(1 for d in L.values() if d['state'] == 'valid')
            nmax = sum(1 for d in L.values() if d['state'] != 'gone')
            if not (nvalid <= e[1] <= nmax): return 'get_number_of_loggers = %d, outside [%d valid, %d not known removed]' % (e[1], nvalid, nmax)
            # a removed logger some of whose statements are not written yet is still registered
            pend = [u for u, d in L.items() if d['state'] in ('removed', 'blocking') and not d.get('limbo')
                    and any(sorted(written.get((S, u), [])) != owed(L, committed, u, S) for S in d['sinks'])]
            if e[1] < nvalid + len(pend):
                u = pend[0]
                return ('get_number_of_loggers = %d with %d valid loggers and removed logger(s) %s whose statements are not all written '
                        '(logger %d: %s logged, sinks have %s): a logger was erased while a statement logged through it before its removal was still queued'
                        % (e[1], nvalid, pend, u, [m for _, m in committed[u]], [written.get((S, u), []) for S in L[u]['sinks']]))
        elif k == 11:
            exp = [u for _, u in sorted((d['name'], u) for u, d in L.items() if d['state'] == 'valid')]
            if list(e[1]) != exp: return 'get_all_loggers = %s, expected the valid loggers in name order %s' % (list(e[1]), exp)
    if drained:
        # after the drain (blocked threads looked at their flags, commits+3 polls, looked again)
        if blocked: return 'thread(s) %s still blocked in remove_logger_blocking after the backend drained everything' % sorted(blocked)
        for u, d in L.items():
            for S in d['sinks']:
                if sorted(written.get((S, u), [])) != owed(L, committed, u, S):
                    return 'after the drain sink %d has %s of the statements %s of logger %d' % (S, written.get((S, u), []), [m for _, m in committed[u]], u)
        nvalid = sum(1 for d in L.values() if d['state'] == 'valid')
        if last_count != nvalid: return 'after the drain %d loggers exist, %d are valid: a removed logger was not freed' % (last_count, nvalid)
        for S in sink_name:
            refs = S in hnd.values() or any(S in d['sinks'] for d in L.values() if d['state'] == 'valid')
            if not refs and S not in destroyed: return 'after the drain sink %d is referenced by no handle and no logger but not destroyed' % S
            if refs and S in destroyed: return 'sink %d destroyed while referenced' % S
    return None


# ------------------------------------------------------------------ generator
class Gen:
    """mostly in-contract histories: variable index = logger name; a name removed without blocking is never used
    again; a name removed by remove_logger_blocking of thread t is re-created only in t's program order (13 t ...)"""
    def __init__(self, rng, nt=None, nnames=None, nsinks=None):
        self.r = rng
        self.nt = nt or rng.choice([1, 2, 2, 3, 3])
        self.nn = nnames or rng.choice([1, 2, 3, 4])
        self.ns = nsinks or rng.choice([1, 2, 3, 4])
        self.nh = self.ns + rng.choice([0, 1, 2])
        self.state = {}      # name -> 'valid' | 'limbo' | ('rb', t)
        self.hset = set()
        self.msg = 100
        self.body = []
        self.hist = {}

    def m(self):
        self.msg += 1; return self.msg

    def pick_handles(self):
        """mostly handles that hold a sink (so that statements are written somewhere), sometimes empty / unset / repeated ones"""
        r = self.r
        pool = sorted(self.hset) if (self.hset and r.random() < 0.85) else list(range(self.nh))
        k = r.choice([0, 1, 1, 1, 2, 2, 3])
        hs = [r.choice(pool) for _ in range(k)] if r.random() < 0.1 else r.sample(pool, min(k, len(pool)))
        return tuple(hs)

    def simple(self, allow_rb=True):
        """one simple op (or None)"""
        r = self.r; x = r.random()
        names = list(range(self.nn))
        valid = [n for n in names if self.state.get(n) == 'valid']
        if x < 0.10:
            h = r.randrange(self.nh); self.hset.add(h); return ('sink', h, r.randrange(self.ns))
        if x < 0.16:
            h = r.randrange(self.nh); self.hset.discard(h); return ('drop', h)
        if x < 0.30:
            cands = [n for n in names if self.state.get(n) in (None, 'valid')]
            if not cands: return None
            n = r.choice(cands)
            hs = self.pick_handles()
            self.state[n] = 'valid'
            return ('create', n, n, hs)
        if x < 0.34:
            n = r.choice(names)
            if isinstance(self.state.get(n), tuple): return None       # variable may hold the re-created logger
            return ('get', n, n)
        if x < 0.74:
            if not valid: return None
            return ('log', r.randrange(self.nt), r.choice(valid), self.m())
        if x < 0.82:
            if not valid: return None
            n = r.choice(valid); self.state[n] = 'limbo'; return ('remove', n)
        if x < 0.92 and allow_rb:
            if not valid: return None
            n = r.choice(valid); t = r.randrange(self.nt); self.state[n] = ('rb', t); return ('rb', t, n)
        if x < 0.96: return ('wait', r.randrange(self.nt))
        return r.choice([('count',), ('list',)])

    def step(self):
        r = self.r; x = r.random()
        if x < 0.30:
            inj = []
            if r.random() < 0.35:
                # the order in which the points fire inside a poll: yield points, then the sink destructors of the clean-up loop
                order = [1, 30, 31, 32, 5, 6, 8] + [DTOR + n for n in range(self.ns)]
                keys = sorted((r.choice([1, 5, 6, 8, 8, 30, 31, 32] + [DTOR + r.randrange(self.ns)] * 3) for _ in range(r.randint(1, 2))), key=order.index)
                for key in keys:
                    ops = [o for o in (self.simple(allow_rb=False) for _ in range(r.randint(1, 2))) if o]
                    if ops: inj.append((key, ops))
            self.body.append(('poll', inj)); return
        if x < 0.38:
            # re-creation after a blocking removal, in the removing thread's program order
            rbs = [(n, s[1]) for n, s in self.state.items() if isinstance(s, tuple)]
            if rbs:
                n, t = r.choice(rbs)
                hs = self.pick_handles()
                ops = [('create', n, n, hs)] + [('log', t, n, self.m()) for _ in range(r.randint(0, 2))]
                self.body.append(('wait', t)); self.body.append(('iffree', t, ops)); return
        o = self.simple()
        if o: self.body.append(o)

    def run(self, n):
        for _ in range(n): self.step()
        return self.body


def gen_random(rng):
    g = Gen(rng)
    return (g.nt, g.run(rng.randint(8, 70)))


def gen_dtor(rng):
    """the window inside a clean-up pass: logger A (own sink) is removed and drained; the poll that erases it destroys A's
    sink, whose destructor makes another thread log through a still valid logger B and remove B; then more polls.
    Variations: name order of A and B, sharing, handles kept, not fully drained, what the destructor does, a third logger,
    blocking removals."""
    r = rng
    nt = r.choice([2, 2, 3])
    ln = r.sample(range(4), 3)                      # logger names = variables; A, B, C
    if r.random() < 0.7 and ln[0] > ln[1]: ln[0], ln[1] = ln[1], ln[0]     # mostly A before B in the registry
    A, B, C = ln
    withC = r.random() < 0.4
    msg = [100]
    def m():
        msg[0] += 1; return msg[0]
    b = [('sink', 0, 0), ('sink', 1, 1)]
    x = r.random()
    sa = (0,) if x < 0.8 else ((1, 0) if x < 0.9 else (0, 1))             # A's sinks: its own one, mostly alone and last
    y = r.random()
    sb = (1,) if y < 0.8 else ((0,) if y < 0.9 else (1, 0))
    cr = [('create', A, A, sa), ('create', B, B, sb)] + ([('create', C, C, r.choice([(0,), (1,), (0, 1), ()]))] if withC else [])
    r.shuffle(cr); b += cr
    for h in (0, 1):
        if r.random() < 0.85: b.append(('drop', h))
    lgs = [A, B] + ([C] if withC else [])
    logs = [('log', r.randrange(nt), r.choice(lgs), m()) for _ in range(r.randint(0, 4))]
    early = r.random() < 0.3
    rbA = r.random() < 0.2
    tA = r.randrange(nt)
    rmA = ('rb', tA, A) if rbA else ('remove', A)
    b += logs
    ncommit = len(logs) + (1 if rbA else 0)
    drain = [('poll', [])] * max(0, ncommit + r.choice([0, 0, 0, 0, 1, -1]))
    # A removed right after its last statement, or after the backend has written everything
    b += ([rmA] + drain) if early else (drain[:len(logs)] + [rmA] + drain[len(logs):])
    others = [t for t in range(nt) if not (rbA and t == tA)] or [0]
    tB = r.choice(others)
    z = r.random()
    if z < 0.55: ops = [('log', tB, B, m()), ('remove', B)]
    elif z < 0.65: ops = [('log', tB, B, m()), ('log', r.choice(others), B, m()), ('remove', B)]
    elif z < 0.75: ops = [('log', tB, B, m()), ('rb', tB, B)]
    elif z < 0.85: ops = [('log', tB, B, m())]
    elif z < 0.92: ops = [('remove', B)]
    else: ops = [('sink', 2, 0), ('log', tB, B, m()), ('drop', 1), ('remove', B), ('count',)]
    if withC and r.random() < 0.3: ops.insert(r.randrange(len(ops) + 1), ('log', r.choice(others), C, m()))
    pre = []
    if withC and r.random() < 0.25:
        # B is already removed (and drained) when the pass starts; inside the pass - A's sink dying - another thread logs
        # through the valid logger C: the queues are not empty when the pass reaches B, which must be retried by a later
        # pass although nobody calls remove_logger again
        pre = [('remove', B)] if r.random() < 0.7 else [('rb', tB, B)]
        ops = [('log', r.choice([t for t in others if not (pre[0][0] == 'rb' and t == tB)] or others), C, m())]
    inj = [(DTOR + sa[-1], ops)]
    b += pre
    first = ([(r.choice([1, 6, 8]), [('log', r.choice(others), C if withC else B, m())])] if r.random() < 0.15 else []) + inj
    # the destructor injection is armed in 1-3 polls in a row (it fires at most once: the sink dies once)
    b += [('poll', first)] + [('poll', inj)] * r.choice([0, 0, 1, 2])
    Bgone = bool(pre) or any(o[0] in ('remove', 'rb') for o in ops)
    tail = []
    for _ in range(r.randint(0, 4)):
        w = r.random()
        if w < 0.6: tail.append(('poll', []))
        elif w < 0.75 and withC: tail.append(('log', r.choice(others), C, m()))
        elif w < 0.85: tail.append(('wait', r.randrange(nt)))
        else: tail.append(r.choice([('count',), ('list',)]))
    b += tail
    if withC and r.random() < 0.4:
        b += [('rb', r.choice(others), C)] + [('poll', [])] * r.randint(0, 3)
    elif not Bgone and r.random() < 0.5:
        b += [('rb', r.choice(others), B)] + [('poll', [])] * r.randint(0, 3)
    return (nt, b)


def gen_scenarios(rng):
    """the case-split boundaries of the proofs"""
    out = []
    # remove immediately after the last log; remove while another thread's older statements are still queued
    for k in (0, 1, 3):
        for polls in (0, 1, 2):
            b = [('sink', 0, 0), ('create', 0, 0, (0,))] + [('log', 0, 0, 100 + i) for i in range(k)] + [('log', 1, 0, 200 + i) for i in range(k)]
            b += [('poll', [])] * polls + [('remove', 0), ('drop', 0)]
            out.append((2, b))
            b2 = b[:-2] + [('rb', 1, 0), ('drop', 0)]
            out.append((2, b2))
    # remove/re-create cycles over one name with alternating sinks
    for cyc in (1, 2, 5, 12, 20):
        b = [('sink', 0, 0), ('sink', 1, 1)]
        for c in range(cyc):
            h = c % 2
            b += [('create', 0, 0, (h,)), ('log', 0, 0, 1000 + 2 * c), ('log', 1, 0, 1001 + 2 * c), ('rb', 0, 0)]
            b += [('poll', [])] * 4 + [('wait', 0)]
        b += [('iffree', 0, [('create', 0, 0, (0, 1)), ('log', 0, 0, 5000)])]
        out.append((2, b))
    # sinks shared by 2-3 loggers in every subset pattern; remove one, keep logging through the others
    for mask in range(1, 8):
        for rm in range(3):
            b = [('sink', 0, 0), ('sink', 1, 1), ('sink', 2, 2)]
            for lg in range(3):
                hs = tuple(h for h in range(3) if (mask >> ((h + lg) % 3)) & 1)
                b.append(('create', lg, lg, hs))
            b += [('log', 0, lg, 300 + lg) for lg in range(3)]
            b += [('drop', 0), ('drop', 1), ('drop', 2), ('remove', rm)] + [('poll', [])] * 5
            b += [('log', 0, lg, 400 + lg) for lg in range(3) if lg != rm] + [('poll', [])] * 3
            out.append((1, b))
    # a statement committed at a yield point of the poll that would otherwise free the logger
    for key in (1, 30, 31, 6, 8):
        b = [('sink', 0, 0), ('create', 0, 0, (0,)), ('create', 1, 1, (0,)), ('log', 0, 0, 100), ('poll', []), ('remove', 0),
             ('poll', [(key, [('log', 1, 1, 101)])]), ('poll', []), ('poll', [])]
        out.append((2, b))
        b = [('sink', 0, 0), ('create', 0, 0, (0,)), ('create', 1, 1, (0,)), ('poll', []),
             ('poll', [(key, [('log', 1, 1, 101), ('remove', 1)])]), ('poll', []), ('poll', [])]
        out.append((2, b))
    # handle dropped before / after the logger goes; sink re-created under the same name afterwards
    for order in range(2):
        b = [('sink', 0, 0), ('create', 0, 0, (0,)), ('log', 0, 0, 100)]
        b += ([('drop', 0), ('remove', 0)] if order else [('remove', 0), ('drop', 0)]) + [('poll', [])] * 3
        b += [('sink', 1, 0), ('create', 1, 1, (1,)), ('log', 0, 1, 101)]
        out.append((1, b))
    # expired sink entry: handle dropped with no logger, same name created again, then a removal prunes
    b = [('sink', 0, 0), ('drop', 0), ('sink', 0, 0), ('sink', 1, 0), ('drop', 0), ('drop', 1), ('sink', 2, 0), ('create', 0, 0, (2,)),
         ('remove', 0), ('poll', []), ('poll', []), ('sink', 3, 0), ('sink', 4, 1)]
    out.append((1, b))
    # idempotence: create twice, get, lists; names inserted in every order
    for perm in ((0, 1, 2), (2, 1, 0), (1, 0, 2), (1, 2, 0)):
        b = [('sink', 0, 0)] + [('create', n, n, (0,)) for n in perm] + [('list',), ('count',)] + [('create', n, n, ()) for n in perm] + \
            [('get', n, n) for n in perm] + [('get', 3, 3), ('list',)]
        out.append((1, b))
    # inside a clean-up pass: the poll that erases A destroys A's own sink; from that destructor another thread logs
    # through B (still valid) and removes B. B is looked at later in the same pass when it sorts after A. With and
    # without the final drain (without: the trace stops right after the pass)
    for (A, B) in ((0, 1), (1, 0)):
        for v in range(5):
            for drained in (False, True):
                ops = [[('log', 1, B, 102), ('remove', B)], [('log', 1, B, 102), ('log', 0, B, 103), ('remove', B)], [('log', 1, B, 102), ('rb', 1, B)],
                       [('log', 1, B, 102)], [('remove', B)]][v]
                b = [('sink', 0, 0), ('sink', 1, 1), ('create', A, A, (0,)), ('create', B, B, (1,)), ('drop', 0), ('drop', 1),
                     ('log', 0, A, 100), ('log', 1, B, 101), ('poll', []), ('poll', []), ('remove', A), ('poll', [(DTOR + 0, ops)])]
                if drained: b += [('poll', []), ('poll', [])]
                out.append((2, b, drained))
    # the same with B sharing its sink with a third, valid logger (no sink dies with B), and with A removed by remove_logger_blocking
    b = [('sink', 0, 0), ('sink', 1, 1), ('create', 0, 0, (0,)), ('create', 1, 1, (1,)), ('create', 2, 2, (1,)), ('drop', 0), ('drop', 1),
         ('log', 0, 0, 100), ('log', 1, 1, 101), ('log', 1, 2, 102), ('poll', []), ('poll', []), ('poll', []), ('remove', 0),
         ('poll', [(DTOR + 0, [('log', 1, 1, 103), ('remove', 1)])])]
    out.append((2, b, False)); out.append((2, b + [('poll', [])], True))
    b = [('sink', 0, 0), ('sink', 1, 1), ('create', 0, 0, (0,)), ('create', 1, 1, (1,)), ('drop', 0), ('drop', 1),
         ('log', 0, 0, 100), ('poll', []), ('rb', 0, 0), ('poll', []), ('poll', [(DTOR + 0, [('log', 1, 1, 101), ('remove', 1)])]), ('wait', 0)]
    out.append((2, b, False)); out.append((2, b + [('poll', [])], True))
    # two blocking removals in flight from two threads
    b = [('sink', 0, 0), ('create', 0, 0, (0,)), ('create', 1, 1, (0,)), ('log', 0, 0, 1), ('log', 1, 1, 2), ('rb', 0, 0), ('rb', 1, 1),
         ('log', 0, 1, 3), ('poll', []), ('wait', 0), ('poll', []), ('poll', []), ('wait', 1), ('poll', []), ('poll', []), ('wait', 0), ('wait', 1)]
    out.append((2, b))
    return out


def corpus():
    d = os.path.join(VERIF, 'corpus', PID); out = []
    if os.path.isdir(d):
        for f in sorted(os.listdir(d)):
            if f.endswith('.case'):
                out += [l.strip() for l in open(os.path.join(d, f)) if l.strip() and not l.startswith('#')]
    return out


def nontrivial(case, impl_line):
    """a logger was freed while or after statements went through it, and a sink was destroyed or survived by sharing"""
    try:
        ev = events(impl_line)
    except Exception:
        return False
    counts = [e[1] for e in ev if e[0] == 10]
    freed = any(b < a for a, b in zip(counts, counts[1:]))
    return freed and any(e[0] == 1 for e in ev) and any(e[0] in (7, 8) and e[-1] != 0 for e in ev)


def flags_from(facts):
    b = lambda k: '0' if facts.get(k) == 'false' else '1'
    return [b('c17_guard_queues'), b('c17_guard_tbufs'), b('c17_recheck_per_logger'), b('c17_flag_after_erase'),
            b('c17_prune_after_erase'), b('c17_get_checks_valid')]


WITNESS = [
    ('c17_guard_tbufs', 'the clean-up guard no longer looks at the transit buffers', 'cfg_no_tb', 'w_no_tb', 'C17_guard_tbuf_refuted'),
    ('c17_guard_queues', 'the clean-up guard no longer looks at every frontend queue', 'cfg_no_q', 'w_no_q', 'C17_guard_queue_refuted'),
    ('c17_recheck_per_logger', 'the guard is not evaluated again for each invalid logger (or is not the backend emptiness check)', 'cfg_no_recheck', 'w_no_recheck', 'C17_recheck_refuted'),
    ('c17_flag_after_erase', 'the removal flag is not stored after erase + cleanup_unused_sinks only', 'cfg_flag_early', 'w_flag_early', 'C17_flag_before_erase_refuted'),
    ('c17_prune_after_erase', 'cleanup_unused_sinks does not run after loggers were erased', 'cfg_no_prune', 'w_no_prune', 'C17_no_prune_refuted'),
    ('c17_get_checks_valid', 'get_logger does not test validity', 'cfg_get_any', '[FCreateSink 0 0; FCreate 0 0 [0]; FRemove 0; FGet 1 0]', 'C17_get_invalid_refuted'),
    ('c17_spin_exchange', 'Spinlock::lock exchange is not an acquire', '{| x_acq := false; u_rel := true |}', 'sp_trace', 'C17_spin_relaxed_exchange_refuted'),
    ('c17_spin_unlock_store', 'Spinlock::unlock is not a release store', '{| x_acq := true; u_rel := false |}', 'sp_trace', 'C17_spin_relaxed_unlock_refuted'),
]
FACT_KEYS = ('c17_guard_queues', 'c17_guard_tbufs', 'c17_recheck_per_logger', 'c17_flag_after_erase', 'c17_prune_after_erase',
             'c17_get_checks_valid', 'c17_request_before_invalidate', 'c17_sink_table_weak', 'c17_logger_shares_sinks', 'c17_registry_owns_loggers',
             'c17_spin_spin_load', 'c17_spin_exchange', 'c17_spin_unlock_store', 'c17_valid_store', 'c17_valid_load', 'c17_inv_flag_set', 'c17_inv_flag_load')


def with_flags(case, fl):
    t = case.split(); t[1:7] = [str(x) for x in fl]; return ' '.join(t)


def known_match_for(ck):
    """open findings of this property: signature = {'kind': ..., 'monitor_re': regex on the monitor text, 'case_re': regex on the case}"""
    opens = ck.known_for()
    def km(case, impl_line, mf):
        for f in opens:
            sig = f.get('signature', {})
            if sig.get('monitor_re') and re.search(sig['monitor_re'], mf or '') and re.search(sig.get('case_re', ''), case):
                return '%s: %s' % (f.get('id'), f.get('what'))
        return None
    return km if opens else None


def coverage(cases, impl):
    h = {}; b = dict(loggers_freed=0, blocking_returned=0, sinks_destroyed=0, names_recreated=0, cases_with_injection=0, cases_with_sink_destructor_injection=0,
                 sink_destructor_injections_fired=0, shared_sink_cases=0, writes=0)
    for c, i in zip(cases, impl):
        try:
            _, _, ops = parse(c); ev = events(i)
        except Exception:
            continue
        def cnt(o):
            h[o[0]] = h.get(o[0], 0) + 1
            if o[0] == 'poll':
                for _, xs in o[1]:
                    for x in xs: cnt(x)
            if o[0] == 'iffree':
                for x in o[2]: cnt(x)
        for o in ops: cnt(o)
        if any(o[0] == 'poll' and o[1] for o in ops): b['cases_with_injection'] += 1
        if any(o[0] == 'poll' and any(k >= DTOR for k, _ in o[1]) for o in ops): b['cases_with_sink_destructor_injection'] += 1
        # a sink destroyed by the backend (not by a handle reset: 14 h 1 just before) followed by a frontend call before the poll ends
        b['sink_destructor_injections_fired'] += sum(1 for j in range(1, len(ev) - 1) if ev[j][0] == 2 and not (ev[j - 1][0] == 14 and ev[j - 1][2] == 1)
                                                     and ev[j + 1][0] in (3, 14, 6, 7, 8, 9))
        counts = [e[1] for e in ev if e[0] == 10]
        b['loggers_freed'] += sum(max(0, x - y) for x, y in zip(counts, counts[1:]))
        b['blocking_returned'] += sum(1 for e in ev if e[0] == 9 and e[2] == 1)
        b['sinks_destroyed'] += sum(1 for e in ev if e[0] == 2)
        b['writes'] += sum(1 for e in ev if e[0] == 1)
        created = {}
        for e in ev:
            if e[0] == 4:
                if e[2] in created and created[e[2]] != e[3]: b['names_recreated'] += 1
                created[e[2]] = e[3]
        sinks = [set(e[4]) for e in ev if e[0] == 4 and e[4]]
        if any(a & b2 for k2, a in enumerate(sinks) for b2 in sinks[k2 + 1:]): b['shared_sink_cases'] += 1
    return h, b


def mt_runs(ck, tier):
    """real threads + the real backend thread (harness/lg_mt.cpp): every thread cycles create / look up / log / remove_logger_blocking /
    check-on-return; plain, ThreadSanitizer and AddressSanitizer builds. Returns (failure text or None, info)"""
    confs = ((2, 400, 10), (4, 300, 20), (8, 150, 5))
    flags = {'plain': [], 'tsan': ['-fsanitize=thread'], 'asan': ['-fsanitize=address,undefined']}
    info = {}
    for kind in (('plain',) if tier == 'quick' else ('plain', 'tsan', 'asan')):
        exe, err = ck.build_harness('lg_mt_' + kind, ['lg_mt.cpp'], flags=flags[kind], san=False)
        if not exe:
            return 'lg_mt.cpp (%s) does not compile against /repo: %s' % (kind, err[-300:]), None
        runs = []
        for T, R, M in confs:
            env = dict(os.environ, TSAN_OPTIONS='halt_on_error=1:exitcode=66', ASAN_OPTIONS='detect_leaks=0:exitcode=99')
            rc, so, se = sh([exe, str(T), str(R), str(M)], timeout=300, env=env)
            runs.append((T, R, M, rc, so.strip()[:80]))
            if rc != 0 or not so.startswith('OK'):
                m = re.search(r'(WARNING: ThreadSanitizer: [^\n]+|ERROR: AddressSanitizer: [^\n]+|runtime error: [^\n]+)', se or '')
                loc = re.findall(r'#\d+ [^\n]*(?:LoggerManager|SinkManager|BackendWorker|Spinlock|FrontendImpl)[^\n]*', se or '')[:3]
                return ('real-thread run (%s) threads=%d rounds=%d statements=%d: rc=%s %s %s %s'
                        % (kind, T, R, M, rc, so.strip()[:160] or ('no answer within the time limit' if rc == 'TIMEOUT' else ''),
                           m.group(1) if m else (se or '')[-200:], ' | '.join(x.strip() for x in loc))), \
                       {'harness': 'harness/lg_mt.cpp', 'build': kind, 'args': [T, R, M]}
        info[kind] = runs
    return None, info


def run(tier):
    ck = Check(PID, tier)
    broken = standard_proof_phase(ck, 'Properties_C17')
    facts = srcfacts_values()
    ck.tie.append({'T-src facts': {k: facts.get(k) for k in FACT_KEYS}})
    mexe, err = ck.build_modelrun()
    if not mexe:
        ck.violation('no-failing-input-found', 'model extraction/build failed: ' + err[-400:]); return ck.finish(trusted=TRUSTED)
    iexe, err = ck.build_harness('lg', ['lg.cpp'], flags=['-DNDEBUG', '-ldl'])
    if not iexe:
        ck.violation('no-failing-input-found', 'harness lg.cpp does not compile against /repo: ' + err[-600:]); return ck.finish(trusted=TRUSTED)
    fl = flags_from(facts)
    n = 2500 if tier == 'quick' else 60000
    first = [with_flags(c, fl) for c in corpus()] + [line(fl, *sc) for sc in gen_scenarios(ck.rng)]
    cases = first + [line(fl, *(gen_dtor(ck.rng) if k % 6 == 5 else gen_random(ck.rng))) for k in range(n)]
    il = ck.run_impl(iexe, first, per_case_timeout=20)
    nfail = sum(1 for l in il if l.startswith(('CRASH', 'HANG', 'NOOUTPUT')))
    if nfail >= 5:
        ck.notes.append('implementation crashes/hangs on %d of the %d corpus and scenario cases; generated cases skipped' % (nfail, len(first)))
        cases = first
    else:
        il = il + ck.run_impl(iexe, cases[len(first):], timeout=900, per_case_timeout=20, max_fail=25)
    ml = ck.run_model(mexe, cases)

    def shrink(case, mode):
        flags, nt, ops = parse(case); body, drained = split_suffix(nt, ops)
        def fails(b):
            c = line(flags, nt, b, with_suffix=drained)
            i = ck.run_impl(iexe, [c], per_case_timeout=20)[0]
            if mode == 'monitor': return monitor(c, i) is not None
            return ck.run_model(mexe, [c])[0] != i
        return line(flags, nt, ddmin(body, fails, max_tests=150), with_suffix=drained)

    def mon(case, impl_line):
        if impl_line == 'NOTRUN': return None
        return monitor(case, impl_line)
    dis, monf = correspond(ck, 'M-REG vs Frontend/LoggerManager/SinkManager/ManualBackendWorker', cases, ml, il, monitor=mon, shrink=shrink,
                           known_match=known_match_for(ck))
    if True:     # quick: the plain build only; thorough: plain, ThreadSanitizer, AddressSanitizer
        tmsg, tinfo = mt_runs(ck, tier)
        if tmsg:
            ck.violation('impl-failing-input', 'real threads over Frontend / LoggerManager / SinkManager with the real backend thread (checks at the return of remove_logger_blocking; sanitizers): ' + tmsg,
                         case=tinfo, expected='OK: every statement written before remove_logger_blocking returns, unshared sink destroyed, shared sink alive, name free; no data race; no use after free', observed=tmsg)
            tinfo = tmsg
    if broken and not ck.violations:
        for key, what, cfgname, trace, thm in WITNESS:
            v = facts.get(key)
            bad = (v == 'false') or (key == 'c17_spin_exchange' and v not in ('Acq', 'AcqRel', 'Sc')) or (key == 'c17_spin_unlock_store' and v not in ('Rel', 'AcqRel', 'Sc'))
            if v is not None and bad:
                ck.violation('model-witness', what + ' (SrcFacts.%s = %s); broken: %s' % (key, v, '; '.join(broken)[:300]),
                             case={'model': 'Registry.RegModel.mrun ' + cfgname + ' (st0 1)' if not key.startswith('c17_spin') else 'Registry.SpinModel.srun ' + cfgname + ' (sp0 2)', 'ops': trace},
                             expected='the C17 clause of the good configuration', observed='violated in the model of the edited source (Theorem %s, checked by vm_compute)' % thm)
                break
        else:
            ck.violation('no-failing-input-found', '; '.join(broken))
    res = dict(zip(cases, il))
    nt_ = len(set(c for c in cases if nontrivial(c, res[c]))) if not monf else 0
    hist, bnd = coverage(cases, il)
    return ck.finish(trusted=TRUSTED, samples=[cases[0][:400], cases[len(first) + 1][:400] if len(cases) > len(first) + 1 else cases[-1][:400]],
                     rule='histories of create_or_get_sink / handle reset / create_or_get_logger / get_logger / log (1-3 threads) / remove_logger / remove_logger_blocking / wait / counts / poll_one with frontend calls injected at yield points 1, 3.k, 5, 6, 8 and inside the destructor of a sink destroyed by the clean-up loop, on the real Frontend + ManualBackendWorker; structured scenarios (inside a clean-up pass: the destructor of the erased logger\'s sink makes another thread log through / remove a second logger, in both registry orders, with and without the final drain, shared sink, blocking removal; remove right after the last log, older statements of another thread still queued, 1-20 remove/re-create cycles with alternating sinks, every sharing pattern of 3 sinks over 3 loggers, a statement committed inside the poll that would free the logger, handle dropped before/after, expired entries, idempotence in every insertion order, two blocking removals in flight) plus seeded random in-contract histories (5 of 6) and randomised variations of the clean-up-pass window (1 of 6); every case ends with a drain; non-trivial = a logger object was freed after statements were written and a removal was requested; distinct by case text',
                     evaluations=len(cases), distinct_nontrivial=nt_, traces=len(cases) - len(dis) - len(monf),
                     extra_cov={'disagreements': len(dis), 'monitor_failures': len(monf), 'corpus_cases': len(corpus()), 'scenario_cases': len(first) - len(corpus()),
                                'op_histogram': hist, 'boundaries_hit': bnd, 'model_variant_flags(guard_q,guard_tb,recheck,flag_late,prune,get_valid)': list(fl),
                                'implementation_crash_or_hang': sum(1 for l in il if l.startswith(('CRASH', 'HANG'))), 'real_thread_runs': tinfo})


def replay(path):
    d = json.load(open(path)); ck = Check(PID, 'quick')
    c = d.get('case')
    if not isinstance(c, str):
        print('replay:', json.dumps(d, indent=1)[:3000])
        if isinstance(c, dict) and c.get('harness') == 'harness/lg_mt.cpp':
            kind = c.get('build', 'plain')
            fl = {'plain': [], 'tsan': ['-fsanitize=thread'], 'asan': ['-fsanitize=address,undefined']}[kind]
            exe, _ = ck.build_harness('lg_mt_' + kind, ['lg_mt.cpp'], flags=fl, san=False)
            rc, so, se = sh([exe] + [str(x) for x in c['args']], timeout=300, env=dict(os.environ, TSAN_OPTIONS='halt_on_error=1:exitcode=66', ASAN_OPTIONS='detect_leaks=0:exitcode=99'))
            print('rc', rc, so.strip()[:200]); print((se or '')[:3000])
            return 0 if (rc == 0 and so.startswith('OK')) else 1
        return 1
    mexe, _ = ck.build_modelrun(); iexe, err = ck.build_harness('lg', ['lg.cpp'], flags=['-DNDEBUG', '-ldl'])
    if not iexe:
        print('harness does not compile:', err[-800:]); return 1
    i = ck.run_impl(iexe, [c], per_case_timeout=30)[0]
    print('case :', c); print('ops  :', parse(c)[2]); print('model:', ck.run_model(mexe, [c])[0]); print('impl :', i); print('monitor:', monitor(c, i))
    return 1 if monitor(c, i) else 0


def dev(n, seed=1):
    """development aid: correspondence + monitor only"""
    import random
    ck = Check(PID, 'quick', seed=seed)
    mexe, err = ck.build_modelrun(); assert mexe, err
    iexe, err = ck.build_harness('lg', ['lg.cpp'], flags=['-DNDEBUG', '-ldl']); assert iexe, err
    fl = [1] * 6
    cases = [line(fl, *sc) for sc in gen_scenarios(ck.rng)] + [line(fl, *(gen_dtor(ck.rng) if k % 6 == 5 else gen_random(ck.rng))) for k in range(n)]
    ml = ck.run_model(mexe, cases); il = ck.run_impl(iexe, cases)
    bad = 0
    for c, m, i in zip(cases, ml, il):
        mf = monitor(c, i)
        if m != i or mf:
            bad += 1
            if bad <= 3: print('CASE', c); print('MODEL', m); print('IMPL ', i); print('MON  ', mf)
    print('cases', len(cases), 'bad', bad, 'nontrivial', sum(1 for c, i in zip(cases, il) if nontrivial(c, i)))


if __name__ == '__main__':
    sys.path.insert(0, os.path.join(VERIF, 'lib'))
    if sys.argv[1:2] == ['--dev']:
        dev(int(sys.argv[2]), int(sys.argv[3]) if len(sys.argv) > 3 else 1)
