"""C13 — rendered time = strftime of the instant + exact fractional digits.
Proof: Props/Properties_C13.v (Time/TimeModel.v is the executable model of StringFromTime and
TimestampFormatter; libc strftime / gmtime_r / localtime_r / the zone are Section variables with
hypotheses H1-H3, zone_ok).  Tie: T-corr, extracted model vs the real classes on generated
(pattern, zone, instant sequence) cases; the oracle tables of the model are filled from the real
libc by the harness for exactly the case at hand; a monitor evaluates the property directly on the
implementation; H1-H3 (+ the noon/midnight formula, + tzscan's reading of the zone files) are
sampled against libc on every run.  The model has a code-variant flag (strict: the repaired constructor that
rejects unpatchable time-of-day conversions and a repeated specifier / the pinned earlier code); the flag of a run comes
from the T-src facts c13_rejects_unpatchable and c13_rejects_repeated_spec (tools/srcfacts.py, TieC13.v)."""
import json, os, sys, time, calendar
from vlib import Check, standard_proof_phase, correspond, ddmin, VERIF
sys.path.insert(0, os.path.join(VERIF, 'tools'))
import tzscan

PID = 'C13'
MANIFEST = dict(
    text='Machine-checked proof (Coq): for every pattern over the handled (H M S I k l s), coarse (date/zone) and rewritten (r R T) strftime conversions and literals, with at most one of %Qms/%Qus/%Qns at any position, in GMT or in local time for every zone satisfying zone_ok (changes of offset/abbreviation only at epoch-aligned quarter hours, offsets multiples of 900 s), and for every sequence of instants (increasing, repeated, decreasing), the text produced by the model of TimestampFormatter/StringFromTime equals strftime of the instant with the specifier replaced by the zero-padded fraction (C13_gmt, C13_local, C13_frac), and two different specifiers or %X are rejected (C13_rejects); libc is an oracle with hypotheses H1-H3 stated in the theorems and sampled against the real libc on every run. The model carries a code-variant flag strict (true = the repaired constructor, false = the pinned earlier one; the main theorems hold for both): with strict the same specifier twice is rejected (C13_rejects), and StringFromTime::init rejects every conversion that embeds the time of day but that the cache cannot patch - %c, and H M S I k l s r R T X behind any run of the bytes - _ 0 ^ # 1-9 E O, e.g. %Ec %EX %OH %-H %_5M - on every token list, and whenever the constructor accepts, the segments handed to StringFromTime pass that scan (C13_rejects_unpatchable); the variant that stands for /repo is fixed by T-src (tools/srcfacts.py c13_facts: skeletons of init() and of the constructor and the three character sets, TieC13.v by vm_compute, C13_code_variant_rejects). The former findings D8 (fine conversions), N3 (glibc flag forms) and N1 (same specifier twice) are kept as statements about the pinned variant next to the repaired one (C13_fine_pinned, C13_flagged_pinned, C13_same_spec_pinned). Refutations still standing: zones changing offset off the quarter-hour grid (C13_offgrid_refuted, D9), %% directly before r R T X Q is misparsed (C13_pct_refuted, N2). Tied to the real classes by differential runs of the extracted model (oracle tables filled from the real libc per case) plus a direct property monitor; tools/tzscan.py checks zone_ok on every TZif file for 2001-2100.',
    design='5 C13', technique='Coq invariant proof over instant sequences with libc as a hypothesis-carrying oracle + extracted-model/implementation differential correspondence + tz database scan')
TRUSTED = [
    'Coq 8.16.1 kernel (coqc, vm_compute for the refutation witnesses; no native_compute)',
    'axioms: none (every theorem Closed under the global context; libc hypotheses H1-H3, zone_ok are premises in the statements)',
    'premises standing for libc (sampled on every run against gmtime_r/localtime_r/strftime of this machine, C locale): H1 strftime is compositional at conversion boundaries and %r %R %T equal their expansions; H2 %H %M %S %I %k %l (%s) render the decomposition of (t + off t) mod 86400 (resp. t); H3 literals and coarse conversions are constant while offset, zone type and half-day index are constant; _next_noon_or_midnight_timestamp(t) = 43200*(t/43200+1) (gmtime_r+timegm, sampled through a derived class)',
    'zone hypothesis zone_ok checked per TZif file by tools/tzscan.py (its parser is cross-checked against libc tm_gmtoff/tm_zone around every transition used)',
    'extraction: ExtrOcamlBasic only, OCaml 4.13.1 ocamlopt, extract/driver.ml; the table-backed oracle closure in time_run_enc',
    'correspondence harness harness/time.cpp (setenv TZ + tzset per case, one child process per zone), g++ -fsanitize=address,undefined; python tokenizer/monitor in props/c13.py',
    'T-src: tools/srcfacts.py c13_facts (clang 14 JSON AST skeletons of StringFromTime::init and the TimestampFormatter constructor, error-message wording stripped; the for-header is additionally matched on the comment-stripped source text) decides the model flag strict; TieC13.v pins the skeletons and the character sets "-_0^#123456789EO" / "HMSIklsrRTX" / "c" to the model\'s skip_chars / time_chars by vm_compute',
    'modelled rather than verified: StringFromTime/TimestampFormatter are re-stated in Gallina (Time/TimeModel.v); libfmt format_to "{:02}" "{:2}" "{:10}" and format_int are modelled as decimal rendering with left padding; std::string find/replace as list functions; libc, tzdata and the C locale are oracles; leap-second zones (right/) and negative instants are outside the model',
]

STRICT = 1                      # model flag: 1 = the repaired constructor (T-src facts c13_rejects_*), 0 = the pinned earlier code; set by run()/replay()
HANDLED = 'HMSIkls'
COARSE = list('YymdejaAbBhpPuwCGgVUWDFntzZx%') + ['EC', 'Ex', 'Ey', 'EY', 'Od', 'Oe', 'Om', 'Ou', 'Ow', 'Oy', 'OU', 'OV', 'OW']
REWRITTEN = 'rRT'
FINE = ['c', 'Ec', 'EX', 'OH', 'OM', 'OS', 'OI']
GLIBC_FLAGS = '-_0^#'          # %-H %_M %0S ... (glibc extension): never patched in the cache (finding N3); the repaired init() rejects them
TIME_LETTERS = 'HMSIklsrRTc'
FRACS = {'ms': (3, 10 ** 6), 'us': (6, 10 ** 3), 'ns': (9, 1)}
SPECIAL_Q = 'HMSIkls'          # the property's own exclusion: no %% directly before these
SPECIAL_N2 = 'rRTXQ'           # finding N2: %% directly before these is misparsed as well
QUICK_ZONES = ['UTC', 'America/New_York', 'Asia/Kolkata', 'Asia/Kathmandu', 'Pacific/Chatham', 'Australia/Lord_Howe',
               'Pacific/Apia', 'Asia/Tehran', 'Europe/London', 'Europe/Dublin', 'America/Sao_Paulo', 'Africa/Casablanca',
               'America/Caracas', 'Pacific/Kiritimati']
T_LO, T_HI = tzscan.T_LO, tzscan.T_HI
E9 = 10 ** 9


# ----------------------------------------------------------------------------- patterns
def flat(items):
    out = b''
    for it in items:
        if it[0] == 'L': out += it[1]
        elif it[0] == 'C': out += b'%' + it[1]
        else: out += b'%Q' + it[1]
    return out


def tokenize(pat):
    """the spec-side reading of a pattern: strftime's tokenisation + the %Qms/%Qus/%Qns extension"""
    items = []; i = 0; lit = b''
    def fl():
        nonlocal lit
        if lit: items.append(('L', lit)); lit = b''
    while i < len(pat):
        c = pat[i:i + 1]
        if c != b'%':
            lit += c; i += 1; continue
        fl()
        n1 = pat[i + 1:i + 2]
        if n1 == b'Q' and pat[i + 2:i + 4] in (b'ms', b'us', b'ns'):
            items.append(('F', pat[i + 2:i + 4])); i += 4
        else:
            # glibc: '%' flags* width? [EO]? letter
            j = i + 1
            while j + 1 < len(pat) and pat[j:j + 1] in (b'-', b'_', b'0', b'^', b'#'): j += 1
            while j + 1 < len(pat) and pat[j:j + 1].isdigit(): j += 1
            if j + 1 < len(pat) and pat[j:j + 1] in (b'E', b'O'): j += 1
            items.append(('C', pat[i + 1:j + 1])); i = j + 1
    fl()
    return items


def conv_class(body):
    b = body.decode('latin1')
    if len(b) == 1 and b in HANDLED: return 'handled'
    if b in COARSE: return 'coarse'
    if len(b) == 1 and b in REWRITTEN: return 'rewritten'
    if b == 'X': return 'rejected'
    if b in FINE: return 'fine'
    k = 0
    while k < len(b) - 1 and (b[k] in GLIBC_FLAGS or b[k].isdigit()): k += 1
    if k > 0:      # a flag / width form of a conversion that embeds the time of day (finding N3)
        rest = b[k:]
        if rest in FINE or rest == 'X' or (len(rest) == 1 and rest in TIME_LETTERS): return 'fine'
    return None


def pct_before(items, letters):
    """is there a literal %% directly followed by a literal starting with one of `letters`"""
    hits = []
    for a, b in zip(items, items[1:]):
        if a == ('C', b'%') and b[0] == 'L' and chr(b[1][0]) in letters:
            hits.append(chr(b[1][0]))
    return hits


# ----------------------------------------------------------------------------- cases
class Case:
    """short form: time <strict> <local> <zlen> zone.. <plen> pattern.. <n> ns..; full form adds the oracle tables.
    <strict> is the model's code-variant flag; it is always written from the current T-src facts (STRICT)"""
    def __init__(self, local, zone, pat, nss, stream='structured'):
        self.local = int(bool(local)); self.zone = zone; self.pat = bytes(pat); self.nss = list(nss); self.stream = stream
        self.full = None; self.tab = {}; self.info = {}

    def short(self):
        z = self.zone.encode()
        return ' '.join(map(str, ['time', STRICT, self.local, len(z)] + list(z) + [len(self.pat)] + list(self.pat) + [len(self.nss)] + self.nss))

    def secs(self):
        return sorted(set(ns // E9 for ns in self.nss))

    def key(self):
        return (self.local, self.zone, self.pat, tuple(self.nss))


def parse_case(line):
    t = line.split()
    a = [int(x) for x in t[1:]]
    i = 1          # a[0] = the model flag the line was written with; cases are re-issued with the current one
    local = a[i]; i += 1
    n = a[i]; zone = bytes(a[i + 1:i + 1 + n]).decode(); i += 1 + n
    n = a[i]; pat = bytes(a[i + 1:i + 1 + n]); i += 1 + n
    n = a[i]; nss = a[i + 1:i + 1 + n]; i += 1 + n
    c = Case(local, zone, pat, nss)
    if i < len(a):          # oracle tables present
        k = a[i]; i += 1
        for _ in range(k):
            n = a[i]; f = bytes(a[i + 1:i + 1 + n]); i += 1 + n
            tt = a[i]; i += 1
            n = a[i]; o = bytes(a[i + 1:i + 1 + n]); i += 1 + n
            c.tab[(f, tt)] = o
        c.full = line
    return c


def dec_strs(nums, i, count):
    out = []
    for _ in range(count):
        n = nums[i]; out.append(bytes(nums[i + 1:i + 1 + n])); i += 1 + n
    return out, i


class Pipeline:
    """short cases -> (model: formats it will query) -> (harness: libc oracle per zone) -> full cases
    -> model observations, implementation observations"""
    def __init__(self, ck, mexe, iexe):
        self.ck = ck; self.mexe = mexe; self.iexe = iexe; self.hyp_fail = []; self.hyp_checked = {}; self.recalc_fail = []

    def by_zone(self, cases, lines):
        groups = {}
        for k, c in enumerate(cases):
            groups.setdefault(c.zone, []).append(k)
        out = [None] * len(cases)
        for z, ks in groups.items():
            res = self.ck.run_impl(self.iexe, [lines[k] for k in ks], env={'TZ': z}, timeout=600)
            for k, r in zip(ks, res): out[k] = r
        return out

    def fill(self, cases):
        ck = self.ck
        q = ['timeq %d %d %s' % (STRICT, len(c.pat), ' '.join(map(str, c.pat))) for c in cases]
        ml = ck.run_model(self.mexe, q)
        olines = []
        for c, l in zip(cases, ml):
            nums = [int(x) for x in l.split()]
            fs, _ = dec_strs(nums, 1, nums[0])
            items = tokenize(c.pat)
            extra = [flat([it]) for it in items if it[0] != 'F']
            seg = []; segs = []
            for it in items:
                if it[0] == 'F': segs.append(seg); seg = []
                else: seg.append(it)
            segs.append(seg)
            extra += [flat(s) for s in segs]
            c.seg_formats = [flat(s) for s in segs if s]
            extra += [b'%I:%M:%S %p', b'%H:%M', b'%H:%M:%S', b'%r', b'%R', b'%T'] + [b'%' + x.encode() for x in 'HMSIkl']
            if b'%s' in c.pat: extra.append(b'%s')
            c.formats = []
            for f in fs + extra:
                if f and f not in c.formats: c.formats.append(f)
            c.model_formats = [f for f in fs if f]
            z = c.zone.encode(); ts = c.secs()
            o = ['timeo', c.local, len(z)] + list(z) + [len(c.formats)]
            for f in c.formats: o += [len(f)] + list(f)
            o += [len(ts)] + ts
            olines.append(' '.join(map(str, o)))
        ol = self.by_zone(cases, olines)
        for c, l in zip(cases, ol):
            ts = c.secs()
            try:
                nums = [int(x) for x in l.split()]
            except ValueError:
                c.full = c.short() + ' 0 0'; c.oracle_error = l; continue
            i = 0
            for f in c.formats:
                for t in ts:
                    n = nums[i]; c.tab[(f, t)] = bytes(nums[i + 1:i + 1 + n]); i += 1 + n
            for t in ts:
                sod, off, dst = nums[i], nums[i + 1] - 1000000, nums[i + 2] - 1; i += 3
                n = nums[i]; ab = bytes(nums[i + 1:i + 1 + n]).decode('latin1'); i += 1 + n
                nnm, nqh = nums[i], nums[i + 1]; i += 2
                c.info[t] = dict(sod=sod, off=off, dst=dst, abbr=ab, nnm=nnm, nqh=nqh)
            tb = []; need = set(c.model_formats) | set(c.seg_formats) | ({b'%s'} if b'%s' in c.pat else set()); cnt = 0
            for (f, t), o in c.tab.items():
                if f in need:
                    tb += [len(f)] + list(f) + [t, len(o)] + list(o); cnt += 1
            sd = []
            for t in ts: sd += [t, c.info[t]['sod']]
            c.full = c.short() + ' ' + ' '.join(map(str, [cnt] + tb + [len(ts)] + sd))
        return cases

    def run(self, cases):
        self.fill(cases)
        lines = [c.full for c in cases]
        ml = self.ck.run_model(self.mexe, lines)
        il = self.by_zone(cases, lines)
        return ml, il

    # ------------------------------------------------------------------ hypotheses vs libc
    def sample_hypotheses(self, cases):
        def bump(h): self.hyp_checked[h] = self.hyp_checked.get(h, 0) + 1
        def fail(h, c, msg):
            if len(self.hyp_fail) < 5: self.hyp_fail.append('%s fails for libc: %s [%s]' % (h, msg, c.short()))
        def two(pad, n): return (b'%d%d' % (n // 10, n % 10)) if n >= 10 else pad + (b'%d' % n)
        for c in cases:
            if not c.info: continue
            if s_unreliable(c): bump('skipped: libc %s ambiguous'); continue
            items = tokenize(c.pat)
            known = all(it[0] != 'C' or conv_class(it[1]) for it in items)
            ts = c.secs()
            for t in ts:
                inf = c.info[t]
                # H2: seconds of day, field renderings
                if inf['sod'] != (t + inf['off']) % 86400: fail('H2 (sod = (t + off) mod 86400)', c, 't=%d sod=%d off=%d' % (t, inf['sod'], inf['off']))
                bump('H2-sod')
                if not c.local and inf['off'] != 0: fail('H2 (gmt offset 0)', c, 't=%d' % t)
                h, m, s = inf['sod'] // 3600, inf['sod'] % 3600 // 60, inf['sod'] % 60
                h12 = 12 if h % 12 == 0 else h % 12
                for f, exp in ((b'%H', two(b'0', h)), (b'%M', two(b'0', m)), (b'%S', two(b'0', s)), (b'%I', two(b'0', h12)),
                               (b'%k', two(b' ', h)), (b'%l', two(b' ', h12))):
                    bump('H2-field')
                    if c.tab.get((f, t)) != exp: fail('H2 (%s)' % f.decode(), c, 't=%d got %r expected %r' % (t, c.tab.get((f, t)), exp))
                if b'%s' in c.pat and (c.local or is_utc(c.zone)) and not pct_before(items, 's'):
                    # libc renders %s as mktime(tm): in a repeated local hour whose two readings have the same
                    # tm_isdst (a non-DST offset change, e.g. America/Caracas 2007-12-09) mktime cannot tell them
                    # apart and %s is not t. Such instants are outside the quantifier (counted, not hidden).
                    if c.tab.get((b'%s', t)) != b'%d' % t: bump('H2-s-not-meaningful-in-libc (mktime ambiguity)')
                    else: bump('H2-s')
                # rewrites (C locale)
                for a, b in ((b'%r', b'%I:%M:%S %p'), (b'%R', b'%H:%M'), (b'%T', b'%H:%M:%S')):
                    bump('H1-rewrite')
                    if c.tab[(a, t)] != c.tab[(b, t)]: fail('H1 (%s = %s)' % (a.decode(), b.decode()), c, 't=%d' % t)
                # H1: compositionality of the pattern segments and of the formats the model queried
                if known:
                    seg = []
                    for it in items + [('F', b'')]:
                        if it[0] == 'F':
                            if seg:
                                bump('H1')
                                if c.tab[(flat(seg), t)] != b''.join(c.tab[(flat([x]), t)] for x in seg):
                                    fail('H1 (compositional)', c, 't=%d fmt=%r' % (t, flat(seg)))
                            seg = []
                        else: seg.append(it)
                # noon/midnight and quarter hour formulas
                # the two recalculation-point functions of the implementation against the model's formulas
                bump('recalc-point')
                if inf['nnm'] != (t // 43200 + 1) * 43200 and len(self.recalc_fail) < 2:
                    self.recalc_fail.append('StringFromTime::_next_noon_or_midnight_timestamp(%d) = %d, the model (and gmtime_r/timegm on the unchanged code) gives %d [%s]' % (t, inf['nnm'], (t // 43200 + 1) * 43200, c.short()))
                if inf['nqh'] != (t // 900) * 900 + 900 and len(self.recalc_fail) < 2:
                    self.recalc_fail.append('StringFromTime::_next_quarter_hour_timestamp(%d) = %d, the model gives %d [%s]' % (t, inf['nqh'], (t // 900) * 900 + 900, c.short()))
            # H3: literals and coarse conversions constant while offset, zone type, half-day index are constant
            for it in items:
                if it[0] == 'L' or (it[0] == 'C' and conv_class(it[1]) == 'coarse'):
                    f = flat([it])
                    for t1 in ts:
                        for t2 in ts:
                            if t1 < t2:
                                a, b = c.info[t1], c.info[t2]
                                if (a['off'], a['dst'], a['abbr'], (t1 + a['off']) // 43200) == (b['off'], b['dst'], b['abbr'], (t2 + b['off']) // 43200):
                                    bump('H3')
                                    if c.tab[(f, t1)] != c.tab[(f, t2)]: fail('H3 (coarse constant)', c, 'fmt=%r t1=%d t2=%d' % (f, t1, t2))
            # tzscan's reading of the zone file vs libc
            if c.local and c.zone in ZCACHE:
                z = ZCACHE[c.zone]
                for t in ts:
                    ty = tzscan.type_at(z, t); inf = c.info[t]
                    bump('tzscan-vs-libc')
                    if (ty[0], ty[2]) != (inf['off'], inf['abbr']):
                        fail('tzscan parser agrees with libc', c, 't=%d tzscan=%r libc=%r' % (t, ty, (inf['off'], inf['abbr'])))


ZCACHE = {}
def zone(name):
    if name not in ZCACHE: ZCACHE[name] = tzscan.load(name)
    return ZCACHE[name]


AMBIG = {}
def s_unreliable(c):
    """libc renders %s as mktime(tm). Inside a repeated local hour whose two readings carry the same tm_isdst
    (an offset decrease that is not a DST end, e.g. America/Caracas 2007-12-09, America/Mendoza 2004-05-23)
    mktime cannot tell the readings apart and its answer even depends on hidden state (its cached offset guess):
    two strftime calls on the same tm may differ. Such (pattern, instant) pairs are outside the quantifier
    ("%s only where libc's own %s is meaningful") and cannot be compared; they are counted, not hidden."""
    if b'%s' not in c.pat or not c.local: return False
    if c.zone not in AMBIG:
        w = []
        try:
            for tr, a, b in tzscan.changes(zone(c.zone), 0, 2 ** 40):
                if b[0] < a[0] and a[1] == b[1]: w.append((tr - (a[0] - b[0]), tr + (a[0] - b[0])))
        except Exception:
            pass
        AMBIG[c.zone] = w
    return any(lo <= ns // E9 < hi for ns in c.nss for (lo, hi) in AMBIG[c.zone])


def is_utc(z):
    return z in ('UTC', 'Etc/UTC', 'GMT', 'Etc/GMT', 'UCT', 'Zulu', 'Universal', 'Greenwich', 'Etc/UCT', 'Etc/Universal', 'Etc/Zulu', 'Etc/Greenwich', 'GMT0', 'GMT+0', 'GMT-0', 'Etc/GMT0', 'Etc/GMT+0', 'Etc/GMT-0')


# ----------------------------------------------------------------------------- the property, directly
def spec_verdict(c):
    """(in_quantifier, must_reject, why_outside)"""
    items = tokenize(c.pat)
    for it in items:
        if it[0] == 'C' and conv_class(it[1]) is None:
            return False, False, 'unknown conversion %%%s' % it[1].decode('latin1')
    if pct_before(items, SPECIAL_Q): return False, False, '%% directly before one of H M S I k l s'
    if s_unreliable(c): return False, False, "libc's own %s is ambiguous here (repeated local hour without a DST flag change)"
    nfr = sum(1 for it in items if it[0] == 'F')
    # must be rejected: more than one fractional specifier (the same one twice included), %X, and every conversion that
    # embeds the time of day but that the cache cannot patch (it would show stale text): %c %Ec %EX %OH %OM %OS %OI and the
    # flag / width forms of H M S I k l s r R T c X
    rej = nfr >= 2 or any(it == ('C', b'X') for it in items) or any(it[0] == 'C' and conv_class(it[1]) == 'fine' for it in items)
    if not rej and any(it == ('C', b's') for it in items):
        if not (c.local or is_utc(c.zone)): return False, False, '%s in GMT mode under a non-UTC process zone'
        if any(not (E9 <= ns // E9 < 10 * E9) for ns in c.nss): return False, False, '%s outside ten-digit epochs'
        if any(c.tab.get((b'%s', ns // E9), b'%d' % (ns // E9)) != b'%d' % (ns // E9) for ns in c.nss):
            return False, False, "libc's own %s is not the instant here (mktime ambiguity in a repeated local hour without a DST flag change)"
    if any(not (T_LO <= ns // E9 < T_HI) for ns in c.nss): return False, False, 'instant outside 2001..2100'
    return True, rej, ''


def expected(c):
    items = tokenize(c.pat)
    segs = [[]]; fr = None
    for it in items:
        if it[0] == 'F': fr = it[1].decode(); segs.append([])
        else: segs[-1].append(it)
    out = []
    for ns in c.nss:
        t = ns // E9
        s = c.tab.get((flat(segs[0]), t), b'') if segs[0] else b''
        if fr:
            w, u = FRACS[fr]
            s += (b'%0*d' % (w, (ns % E9) // u))
            s += c.tab.get((flat(segs[1]), t), b'') if segs[1] else b''
        out.append(s)
    return out


def dec_obs(line):
    """implementation/model observation line -> ('reject', code) | ('ok', [bytes]) | ('other', text)"""
    try:
        nums = [int(x) for x in line.split()]
    except ValueError:
        return ('other', line)
    if not nums: return ('other', line)
    if nums[0] == 0: return ('reject', nums[1] if len(nums) > 1 else 0)
    if nums[0] != 1: return ('other', line)
    out = []; i = 1
    while i < len(nums):
        n = nums[i]; out.append(bytes(nums[i + 1:i + 1 + n])); i += 1 + n
    return ('ok', out)


def monitor_case(c, impl_line):
    inq, rej, _ = spec_verdict(c)
    if not inq: return None
    o = dec_obs(impl_line)
    if o[0] == 'other': return 'implementation did not produce a rendering: %s' % impl_line[:80]
    if rej:
        return None if o[0] == 'reject' else 'pattern %r uses more than one fractional specifier, %%X or a time-of-day conversion the cache cannot patch, but was accepted: rendered %r' % (c.pat, o[1][:1])
    if o[0] == 'reject': return 'valid pattern %r was rejected by the constructor (code %d)' % (c.pat, o[1])
    exp = expected(c)
    for k, (e, g) in enumerate(zip(exp, o[1])):
        if e != g:
            return 'instant #%d (%d ns, zone %s, %s): rendered %r but strftime + exact fraction gives %r (pattern %r)' % (
                k, c.nss[k], c.zone, 'local' if c.local else 'gmt', g, e, c.pat)
    if len(exp) != len(o[1]): return 'rendering count %d != %d instants' % (len(o[1]), len(exp))
    return None


# ----------------------------------------------------------------------------- known findings
def findings():
    """open findings of this property (known_findings.d/C13.json is the source tools/mkfindings.py assembles)"""
    p = os.path.join(VERIF, 'known_findings.d', PID + '.json')
    if not os.path.exists(p): p = os.path.join(VERIF, 'known_findings.json')
    return [f for f in json.load(open(p)) if f.get('property') == PID and f.get('status') == 'open']


def match_finding(c, fs):
    """the open finding this case's failure is attributable to (specific conversion / zone+instant / shape)"""
    items = tokenize(c.pat)
    nfr = [it[1] for it in items if it[0] == 'F']
    for f in fs:
        s = f['signature']
        if s['kind'] == 'same-frac-twice':
            if len(nfr) >= 2 and len(set(nfr)) == 1: return f
        elif s['kind'] == 'pct-before':
            if s['letter'] in pct_before(items, SPECIAL_N2): return f
    for f in fs:
        s = f['signature']
        if s['kind'] == 'fine-conversion':
            if any(it == ('C', s['conversion'][1:].encode()) for it in items): return f
        elif s['kind'] == 'fine-flagged':
            if any(it[0] == 'C' and len(it[1]) == 2 and chr(it[1][0]) == s['flag'] and chr(it[1][1]) in TIME_LETTERS for it in items): return f
        elif s['kind'] == 'zone-offgrid':
            if c.local and c.zone == s['zone']:
                for tr in s['instants']:
                    end = (tr // 900 + 1) * 900
                    if any(tr <= ns // E9 < end for ns in c.nss): return f
    return None


def finding_text(f):
    return '%s %s (replay %s)' % (f['id'], f['what'], f.get('replay'))


# ----------------------------------------------------------------------------- generators
LIT_CHARS = b':-/., T_Z[]()+|aHMSQXrms0159'


def gen_items(rng, lo=1, hi=8, fine=False):
    n = rng.randint(lo, hi); items = []
    for _ in range(n):
        r = rng.random()
        if r < 0.42: it = ('C', rng.choice(HANDLED).encode())
        elif r < 0.62: it = ('C', rng.choice(COARSE).encode())
        elif r < 0.72: it = ('C', rng.choice(REWRITTEN).encode())
        else:
            it = ('L', bytes(rng.choice(LIT_CHARS) for _ in range(rng.randint(1, 3))))
        if it[0] == 'L' and items and items[-1][0] == 'L':
            items[-1] = ('L', items[-1][1] + it[1]); continue
        if it[0] == 'L' and items and items[-1] == ('C', b'%') and chr(it[1][0]) in SPECIAL_Q + SPECIAL_N2:
            it = ('L', b'.' + it[1])
        items.append(it)
    return items


def anchors(rng, zname, local):
    """instants aimed at the case splits of the proof"""
    out = []
    base = rng.randrange(T_LO, T_HI - 400 * 86400)
    day = base // 86400 * 86400
    off = 0
    z = zone(zname) if local else None
    if z: off = tzscan.type_at(z, base)[0]
    kind = rng.choice(['second', 'minute', 'hour', 'noon', 'midnight', 'quarter', 'dst', 'dst', 'yearend', 'e9', 'lnoon', 'lmidnight', 'random'])
    if kind == 'second': a = base
    elif kind == 'minute': a = base // 60 * 60
    elif kind == 'hour': a = base // 3600 * 3600
    elif kind == 'noon': a = day + 43200
    elif kind == 'midnight': a = day + 86400
    elif kind == 'quarter': a = base // 900 * 900
    elif kind == 'lnoon': a = day + 43200 - off
    elif kind == 'lmidnight': a = day + 86400 - off
    elif kind == 'yearend': a = calendar.timegm((time.gmtime(base).tm_year + 1, 1, 1, 0, 0, 0)) - (off if rng.random() < 0.5 else 0)
    elif kind == 'e9': a = E9
    elif kind == 'dst':
        ch = tzscan.changes(z) if z else []
        if ch:
            tr = rng.choice(ch); a = tr[0]
            if rng.random() < 0.3: a = (a // 900 + 1) * 900
        else: a = day + 43200; kind = 'noon'
    else: a = base
    return a, kind


def gen_instants(rng, zname, local, need_e9):
    a, kind = anchors(rng, zname, local)
    lo = E9 if need_e9 else T_LO
    def clamp(t): return min(max(t, lo), T_HI - 1)
    ts = [clamp(a + rng.choice([-1, -1, 0, -2]))]
    n = rng.randint(2, 7)
    for _ in range(n):
        r = rng.random(); t = ts[-1]
        if r < 0.45: t += rng.choice([1, 1, 1, 2, 3, 59, 60, 61])
        elif r < 0.55: t += 0
        elif r < 0.80: t += rng.choice([1, -1]) * rng.choice([1, 3600, 43200, 86400, 365 * 86400, 900, 899, 901, 43199, 3599])
        elif r < 0.90: t = a + rng.choice([-1, 0, 1])
        else: t -= rng.choice([1, 2, 60, 3600, 7200])
        ts.append(clamp(t))
    fr = [0, 1, 999, 1000, 999999, 1000000, 999999999, 123456789, 100000000, 10000000, 5000, 50, 900000000]
    nss = [t * E9 + (rng.choice(fr) if rng.random() < 0.6 else rng.randrange(E9)) for t in ts]
    return nss, kind


def gen_structured(rng, n, zones):
    cases = []; hist = {}
    k = 0
    while len(cases) < n:
        items = gen_items(rng)
        has_s = ('C', b's') in items
        local = rng.random() < 0.6
        zn = zones[k % len(zones)]; k += 1
        if not local and has_s: zn = 'UTC'
        pos = rng.randint(0, len(items)) if rng.random() < 0.8 else None
        if pos is not None:
            items = items[:pos] + [('F', rng.choice(list(FRACS)).encode())] + items[pos:]
        nss, kind = gen_instants(rng, zn, local, has_s)
        c = Case(local, zn, flat(items), nss)
        for _ in range(6):
            if not s_unreliable(c): break
            nss, kind = gen_instants(rng, zn, local, has_s); c = Case(local, zn, flat(items), nss)
        hist[kind] = hist.get(kind, 0) + 1
        cases.append(c)
    return cases, hist


def gen_fracpos(rng, zones):
    """one pattern, the fractional specifier at every position, every kind"""
    cases = []
    items = [('C', b'Y'), ('L', b'-'), ('C', b'm'), ('L', b'-'), ('C', b'd'), ('L', b' '), ('C', b'H'), ('L', b':'), ('C', b'M'), ('L', b':'), ('C', b'S'), ('C', b'p')]
    for pos in range(len(items) + 1):
        for fk in FRACS:
            it2 = items[:pos] + [('F', fk.encode())] + items[pos:]
            zn = zones[(pos * 3) % len(zones)]
            nss, _ = gen_instants(rng, zn, pos % 2, False)
            cases.append(Case(pos % 2, zn, flat(it2), nss))
    return cases


def gen_malformed(rng, n, zones):
    """rejections (two different specifiers, %X) and patterns outside the quantifier (model vs code only);
    the rejections introduced by the repair of D8 / N1 / N3 have their own stream (gen_rejected)"""
    cases = []
    while len(cases) < n:
        items = gen_items(rng, 1, 5)
        r = rng.random()
        if r < 0.3:
            a, b = rng.sample(list(FRACS), 2)
            p1 = rng.randint(0, len(items)); items.insert(p1, ('F', a.encode()))
            p2 = rng.randint(0, len(items)); items.insert(p2, ('F', b.encode()))
        elif r < 0.55:
            items.insert(rng.randint(0, len(items)), ('C', b'X'))
            if rng.random() < 0.5: items.insert(rng.randint(0, len(items)), ('F', rng.choice(list(FRACS)).encode()))
        elif r < 0.7:
            items.insert(rng.randint(0, len(items)), ('C', b'%')); pat = flat(items)
            items = tokenize(pat.replace(b'%%', b'%%' + rng.choice(HANDLED).encode(), 1))
        elif r < 0.85:
            items.insert(rng.randint(0, len(items)), ('L', rng.choice([b'%-d', b'%_d', b'%5Y', b'%+', b'%Qxs', b'%Q', b'%EH', b'%Oz', b'%^a', b'%10H'])))
        else:
            items.append(('L', b'%'))
        zn = rng.choice(zones); local = rng.random() < 0.5
        if b'%s' in flat(items) and not local: zn = 'UTC'
        nss, _ = gen_instants(rng, zn, local, b'%s' in flat(items))
        cases.append(Case(local, zn, flat(items), nss, 'malformed'))
    return cases


def gen_rejected(rng, n, zones):
    """patterns the constructor must reject since the repair of D8 / N1 / N3: a fine conversion, a flag / width form of
    a conversion that embeds the time of day, or a fractional specifier used twice (model and code must both reject)"""
    cases = []; kinds = {}
    mods = [('', l) for l in TIME_LETTERS + 'X'] + [('E', 'c'), ('E', 'X'), ('O', 'H'), ('O', 'M'), ('O', 'S'), ('O', 'I')]
    while len(cases) < n:
        items = gen_items(rng, 0, 5)
        r = rng.random()
        if r < 0.25:
            kind = 'fine'; items.insert(rng.randint(0, len(items)), ('C', rng.choice(FINE).encode()))
        elif r < 0.75:
            kind = 'flagged'
            fl = ''.join(rng.choice(GLIBC_FLAGS) for _ in range(rng.choice([1, 1, 1, 2, 3]))) if rng.random() < 0.8 else ''
            w = rng.choice(['', '', '', '2', '5', '10'])
            if not fl and not w: fl = rng.choice(GLIBC_FLAGS)
            mod, letter = rng.choice(mods)
            items.insert(rng.randint(0, len(items)), ('C', (fl + w + mod + letter).encode()))
        else:
            kind = 'same-specifier-twice'; fk = rng.choice(list(FRACS)).encode()
            for _ in range(rng.choice([2, 2, 3])): items.insert(rng.randint(0, len(items)), ('F', fk))
        if kind != 'same-specifier-twice' and rng.random() < 0.5:
            items.insert(rng.randint(0, len(items)), ('F', rng.choice(list(FRACS)).encode()))
        merged = []
        for it in items:
            if it[0] == 'L' and merged and merged[-1][0] == 'L': merged[-1] = ('L', merged[-1][1] + it[1])
            else: merged.append(it)
        items = merged
        if pct_before(items, SPECIAL_Q + SPECIAL_N2) or tokenize(flat(items)) != items: continue
        pat = flat(items)
        zn = rng.choice(zones); local = rng.random() < 0.5
        if b'%s' in pat and not local: zn = 'UTC'
        nss, _ = gen_instants(rng, zn, local, b'%s' in pat)
        cases.append(Case(local, zn, pat, nss, 'rejected')); kinds[kind] = kinds.get(kind, 0) + 1
    return cases, kinds


def gen_known(rng, fs):
    """the dedicated known-finding stream: fine conversions, off-grid instants, same specifier twice, %% before r R T X Q"""
    cases = []
    for f in fs:
        s = f['signature']
        if s['kind'] == 'fine-conversion':
            cv = s['conversion'].encode()
            for pat, local, zn in ((cv, 0, 'UTC'), (b'%Y ' + cv + b'.%Qus %H', 1, 'Asia/Kolkata')):
                t = rng.randrange(T_LO, T_HI) // 900 * 900 + 5
                cases.append(Case(local, zn, pat, [t * E9, (t + 7) * E9 + 5000, (t + 3700) * E9], 'known'))
        elif s['kind'] == 'fine-flagged':
            fl = s['flag'].encode()
            for pat in (b'%' + fl + b'H:%' + fl + b'M:%' + fl + b'S', b'%d %' + fl + b'I.%Qms %' + fl + b'k'):
                t = rng.randrange(T_LO, T_HI) // 900 * 900 + 5
                cases.append(Case(0, 'UTC', pat, [t * E9, (t + 61) * E9 + 5000, (t + 3700) * E9], 'known'))
        elif s['kind'] == 'zone-offgrid':
            ins = s['instants']
            for tr in [ins[0], ins[-1], rng.choice(ins)]:
                g = (tr // 900 + 1) * 900
                cases.append(Case(1, s['zone'], b'%H:%M:%S %z %d', [x * E9 for x in (tr - 1, tr, tr + 1, g - 1, g)], 'known'))
        elif s['kind'] == 'same-frac-twice':
            for fk in FRACS:
                cases.append(Case(0, 'UTC', b'%H:%M:%S.%Q' + fk.encode() + b' %Q' + fk.encode(), [E9 * E9 + 123456789], 'known'))
        elif s['kind'] == 'pct-before':
            L = s['letter'].encode()
            pat = b'%H %%' + (b'Qms' if L == b'Q' else L) + b' %M'
            cases.append(Case(0, 'UTC', pat, [E9 * E9 + 123456789, (E9 + 61) * E9], 'known'))
    return cases


def nontrivial(c):
    """>= 2 distinct seconds, a handled conversion, and the cache was both patched (a later instant inside the
    recalculation window) and bypassed or rebuilt (an earlier instant, or one past the next recalculation point)"""
    items = tokenize(c.pat)
    if not any(it[0] == 'C' and conv_class(it[1]) in ('handled', 'rewritten') for it in items): return False
    ts = [ns // E9 for ns in c.nss]
    step = 900 if c.local else 43200
    patched = any(b > a and b // step == a // step for a, b in zip(ts, ts[1:]))
    other = any(b < a or b // step != a // step for a, b in zip(ts, ts[1:]))
    return patched and other


def corpus_cases():
    d = os.path.join(VERIF, 'corpus', PID)
    out = []
    if os.path.isdir(d):
        for f in sorted(os.listdir(d)):
            for l in open(os.path.join(d, f)):
                l = l.strip()
                if l and not l.startswith('#'):
                    c = parse_case(l); c.stream = 'corpus'; c.tab = {}; c.full = None; out.append(c)
    return out


# ----------------------------------------------------------------------------- run
def src_strict(ck):
    """T-src: the model's code-variant flag from the facts tools/srcfacts.py (c13_facts) regenerated from the source tree"""
    global STRICT
    from props.c01 import srcfacts_values
    facts = srcfacts_values()
    vals = {k: facts.get(k) for k in ('c13_rejects_unpatchable', 'c13_rejects_repeated_spec')}
    STRICT = 1 if all(v == 'true' for v in vals.values()) else 0
    ck.tie.append({'T-src facts': vals, 'model variant for the correspondence run': 'strict=%d' % STRICT,
                   'lemmas': 'TieC13.src_strict_true, TieC13.c13_skeletons_ok, TieC13.c13_charsets_ok (vm_compute); Properties_C13.C13_code_variant_rejects'})
    return vals


def run(tier):
    ck = Check(PID, tier)
    broken = standard_proof_phase(ck, 'Properties_C13')
    vals = src_strict(ck)
    if not STRICT:
        ck.log('T-src: %s -> the source tree does not hold the repair of D8/N1/N3; the model runs its pinned variant (strict=0)' % vals)
    mexe, err = ck.build_modelrun()
    if not mexe:
        ck.violation('no-failing-input-found', 'model extraction/build failed: ' + err[-400:]); return ck.finish(trusted=TRUSTED)
    iexe, err = ck.build_harness('time', ['time.cpp'])
    if not iexe:
        ck.violation('no-failing-input-found', 'harness time.cpp does not compile against /repo: ' + err[-600:])
        return ck.finish(trusted=TRUSTED)
    fs = findings()
    pl = Pipeline(ck, mexe, iexe)
    allz = tzscan.zones()
    zones_used = QUICK_ZONES if tier == 'quick' else allz
    n = 5000 if tier == 'quick' else 120000
    structured, hist = gen_structured(ck.rng, n, zones_used)
    known = gen_known(ck.rng, fs)
    if tier != 'quick':      # every listed off-grid instant, not only a sample
        for f in fs:
            sg = f['signature']
            if sg['kind'] == 'zone-offgrid':
                for tr in sg['instants']:
                    g = (tr // 900 + 1) * 900
                    known.append(Case(1, sg['zone'], b'%d %H:%M:%S %z', [x * E9 for x in (tr - 1, tr, tr + 1, g - 1, g)], 'known'))
    rejected, rej_kinds = gen_rejected(ck.rng, n // 8, QUICK_ZONES)
    allcases = corpus_cases() + known + gen_fracpos(ck.rng, QUICK_ZONES) + structured + gen_malformed(ck.rng, n // 6, QUICK_ZONES) + rejected
    skipped = [c for c in allcases if s_unreliable(c)]
    allcases = [c for c in allcases if not s_unreliable(c)]
    state = {}

    def known_match_c(c, model_line, impl_line):
        if model_line != impl_line: return None      # not the modelled behaviour of the unchanged code: a different failure
        f = match_finding(c, fs)
        return finding_text(f) if f else None

    def shrink(case, mode):
        c0 = state['by_full'].get(case) or parse_case(case)
        def bad(c):
            m, i = pl.run([c])
            if mode == 'monitor':
                if monitor_case(c, i[0]) is None: return False
                return not known_match_c(c, m[0], i[0])
            return m[0] != i[0]
        nss = ddmin(c0.nss, lambda x: bad(Case(c0.local, c0.zone, c0.pat, x)), max_tests=60)
        items = tokenize(c0.pat)
        items = ddmin(items, lambda x: bad(Case(c0.local, c0.zone, flat(x), nss)), max_tests=60)
        c = Case(c0.local, c0.zone, flat(items), nss); pl.fill([c])
        return c.full

    ndis = nmon = known_hit = ninst = nrej_agree = 0; rej_other = []
    distinct = {}; streams = {}; zones_seen = set()
    CH = 8000
    for k0 in range(0, len(allcases), CH):
        cases = allcases[k0:k0 + CH]
        ml, il = pl.run(cases)
        pl.sample_hypotheses(cases)
        state['by_full'] = by_full = {c.full: c for c in cases}
        model_of = {c.full: m for c, m in zip(cases, ml)}
        monitor = lambda case, impl_line: monitor_case(by_full[case], impl_line)
        known_match = lambda case, impl_line, msg: known_match_c(by_full[case], model_of[case], impl_line)
        dis, mon = correspond(ck, 'M-TIME vs TimestampFormatter/StringFromTime', [c.full for c in cases], ml, il,
                              monitor=monitor, shrink=shrink, known_match=known_match)
        ndis += len(dis); nmon += len(mon)
        known_hit += sum(1 for (c, m, i, mf) in mon if known_match(c, i, mf))
        for c, m, i in zip(cases, ml, il):
            if c.stream == 'rejected':
                if m == i and dec_obs(i)[0] == 'reject': nrej_agree += 1
                elif len(rej_other) < 5: rej_other.append({'case': c.short(), 'spec': list(spec_verdict(c)), 'impl': i[:60]})
        for c in cases:
            if c.stream in ('structured', 'corpus') and nontrivial(c): distinct[c.key()] = 1
            streams[c.stream] = streams.get(c.stream, 0) + 1; zones_seen.add(c.zone); ninst += len(c.nss)
            c.full = None; c.tab = {}; c.info = {}          # free the tables
        if ck.violations: break
    ck.log('%d cases run on model and implementation (%d zones); %d skipped (libc %%s ambiguous)' % (sum(streams.values()), len(zones_seen), len(skipped)))
    for h in pl.hyp_fail:
        ck.violation('no-failing-input-found', 'libc hypothesis of the C13 theorems not satisfied on this machine: ' + h)
    recalc_fail = list(pl.recalc_fail)

    # zone hypothesis over the whole tz database: the zones failing zone_ok must be exactly the listed D9 family
    t0 = time.time()
    scan = tzscan.scan(allz)
    listed = {f['signature']['zone']: set(f['signature']['instants']) for f in fs if f['signature']['kind'] == 'zone-offgrid'}
    new = []
    for zn, vs in scan.items():
        for v in vs:
            if v['t'] is None or v['t'] not in listed.get(zn, ()):
                new.append(v)
    for v in new[:3]:
        if v['t'] is None:
            ck.violation('no-failing-input-found', 'zone %s violates zone_ok (%s) and is not a listed finding' % (v['zone'], v['kind'])); continue
        g = v['stale_until']
        c = Case(1, v['zone'], b'%H:%M:%S %z %Z %d', [x * E9 for x in (v['t'] - 1, v['t'], v['t'] + 1, g - 1, g)])
        m, i = pl.run([c]); mf = monitor_case(c, i[0])
        if mf: ck.violation('impl-failing-input', 'zone %s changes its local time type off the quarter-hour grid at %d (not a listed finding): %s' % (v['zone'], v['t'], mf), case=c.full, expected='strftime reference', observed=i[0], extra={'short_case': c.short()})
        else: ck.violation('no-failing-input-found', 'zone %s violates zone_ok at %d (%s) and is not a listed finding' % (v['zone'], v['t'], v['kind']))
    ck.tie.append({'name': 'tzscan zone_ok over %d TZif zones' % len(allz), 'ok': not new,
                   'violating_zones': sorted(scan), 'unlisted': len(new), 'wall_s': round(time.time() - t0, 2)})
    ck.tie.append({'name': 'libc hypotheses H1-H3 sampled', 'ok': not pl.hyp_fail, 'checked': pl.hyp_checked})
    ck.tie.append({'name': 'recalculation-point functions vs model formulas', 'ok': not recalc_fail, 'mismatches': recalc_fail})
    if recalc_fail and not any(suf == '' for _, suf in ck.violations):
        ck.violation('no-failing-input-found', 'correspondence M-TIME vs StringFromTime (recalculation point): ' + recalc_fail[0])
    if tier != 'quick':
        from vlib import sh, COQ
        t0 = time.time()
        rc, so, se = sh(['coqchk', '-silent', '-o', '-Q', 'theories', 'Quill', '-Q', 'gen', 'QuillGen', 'Quill.Props.Properties_C13'], cwd=COQ, timeout=1500)
        ok = rc == 0 and 'Axioms: <none>' in (so + se)
        ck.tie.append({'name': 'coqchk -o Quill.Props.Properties_C13', 'ok': ok, 'wall_s': round(time.time() - t0, 1)})
        if not ok: broken.append('coqchk does not accept the closure of Properties_C13 without axioms: ' + (so + se)[-300:])
    if broken and not ck.violations:
        ck.violation('no-failing-input-found', '; '.join(broken))
    total = sum(streams.values())
    return ck.finish(trusted=TRUSTED, samples=[c.short() for c in (structured[:2] + structured[-2:])],
                     rule='case = "time <strict> <local> <len zone..> <len pattern..> <n> ns.." + oracle tables filled from the real libc (<strict> = the model\'s code-variant flag, taken from the T-src facts c13_rejects_unpatchable && c13_rejects_repeated_spec); structured stream: 1-8 items over handled/coarse/rewritten conversions and literals (NO fine conversions %c %Ec %EX %OH %OM %OS %OI, no glibc flag forms %-H %_M ..., no %% directly before H M S I k l s r R T X Q: the first two are exercised in the rejected stream, the last in the dedicated known-finding stream, which must fail exactly as the open findings say), one of %Qms/%Qus/%Qns at a random position in 80% of the patterns plus a sweep of every position, local mode 60%, zones round-robin over the tier\'s zone list (quick: 14 zones; thorough: every TZif zone outside posix/ and right/), %s only in local mode or under TZ=UTC, only for t >= 10^9 and not inside a repeated local hour without a DST flag change (libc mktime ambiguity; such cases are counted as skipped); instants anchored at second/minute/hour/GMT noon/GMT midnight/local noon/local midnight/quarter hour/every kind of zone transition taken from the TZif file (off-grid ones included: they must match a listed D9 instant)/year end/10^9, then steps of +-{1 s,1 h,12 h,1 d,1 y, 899..901 s}, repeats and jumps backwards; malformed stream: two different specifiers, %X, and patterns outside the quantifier (model vs code only); rejected stream: 0-5 such items plus a fine conversion (25%), a flag/width/E/O form of one of H M S I k l s r R T c X with 1-3 flags from - _ 0 ^ # and/or a width (50%), or the same specifier 2-3 times (25%): the monitor demands a rejection and model and code must agree on it; non-trivial = structured/corpus case with a handled or rewritten conversion whose cache was patched at least once and bypassed/rebuilt at least once; distinct by (mode, zone, pattern, instants)',
                     evaluations=total, distinct_nontrivial=len(distinct), traces=total - ndis - nmon + known_hit,
                     extra_cov={'disagreements': ndis, 'monitor_failures': nmon, 'monitor_failures_matching_open_findings': known_hit,
                                'streams': streams, 'anchor_histogram': hist, 'zones': len(zones_seen),
                                'model_flag_strict': STRICT, 'rejected_stream_kinds': rej_kinds,
                                'rejected_stream_rejected_by_model_and_code': nrej_agree, 'rejected_stream_other_samples': rej_other,
                                'instants': ninst, 'hypothesis_samples': pl.hyp_checked,
                                'skipped_libc_percent_s_ambiguous': len(skipped)})


def replay(path):
    d = json.load(open(path))
    ck = Check(PID, 'quick')
    ck.srcfacts(); src_strict(ck)
    mexe, _ = ck.build_modelrun(); iexe, _ = ck.build_harness('time', ['time.cpp'])
    line = d.get('case')
    if not line:
        print('replay holds no concrete case; broken:', d.get('broken')); return 1
    c0 = parse_case(line)
    c = Case(c0.local, c0.zone, c0.pat, c0.nss)
    pl = Pipeline(ck, mexe, iexe)
    m, i = pl.run([c])
    print('zone   :', c.zone, '(local time)' if c.local else '(GMT mode; process zone)')
    print('pattern:', c.pat, ' model variant: strict=%d (T-src)' % STRICT)
    print('ns     :', c.nss)
    print('model  :', dec_obs(m[0])); print('impl   :', dec_obs(i[0]))
    inq, rej, why = spec_verdict(c)
    print('spec   :', ('must be rejected' if rej else expected(c)) if inq else 'outside the quantifier (%s)' % why)
    mf = monitor_case(c, i[0])
    print('monitor:', mf or 'ok')
    return 1 if (mf or m[0] != i[0]) else 0
