"""C18 — backtrace: held back, then the most recent N replayed once, in order.
Proof: Props/Properties_C18.v (refinement of the ring to the 'most recent N' spec, all capacities,
all histories). Tie: T-corr, extracted M-BT vs the real BacktraceStorage on generated histories,
plus the property monitor evaluated directly on the implementation's callbacks."""
import json, os, sys
from vlib import Check, standard_proof_phase, correspond, ddmin
import copy
import be_common as BC
from props.c01 import srcfacts_values

PID = 'C18'
MANIFEST = dict(
    text='Machine-checked refinement (Coq): for every capacity and every history of store/flush/re-init the ring buffer emits exactly the most recent min(cap, stored) events, oldest first, once, with no out-of-bounds access (C18_bt_refines + spec lemmas; refutations of the two unfixed configurations). Backend level: every access of _process_transit_event to a logger storage is exactly one of these operations at the right moment (held back when logged; replay right after the trigger own dispatch when its level reaches the flush level and on flush_backtrace; set_capacity on init), so the refinement applies to the storage of every logger. Tied to the code twice: the extracted ring model against the real BacktraceStorage, and the backend model against the real backend through the deterministic driver (LOG_BACKTRACE / init_backtrace / flush_backtrace), each with a direct property monitor on the implementation.',
    design='5 C18', technique='Coq refinement proof (ring -> most-recent-N spec) + extracted-model/implementation differential correspondence')
TRUSTED = [
    'Coq 8.16.1 kernel (coqc, vm_compute for the refutation examples; no native_compute)',
    'axioms: none (every theorem Closed under the global context)',
    'extraction: ExtrOcamlBasic only (bool/option/unit/list/prod/sumbool to OCaml natives), OCaml 4.13.1 ocamlopt, extract/driver.ml',
    'correspondence harness harness/bt.cpp (events identified by their timestamp field), g++ -fsanitize=address,undefined',
    'modelled rather than verified: BacktraceStorage is re-stated in Gallina (BT/BTModel.v); std::vector, std::function and TransitEvent move semantics are not modelled',
]


def parse(case):
    t = case.split()
    hdr = t[:3]; a = t[3:]; ops = []; i = 0
    while i < len(a):
        if a[i] == '0': ops.append(('S', int(a[i + 1]))); i += 2
        elif a[i] == '1': ops.append(('P',)); i += 1
        elif a[i] == '2': ops.append(('C', int(a[i + 1]))); i += 2
        else: break
    return hdr, ops


def unparse(hdr, ops):
    out = list(hdr)
    for o in ops:
        out += {'S': ['0', str(o[1])] if o[0] == 'S' else None, 'P': ['1'], 'C': ['2', str(o[1])] if o[0] == 'C' else None}[o[0]]
    return ' '.join(out)


def spec(ops):
    """the property, evaluated directly: per op the expected callback ids (+1)"""
    cap = 0; recent = []; out = []
    for o in ops:
        if o[0] == 'S':
            recent.append(o[1]); out += [0]
        elif o[0] == 'P':
            r = recent[len(recent) - min(cap, len(recent)):] if cap else []
            out += [len(r)] + [x + 1 for x in r]; recent = []
        else:
            if o[1] != cap:
                cap = o[1]; recent = []
            out += [0]
    return ' '.join(map(str, out))


def monitor(case, impl_line):
    hdr, ops = parse(case)
    exp = spec(ops)
    if impl_line != exp:
        return 'replayed events differ from "most recent min(cap, stored) once, oldest first": expected [%s] got [%s]' % (exp, impl_line)
    return None


def nontrivial(case):
    """wrapped ring flushed at least once and at least two flush cycles"""
    _, ops = parse(case)
    cap = 0; n = 0; wrapped = 0; flushes = 0
    for o in ops:
        if o[0] == 'S': n += 1
        elif o[0] == 'P':
            flushes += 1
            if cap and n > cap: wrapped += 1
            n = 0
        else:
            if o[1] != cap: cap = o[1]; n = 0
    return wrapped >= 1 and flushes >= 2


def gen(rng, n):
    cases = []
    ev = [0]
    def fresh():
        ev[0] += 1; return ev[0]
    # structured: capacities 0..5, cycles of k stores then flush, k in 0..2cap+1, re-init mid cycle
    for cap in range(0, 6):
        for k1 in range(0, 2 * cap + 2):
            for k2 in (0, 1, cap, cap + 1, 2 * cap + 1):
                ops = [('C', cap)] + [('S', fresh()) for _ in range(k1)] + [('P',)] + [('S', fresh()) for _ in range(k2)] + [('P',), ('S', fresh()), ('P',), ('P',)]
                cases.append(unparse(['bt', '1', '1'], ops))
    while len(cases) < n:
        ops = []
        cap = rng.choice([0, 1, 1, 2, 3, 3, 4, 5, 8, 17])
        ops.append(('C', cap))
        for _ in range(rng.randint(1, 6)):
            k = rng.choice([0, 1, max(cap - 1, 0), cap, cap + 1, 2 * cap, 2 * cap + 1, rng.randint(0, 3 * cap + 2)])
            ops += [('S', fresh()) for _ in range(k)]
            r = rng.random()
            if r < 0.7: ops.append(('P',))
            elif r < 0.8: ops.append(('C', cap))                 # same capacity: no effect
            elif r < 0.95:
                cap = rng.choice([0, 1, 2, 3, 4, 5, 9]); ops.append(('C', cap))
            else: ops += [('P',), ('P',)]
        ops.append(('P',))
        cases.append(unparse(['bt', '1', '1'], ops))
    return cases


def be_gen_case(rng, facts):
    """one thread (processing order = issue order), blocking queue, no throwing sinks: ordinary statements at every
    level, LOG_BACKTRACE statements, init_backtrace with capacities 0-5 and flush levels, flush_backtrace"""
    nl = rng.randint(1, 2)
    c = BC.Case(dropping=0, capk=10, tinit=rng.choice([2, 4]), soft=rng.choice([1, 4]), hard=8, grace=0,
                loggers=[(0, [0]) for _ in range(nl)], sinks=[(0, [])], facts=facts)
    for _ in range(rng.randint(6, 45)):
        r = rng.random(); lg = rng.randrange(nl)
        if r < 0.4: c.log(0, lg=lg, lvl=9)
        elif r < 0.68: c.log(0, lg=lg, lvl=rng.choice([2, 4, 6, 7, 8]))
        elif r < 0.83: c.init_bt(0, lg=lg, cap=rng.choice([0, 1, 2, 3, 3, 5]), flvl=rng.choice([10, 10, 8, 7, 4]))
        else: c.flush_bt(0, lg=lg)
        # processed before the next call, so that "configured flush level" is unambiguous for the monitor (the flush level
        # is a frontend-side atomic read at processing time; asynchronous interleavings are covered by the model comparison
        # of the M-BE checks)
        c.poll(); c.poll()
    c.mark_tail()
    for _ in range(30): c.poll()
    return c


def be_monitor(case, obs):
    """the property at API level for one thread: expected sequence of (id) written to the sink"""
    if obs is None: return 'no observations'
    st = {}   # logger -> dict(cap, stored, flvl)
    exp = []
    for c in case.cmds:
        if c[0] == 'log':
            _, t, i, lg, lvl = c[:5]
            L = st.get(lg)
            if lvl == 9:
                if L is not None: L['stored'].append(i)
            else:
                exp.append(i)
                if L is not None and lvl >= L['flvl']:
                    k = min(L['cap'], len(L['stored'])); exp += L['stored'][len(L['stored']) - k:] if k else []; L['stored'] = []
        elif c[0] == 'initbt':
            _, t, i, lg, cap, flvl, sz = c
            L = st.setdefault(lg, dict(cap=None, stored=[], flvl=10))
            if L['cap'] != cap: L['cap'] = cap; L['stored'] = []
            L['flvl'] = flvl
        elif c[0] == 'flushbt':
            L = st.get(c[3])
            if L is not None:
                k = min(L['cap'], len(L['stored'])); exp += L['stored'][len(L['stored']) - k:] if k else []; L['stored'] = []
    got = [o[2] for o in obs if o[0] == 'write']
    if got != exp:
        return 'sink received %s but the property gives %s (backtrace statements held back, most recent min(cap, stored) replayed once, oldest first, right after the trigger)' % (got[:30], exp[:30])
    return None


def corpus():
    d = os.path.join(os.path.dirname(os.path.dirname(os.path.abspath(__file__))), 'corpus', PID)
    out = []
    if os.path.isdir(d):
        for f in sorted(os.listdir(d)):
            for l in open(os.path.join(d, f)):
                l = l.strip()
                if l and not l.startswith('#'): out.append(l)
    return out


def run(tier):
    ck = Check(PID, tier)
    broken = standard_proof_phase(ck, 'Properties_C18')
    mexe, err = ck.build_modelrun()
    if not mexe:
        ck.violation('no-failing-input-found', 'model extraction/build failed: ' + err[-400:]); return ck.finish(trusted=TRUSTED)
    iexe, err = ck.build_harness('bt', ['bt.cpp'])
    if not iexe:
        ck.violation('no-failing-input-found', 'harness bt.cpp does not compile against /repo: ' + err[-600:])
        return ck.finish(trusted=TRUSTED)
    n = 600 if tier == 'quick' else 30000
    cases = corpus() + gen(ck.rng, n)
    ml = ck.run_model(mexe, cases)
    il = ck.run_impl(iexe, cases)

    def shrink(case, mode):
        hdr, ops = parse(case)
        def fails(o):
            c = unparse(hdr, o)
            i = ck.run_impl(iexe, [c])[0]
            if mode == 'monitor':
                return monitor(c, i) is not None
            return ck.run_model(mexe, [c])[0] != i
        return unparse(hdr, ddmin(ops, fails))

    dis, mon = correspond(ck, 'M-BT vs BacktraceStorage', cases, ml, il, monitor=monitor, shrink=shrink)

    # ---- backend level: LOG_BACKTRACE / init_backtrace / flush_backtrace through the real backend (driver)
    facts = srcfacts_values()
    bexe, err = ck.build_harness('be', ['be.cpp'], flags=['-ldl'], san=(tier != 'quick'))
    nb = 0; bdis = bmon = []
    if not bexe:
        ck.violation('no-failing-input-found', 'harness be.cpp does not compile against /repo: ' + err[-600:])
    else:
        bobjs = [be_gen_case(ck.rng, facts) for _ in range(250 if tier == 'quick' else 10000)]
        blines = [c.line() for c in bobjs]; byline = dict(zip(blines, bobjs))
        bml = ck.run_model(mexe, blines); bil = ck.run_impl(bexe, blines, timeout=600, per_case_timeout=15)
        def bmonf(line, impl):
            if impl.startswith(('CRASH', 'HANG', 'NOOUTPUT')): return 'implementation ' + impl
            return be_monitor(byline[line], BC.parse_obs(impl))
        def bshrink(line, mode):
            c0 = byline[line]
            def mk(cmds):
                c = copy.copy(c0); c.cmds = list(cmds); return c
            def fails(cmds):
                c = mk(cmds); l = c.line(); i = ck.run_impl(bexe, [l], per_case_timeout=15)[0]
                if mode == 'monitor': return i.startswith(('CRASH', 'HANG')) or be_monitor(c, BC.parse_obs(i)) is not None
                return ck.run_model(mexe, [l])[0] != i
            return mk(ddmin(c0.cmds, fails, max_tests=150)).line()
        bdis, bmon = correspond(ck, 'M-BE (backtrace) vs backend driver', blines, bml, bil, monitor=bmonf, shrink=bshrink)
        nb = len(blines)
    if broken and not ck.violations:
        ck.violation('no-failing-input-found', '; '.join(broken))
    nt = len(set(c for c in cases if nontrivial(c)))
    return ck.finish(trusted=TRUSTED, samples=cases[:2] + cases[-2:],
                     rule='histories of store/process/set_capacity (case = "bt 1 1" then ops: "0 x" store, "1" flush, "2 c" set capacity); structured sweep cap 0..5 x k1 0..2cap+1 x k2 plus seeded random; non-trivial = a wrapped ring was flushed and >= 2 flush cycles; distinct by case text',
                     evaluations=len(cases) + nb, distinct_nontrivial=nt, traces=len(cases) + nb - len(dis) - len(mon) - len(bdis) - len(bmon),
                     extra_cov={'disagreements': len(dis) + len(bdis), 'monitor_failures': len(mon) + len(bmon), 'corpus_cases': len(corpus()),
                                'unit_level_cases': len(cases), 'backend_level_cases': nb})


def replay(path):
    d = json.load(open(path))
    ck = Check(PID, 'quick')
    mexe, _ = ck.build_modelrun(); iexe, _ = ck.build_harness('bt', ['bt.cpp'])
    c = d.get('case')
    if not c:
        print('replay holds no concrete case; broken:', d.get('broken')); return 1
    print('case :', c); print('model:', ck.run_model(mexe, [c])[0]); i = ck.run_impl(iexe, [c])[0]
    print('impl :', i); print('spec :', spec(parse(c)[1]))
    return 1 if monitor(c, i) else 0
