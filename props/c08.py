"""C08 — dropping queue: a statement is delivered intact or reported dropped, never both.
Proof: Props/Properties_C08.v (accounting invariant for every op list; what one reservation attempt does;
control requests kept; D15 refutation) + C03_conservation. Tie: T-corr through the backend driver.
Below the granularity of M-BE: the failure-counter protocol of one ThreadContext at micro-step
granularity (Backend/FailCounter.v: exact for every interleaving when the increment is one atomic
read-modify-write and the reset one atomic exchange; refuted for a split increment / split reset),
tied to ThreadContextManager.h by T-src facts, and a two-thread run of the real ThreadContext
(harness/failc_mt.cpp) as the search for a failing input and a standing stress check."""
import json, os, re, time
from vlib import Check, sh
from be_common import Case, Track, HDR_LOG
from be_check import run_be, replay_be, TRUSTED_BE
from props.c01 import srcfacts_values
import props.c03 as c03

PID = 'C08'
MANIFEST = dict(
    text='Machine-checked (Coq) on the backend micro-step model, for every interleaving, capacity and size sequence: a reservation attempt of an ordinary statement on a dropping queue either commits it or discards it (call over in both cases, counted once), control requests are never discarded nor counted, and in every reachable state refused = reported through the notifier + pending in the per-thread counters (+ lost with removed contexts, proved zero for the report-before-removal order read from the source); delivered-intact-in-order is the conservation theorem of C03 which covers dropping queues. The lost-count defect found on the pinned tree (D15, fixed) is kept as a refutation. Model run against the real backend with BoundedDropping frontends; monitor = three-way accounting on the implementation. Scope: bounded dropping queues (unbounded dropping not modelled); dropped LOG_RUNTIME_METADATA statements are not counted by the code (stated, outside "ordinary statement"). '
         'Below the granularity of that model (which increments and reads-and-resets a per-thread counter in single steps), also machine-checked: the failure-counter protocol of one ThreadContext at micro-step granularity (increment as one atomic read-modify-write or as load;store, get_and_reset as [load == 0 early return +] one atomic exchange or as load;store): for every interleaving of the micro-steps, with the atomic increment and the atomic exchange, reported + pending = discarded in every reachable state, the values handed to the notifier add up exactly to the discarded statements once the counter is drained, for any number of contexts, and the protocol refines the single-step counter of the backend model; witness schedules refute the split increment (a drop reported twice) and the split reset (a drop never reported). Which variant the source has (one fetch_add(1)/++ on a std::atomic; one exchange(0) after an optional load==0 early return; memory orders deliberately not constrained, the clause needs none) is re-read from ThreadContextManager.h by clang on every run and proved equal to the good flags (T-src). Not proved but stress-tested on every run: two real threads on the real quill::detail::ThreadContext (one incrementing N times, one summing get_and_reset results; pinned and unpinned, N up to 10^6 quick / 10^7 thorough, plus a ThreadSanitizer build in the thorough tier); a sum != N is reported as a concrete failing input (N and the observed sum). The stress run sees only the interleavings the machine produces; size_t wrap-around of the counter is not modelled.',
    design='5 C08', technique='Coq invariant proof (drop accounting) over the backend micro-step machine + deterministic-driver differential correspondence; Coq invariant/refinement proof of the atomic counter protocol over all interleavings + source-fact translator (clang AST) + two-thread stress search on the real ThreadContext')


def gen(rng, facts):
    ns = rng.randint(1, 2)
    sinks = [(0, []) for _ in range(ns)]
    nl = rng.randint(1, 2)
    loggers = [(rng.choice([0, 0, 4]), rng.sample(range(ns), rng.randint(1, ns))) for _ in range(nl)]
    soft = rng.choice([1, 2, 4]); hard = rng.choice([h for h in (2, 4, 8) if h >= soft])
    c = Case(dropping=1, capk=rng.choice([8, 8, 10]), tinit=rng.choice([2, 4]), soft=soft, hard=hard,
             grace=rng.choice([0, 0, 1000]), loggers=loggers, sinks=sinks, facts=facts)
    C = 1 << c.capk
    nt = rng.randint(1, 4)
    for _ in range(rng.randint(4, 30)):
        r = rng.random()
        if r < 0.25:
            # flood one thread until it drops, maybe exit, maybe a flush from another thread (D15 shape)
            t = rng.randrange(nt)
            for _ in range(rng.randint(2, 9)): c.log(t, lg=rng.randrange(nl), lvl=rng.choice([4, 6]), pad=rng.choice([0, 6, 19, 40]))
            if rng.random() < 0.4:
                c.tick(1)
                if nt > 1 and rng.random() < 0.6: c.flush((t + 1) % nt, lg=0)
                c.exit(t)
        elif r < 0.6:
            t = rng.randrange(nt)
            pad = rng.choice([0, 3, C // 4, C // 2 - HDR_LOG, C - HDR_LOG, C - HDR_LOG + 1, C, rng.randint(0, C // 3)])
            c.log(t, lg=rng.randrange(nl), lvl=rng.choice([3, 4, 4, 6, 8]), pad=max(0, pad))
        elif r < 0.68: c.flush(rng.randrange(nt), lg=rng.randrange(nl))
        elif r < 0.72:
            # a control request other than a flush on a (possibly full) dropping queue: retried by its caller until it is
            # accepted, never counted as a drop
            t = rng.randrange(nt)
            if rng.random() < 0.5: c.init_bt(t, lg=rng.randrange(nl), cap=rng.choice([1, 2, 3]), flvl=rng.choice([10, 8]))
            else: c.flush_bt(t, lg=rng.randrange(nl))
        elif r < 0.78: c.resume(rng.randrange(nt))
        elif r < 0.8: c.exit(rng.randrange(nt))
        elif r < 0.84: c.tick(rng.choice([1, 1000, 1001]))
        else: c.poll()
    c.mark_tail()
    for _ in range(4):
        for t in range(nt): c.resume(t)
        c.tick(2000)
        for _ in range(10): c.poll()
    c.ctx()
    return c


def corpus_cases(facts):
    # D15 replay (fixed): drops, exit, another thread's flush processed before the next idle poll
    c = Case(dropping=1, capk=8, tinit=4, soft=4, hard=8, grace=0, facts=facts)
    for _ in range(7): c.log(0, pad=6)
    c.tick(1); c.flush(1); c.exit(0)
    for _ in range(12): c.poll()
    c.resume(1)
    for _ in range(4): c.poll()
    c.ctx()
    return [c]


def monitor(case, obs):
    m = c03.monitor(case, obs)     # delivered = accepted, once, in thread order, nothing else
    if m: return m
    tr = Track(case, obs)
    dropped = [i for i, d in tr.stmts.items() if d['outcome'] == 'dropped']
    reported = sum(n for (_, k, n) in tr.notes if k == 1)
    if tr.pending:
        return None   # a thread is still parked at the end: accounting not final
    if reported != len(dropped):
        return 'notifier reported %d dropped statements in total but %d ordinary statements were discarded (ids %s)' % (reported, len(dropped), dropped[:8])
    for i, f in tr.flushes.items():
        if f.get('ret') is None and not f.get('ignored'):
            return 'flush request %d never completed although the backend kept polling (control request lost?)' % i
    return None


def nontrivial(case, obs):
    tr = Track(case, obs)
    if not tr.ok: return False
    return any(d['outcome'] == 'dropped' for d in tr.stmts.values()) and any(d['outcome'] == 'accepted' for d in tr.stmts.values())


RULE = ('BoundedDropping frontends (256/1024-byte queues): floods that overflow the queue, sizes {small, C/2, C, C+1 (never fits)}, flush requests while the queue is full, '
        'thread exits right after drops with another thread\'s flush pending (D15 shape), polls at random moments; each case ends with a drain + idle polls; '
        'non-trivial = at least one statement dropped and one delivered; distinct by case text')

# ---------------------------------------------------------------------------------------------
# two real threads on the real ThreadContext counter (harness/failc_mt.cpp): case "failc_mt <N> <pin>",
# observation "<N> <sum of the values returned by get_and_reset> <number of non-zero returns before the join>"
FAILC_FACTS = ('tcm_failc_inc_atomic', 'tcm_failc_reset_atomic', 'tcm_failc_reset_guarded')


def failc_monitor(case, line):
    """the count clause on the implementation: once drained, the values returned by get_and_reset add up to the
    number of increment_failure_counter calls"""
    if line.startswith(('CRASH', 'HANG', 'NOOUTPUT', 'NOTRUN')):
        return 'implementation ' + line
    n = int(case.split()[1]); t = line.split()
    if len(t) < 2 or int(t[0]) != n:
        return 'malformed observation %r' % line
    if int(t[1]) > n:
        return 'get_and_reset_failure_counter returned %s in total for %d increment_failure_counter calls: %d discarded statements reported more than once' % (t[1], n, int(t[1]) - n)
    if int(t[1]) < n:
        return 'get_and_reset_failure_counter returned %s in total for %d increment_failure_counter calls: %d discarded statements never reported' % (t[1], n, n - int(t[1]))
    return None


def failc_cases(tier):
    if tier == 'quick':
        ns, reps = (1, 2, 1000, 30000, 300000, 1000000), 3
    else:
        ns, reps = (1, 2, 3, 100, 1000, 30000, 300000, 1000000, 3000000, 10000000), 25
    return ['failc_mt %d %d' % (n, pin) for _ in range(reps) for n in ns for pin in (0, 1)]


def failc_phase(ck, tier, broken):
    t0 = time.time()
    facts = srcfacts_values()
    ck.tie.append({'T-src facts (failure counter protocol)': {k: facts.get(k) for k in FAILC_FACTS}})
    exe, err = ck.build_harness('failc_mt', ['failc_mt.cpp'], san=False)
    if not exe:
        ck.violation('no-failing-input-found', 'harness failc_mt.cpp does not compile against the source tree (ThreadContext counter interface changed?): ' + err[-500:])
        return {'failc_stress': {'built': False}}
    cases = failc_cases(tier)
    il = ck.run_impl(exe, cases, timeout=240, per_case_timeout=30, max_fail=3)
    bad = [(c, i, failc_monitor(c, i)) for c, i in zip(cases, il)]
    bad = [(c, i, m) for c, i, m in bad if m and i != 'NOTRUN']
    info = {'built': True, 'runs': len(cases), 'mismatches': len(bad),
            'N_values': sorted(set(int(c.split()[1]) for c in cases)),
            'increments_total': sum(int(c.split()[1]) for c in cases),
            'nonzero_resets_total': sum(int(i.split()[2]) for i in il if re.fullmatch(r'\d+ \d+ \d+', i)),
            'runs_with_resets_during_increments': sum(1 for i in il if re.fullmatch(r'\d+ \d+ \d+', i) and int(i.split()[2]) >= 2),
            'rule': 'producer thread: N x increment_failure_counter(); consumer thread: get_and_reset_failure_counter() in a loop until the producer is done, '
                    'then one more after the join; pinned to two CPUs and unpinned; monitor: sum of returned values == N'}
    notgood = ['SrcFacts.%s = %s' % (k, facts.get(k)) for k in FAILC_FACTS[:2] if facts.get(k) != 'true']
    if notgood:
        broken = ['T-src: ' + ', '.join(notgood) + ' (ThreadContextManager.h: the increment is not one atomic read-modify-write / the reset not one atomic exchange: '
                  'Properties_C08.v C08_failc_split_increment_refuted / C08_failc_split_reset_refuted apply)'] + list(broken)
    if bad:
        # smallest N seen failing, then try still smaller N (a run is a few microseconds; the outcome is a race, so repeat)
        c0, i0, m0 = min(bad, key=lambda x: int(x[0].split()[1]))
        if not i0.startswith(('CRASH', 'HANG', 'NOOUTPUT')):
            n0 = int(c0.split()[1]); pin = c0.split()[2]
            for n in (10, 30, 100, 300, 1000, 3000, 10000, 30000, 100000):
                if n >= n0: break
                trial = ['failc_mt %d %s' % (n, pin)] * 40
                tl = ck.run_impl(exe, trial, timeout=60, per_case_timeout=10, max_fail=1)
                hit = [(c, i) for c, i in zip(trial, tl) if failc_monitor(c, i) and not i.startswith(('CRASH', 'HANG', 'NOOUTPUT', 'NOTRUN'))]
                if hit:
                    c0, i0 = hit[0]; m0 = failc_monitor(c0, i0); break
        ck.violation('impl-failing-input', 'two real threads on quill::detail::ThreadContext (harness/failc_mt.cpp): ' + m0 +
                     ((' [proof side: ' + '; '.join(broken)[:300] + ']') if broken else ''),
                     case=c0, expected='%s %s <k>  (sum of the reported counts == number of discarded statements)' % (c0.split()[1], c0.split()[1]),
                     observed=i0, extra={'harness': 'harness/failc_mt.cpp', 'failing_runs': len(bad), 'runs': len(cases),
                                         'note': 'the outcome depends on the thread interleaving: the replay repeats the case until it fails (up to 200 runs)',
                                         'model_witness': 'Properties_C08.v: C08_failc_split_increment_refuted (sum > N) / C08_failc_split_reset_refuted (sum < N)'})
    if tier != 'quick':
        # ThreadSanitizer build: catches a counter that is no longer a std::atomic (data race), and its scheduler gives other interleavings
        texe, terr = ck.build_harness('failc_mt_tsan', ['failc_mt.cpp'], flags=['-fsanitize=thread'], san=False)
        if not texe:
            info['tsan'] = 'not built: ' + terr[-200:]
        else:
            tcases = ['failc_mt %d %d' % (n, pin) for _ in range(5) for n in (1000, 100000) for pin in (0, 1)]
            rc, so, se = sh([texe], inp='\n'.join(tcases) + '\n', timeout=300, env=dict(os.environ, TSAN_OPTIONS='halt_on_error=1:exitcode=66'))
            tl = so.splitlines()
            tbad = [(c, i) for c, i in zip(tcases, tl) if failc_monitor(c, i)]
            info['tsan'] = {'runs': len(tcases), 'completed': len(tl), 'rc': rc, 'mismatches': len(tbad)}
            if rc != 0 or len(tl) != len(tcases) or tbad:
                m = re.search(r'(WARNING: ThreadSanitizer: [^\n]+)', se or '')
                c1 = tbad[0][0] if tbad else tcases[min(len(tl), len(tcases) - 1)]
                what = failc_monitor(*tbad[0]) if tbad else ('rc=%s %s' % (rc, m.group(1) if m else (se or '')[-200:]))
                ck.violation('impl-failing-input', 'two-thread failure-counter run under ThreadSanitizer: ' + what, case=c1,
                             expected='sum == N, no data race', observed=(tbad[0][1] if tbad else what), extra={'harness': 'harness/failc_mt.cpp (-fsanitize=thread)'})
    info['wall_s'] = round(time.time() - t0, 2)
    ck.log('failure-counter stress: %d two-thread runs, %d increments, %d mismatches, %.1fs' % (info['runs'], info['increments_total'], info['mismatches'], info['wall_s']))
    return {'failc_stress': info}


TRUSTED = TRUSTED_BE + [
    'failure counter (Backend/FailCounter.v): one atomic object, so its modification order makes a sequentially consistent interleaving of the micro-steps faithful for every memory_order argument (hand-argued in the file header); size_t wrap-around after 2^64 unreported drops is not modelled',
    'tools/srcfacts.py failc_facts: increment_failure_counter is one fetch_add(1)/++/+=1 on a std::atomic, get_and_reset_failure_counter is [if (load == 0) return 0;] return exchange(0) - shape facts from the clang AST, memory orders deliberately not part of the facts',
    'harness/failc_mt.cpp: two-thread stress run of the real ThreadContext (a search for failing inputs, not a proof; it can only observe the interleavings the machine produces)',
]

run = run_be(PID, 'Properties_C08', gen, monitor, nontrivial, RULE, n_quick=400, n_thorough=20000, corpus_cases=corpus_cases,
             trusted=TRUSTED, extra_phase=failc_phase)
_replay_be = replay_be(PID, monitor)


def replay(path):
    d = json.load(open(path)); c = d.get('case')
    if not (isinstance(c, str) and c.startswith('failc_mt ')):
        return _replay_be(path)
    ck = Check(PID, 'quick')
    exe, err = ck.build_harness('failc_mt', ['failc_mt.cpp'], san=False)
    if not exe:
        print('harness failc_mt.cpp does not compile:', err[-500:]); return 1
    print('case    :', c); print('expected:', d.get('expected')); print('recorded:', d.get('observed'))
    for k in range(1, 201):     # the outcome is a race between two threads: repeat until it shows
        i = ck.run_impl(exe, [c], per_case_timeout=30)[0]
        m = failc_monitor(c, i)
        if m:
            print('run %d   : %s' % (k, i)); print('monitor :', m); return 1
    print('200 runs: every run returned sum == N'); return 0
