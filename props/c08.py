"""C08 — dropping queue: a statement is delivered intact or reported dropped, never both.
Proof: Props/Properties_C08.v (accounting invariant for every op list; what one reservation attempt does;
control requests kept; D15 refutation) + C03_conservation. Tie: T-corr through the backend driver."""
from be_common import Case, Track, HDR_LOG
from be_check import run_be, replay_be
import props.c03 as c03

PID = 'C08'
MANIFEST = dict(
    text='Machine-checked (Coq) on the backend micro-step model, for every interleaving, capacity and size sequence: a reservation attempt of an ordinary statement on a dropping queue either commits it or discards it (call over in both cases, counted once), control requests are never discarded nor counted, and in every reachable state refused = reported through the notifier + pending in the per-thread counters (+ lost with removed contexts, proved zero for the report-before-removal order read from the source); delivered-intact-in-order is the conservation theorem of C03 which covers dropping queues. The lost-count defect found on the pinned tree (D15, fixed) is kept as a refutation. Model run against the real backend with BoundedDropping frontends; monitor = three-way accounting on the implementation. Scope: bounded dropping queues (unbounded dropping not modelled); dropped LOG_RUNTIME_METADATA statements are not counted by the code (stated, outside "ordinary statement").',
    design='5 C08', technique='Coq invariant proof (drop accounting) over the backend micro-step machine + deterministic-driver differential correspondence')


def gen(rng, facts):
    ns = rng.randint(1, 2)
    sinks = [(0, []) for _ in range(ns)]
    nl = rng.randint(1, 2)
    loggers = [(rng.choice([0, 0, 4]), rng.sample(range(ns), rng.randint(1, ns))) for _ in range(nl)]
    soft = rng.choice([1, 2, 4]); hard = rng.choice([h for h in (2, 4, 8) if h >= soft])
    c = Case(dropping=1, capk=rng.choice([8, 8, 10]), tinit=rng.choice([2, 4]), soft=soft, hard=hard,
             grace=rng.choice([0, 0, 1000]), loggers=loggers, sinks=sinks, facts=facts)
    C = 1 << c.capk
    nt = rng.randint(1, 4)
    for _ in range(rng.randint(4, 30)):
        r = rng.random()
        if r < 0.25:
            # flood one thread until it drops, maybe exit, maybe a flush from another thread (D15 shape)
            t = rng.randrange(nt)
            for _ in range(rng.randint(2, 9)): c.log(t, lg=rng.randrange(nl), lvl=rng.choice([4, 6]), pad=rng.choice([0, 6, 19, 40]))
            if rng.random() < 0.4:
                c.tick(1)
                if nt > 1 and rng.random() < 0.6: c.flush((t + 1) % nt, lg=0)
                c.exit(t)
        elif r < 0.6:
            t = rng.randrange(nt)
            pad = rng.choice([0, 3, C // 4, C // 2 - HDR_LOG, C - HDR_LOG, C - HDR_LOG + 1, C, rng.randint(0, C // 3)])
            c.log(t, lg=rng.randrange(nl), lvl=rng.choice([3, 4, 4, 6, 8]), pad=max(0, pad))
        elif r < 0.68: c.flush(rng.randrange(nt), lg=rng.randrange(nl))
        elif r < 0.76: c.resume(rng.randrange(nt))
        elif r < 0.8: c.exit(rng.randrange(nt))
        elif r < 0.84: c.tick(rng.choice([1, 1000, 1001]))
        else: c.poll()
    for _ in range(4):
        for t in range(nt): c.resume(t)
        c.tick(2000)
        for _ in range(10): c.poll()
    c.ctx()
    return c


def corpus_cases(facts):
    # D15 replay (fixed): drops, exit, another thread's flush processed before the next idle poll
    c = Case(dropping=1, capk=8, tinit=4, soft=4, hard=8, grace=0, facts=facts)
    for _ in range(7): c.log(0, pad=6)
    c.tick(1); c.flush(1); c.exit(0)
    for _ in range(12): c.poll()
    c.resume(1)
    for _ in range(4): c.poll()
    c.ctx()
    return [c]


def monitor(case, obs):
    m = c03.monitor(case, obs)     # delivered = accepted, once, in thread order, nothing else
    if m: return m
    tr = Track(case, obs)
    dropped = [i for i, d in tr.stmts.items() if d['outcome'] == 'dropped']
    reported = sum(n for (_, k, n) in tr.notes if k == 1)
    if tr.pending:
        return None   # a thread is still parked at the end: accounting not final
    if reported != len(dropped):
        return 'notifier reported %d dropped statements in total but %d ordinary statements were discarded (ids %s)' % (reported, len(dropped), dropped[:8])
    for i, f in tr.flushes.items():
        if f.get('ret') is None and not f.get('ignored'):
            return 'flush request %d never completed although the backend kept polling (control request lost?)' % i
    return None


def nontrivial(case, obs):
    tr = Track(case, obs)
    if not tr.ok: return False
    return any(d['outcome'] == 'dropped' for d in tr.stmts.values()) and any(d['outcome'] == 'accepted' for d in tr.stmts.values())


RULE = ('BoundedDropping frontends (256/1024-byte queues): floods that overflow the queue, sizes {small, C/2, C, C+1 (never fits)}, flush requests while the queue is full, '
        'thread exits right after drops with another thread\'s flush pending (D15 shape), polls at random moments; each case ends with a drain + idle polls; '
        'non-trivial = at least one statement dropped and one delivered; distinct by case text')

run = run_be(PID, 'Properties_C08', gen, monitor, nontrivial, RULE, n_quick=400, n_thorough=20000, corpus_cases=corpus_cases)
replay = replay_be(PID, monitor)
