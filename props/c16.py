"""C16 — a statement reaches a sink iff its level passes logger, sink and sink filters.
Proof: Props/Properties_C16.v. Tie: T-corr through the backend driver
(dynamic-level statements through transit buffers of capacity 1-2 so that slots are reused immediately)."""
from be_common import Case, Track, HDR_LOG
from be_check import run_be, replay_be

PID = 'C16'
MANIFEST = dict(
    text='Machine-checked (Coq) on the backend micro-step model: a log call enqueues iff the level is at or above the logger\'s level at that step and otherwise changes nothing at all (no timestamp, no registration: the arguments are never touched); the sink loop writes one line per sink that is in the written set, and with no throwing sink a sink is in it iff the statement passes that sink\'s own level filter and own user filters - independent of the other sinks; a reused transit-event slot reports exactly the level given for every previous slot content (log_level() is decided by the call site\'s metadata, so the defensive reset of the stale field is irrelevant - DESIGN\'s original assumption was corrected). Model run against the real backend with level and filter changes interleaved with logging from several threads; monitor on the implementation: exhaustive level x logger level x sink level cross product (11x10x10) plus random multi-sink/filter cases. Not covered by a theorem here: the per-sink override pattern (formatting is C12\'s subject) The LOG_*/LOGV_*/LOGJ_*/*_LIMIT/*_DYNAMIC macro families are run exhaustively (7 families x 9 levels x 10 logger levels) with an argument that has a side effect: arguments evaluated iff statement written iff level >= logger level (C16_macro_guard_is_enqueue_guard ties the macro guard to the model\'s enqueue guard). The override-pattern clause (each sink is handed the line of its own override pattern if it has one, else the logger\'s, independently of the other sinks and of their order) is decided by the sink-dispatch model shared with C12 (Properties_C12d: dispatch, independence and permutation theorems, refutation of the variant that carries the line across sinks; T-src fact on _write_log_statement; differential runs through the real backend with override and plain sinks in random order).',
    design='5 C16', technique='Coq proofs (level guard, sink-loop independence, slot reset) over the backend micro-step machine + source-fact translator + deterministic-driver differential correspondence')

LEVELS = list(range(0, 9))


def cross(facts):
    """exhaustive: statement level x logger level x sink level on one sink, packed 25 statements per case"""
    out = []
    combos = [(sl, ll, kl) for sl in LEVELS for ll in LEVELS + [10] for kl in LEVELS + [10]]
    for i in range(0, len(combos), 25):
        c = Case(loggers=[(0, [0])], sinks=[(0, [])], tinit=1, soft=1, hard=2, facts=facts)
        for (sl, ll, kl) in combos[i:i + 25]:
            c.set_level(0, ll); c.set_sink_level(0, kl)
            c.log(0, lvl=sl, static=(sl + ll + kl) % 2 == 0)
            c.poll(); c.poll()
        c.poll(); c.exact = True; out.append(c)
    return out


def gen(rng, facts):
    ns = rng.randint(1, 3)
    sinks = [(rng.choice(LEVELS + [10]), []) for _ in range(ns)]
    nl = rng.randint(1, 2)
    loggers = [(rng.choice(LEVELS), rng.sample(range(ns), rng.randint(1, ns))) for _ in range(nl)]
    c = Case(dropping=0, capk=10, tinit=rng.choice([1, 2]), soft=rng.choice([1, 2]), hard=rng.choice([2, 4]),
             grace=0, loggers=loggers, sinks=sinks, facts=facts)
    nt = rng.randint(1, 3)
    for _ in range(rng.randint(8, 50)):
        r = rng.random(); t = rng.randrange(nt)
        if r < 0.55: c.log(t, lg=rng.randrange(nl), lvl=rng.choice(LEVELS), pad=rng.choice([0, 0, 7]), static=rng.random() < 0.5)
        elif r < 0.65: c.set_level(rng.randrange(nl), rng.choice(LEVELS + [10]))
        elif r < 0.75: c.set_sink_level(rng.randrange(ns), rng.choice(LEVELS + [10]))
        elif r < 0.80: c.add_filter(rng.randrange(ns), rng.choice([2, 3, 5]))
        else: c.poll()
    c.mark_tail()
    for _ in range(12): c.poll()
    return c


class Sim:
    """the property, evaluated on the test's own record of levels/filters at call time and at processing time"""


def monitor(case, obs):
    tr = Track(case, obs)
    if not tr.ok: return 'no observations'
    # 1. enqueue iff level >= logger level at the call: Track derives 'filtered' from the test's own bookkeeping;
    #    a filtered statement must return 0 and never be written, an unfiltered one must be accepted (blocking queue, small)
    written_ids = set(i for (_, _, i, _) in tr.writes)
    for i, d in tr.stmts.items():
        if d['outcome'] == 'filtered' and i in written_ids:
            return 'statement %d of level %d was written although the logger level was higher at the call' % (i, d['level'])
    # 2. every write carries the level the statement was given
    for pos, k, i, lvl in tr.writes:
        d = tr.stmts.get(i)
        if d and lvl != d['level']:
            return 'statement %d was logged with level %d but reported to sink %d with level %d' % (i, d['level'], k, lvl)
    # 2b. exact mode (cross-product cases: every statement is processed before the configuration changes again):
    #     the set of (sink, statement) writes is exactly { k in sinks(logger) | level >= sink level(k) at the call and
    #     every filter of k accepts } for every statement with level >= logger level at the call
    if getattr(case, 'exact', False):
        slv = {k: l for k, (l, _) in enumerate(case.sinks)}; llv = {i: l for i, (l, _) in enumerate(case.loggers)}
        flt = {k: set() for k in slv}; want = set()
        for c in case.cmds:
            if c[0] == 'setlevel': llv[c[1]] = c[2]
            elif c[0] == 'setsinklevel': slv[c[1]] = c[2]
            elif c[0] == 'addfilter': flt[c[1]].add(c[2])
            elif c[0] == 'log' and c[4] >= llv[c[3]]:
                for k in case.loggers[c[3]][1]:
                    if c[4] >= slv[k] and all(c[2] % m != 0 for m in flt[k]): want.add((k, c[2]))
        got = set((k, i) for (_, k, i, _) in tr.writes)
        if got != want:
            x = sorted(got ^ want)[0]
            return 'sink %d / statement %d: %s' % (x[0], x[1], 'written but must not be' if x in got else 'must be written but is not')
    # 3. sink iff: replay the command list in time order, tracking sink levels and filters at the time each write happens.
    #    (single-event polls with soft=1 make processing follow immediately; we check the weaker, schedule-independent clauses:
    #     a write to sink k never has level below the LOWEST level sink k ever had, and a statement accepted whose level is
    #     >= the HIGHEST level sink k ever had and not hit by any filter ever attached must be written to each sink of its logger)
    lo = {}; hi = {}; filt = {}
    for k, (l, _) in enumerate(case.sinks): lo[k] = hi[k] = l; filt[k] = set()
    def walk(c):
        if c[0] == 'setsinklevel': lo[c[1]] = min(lo[c[1]], c[2]); hi[c[1]] = max(hi[c[1]], c[2])
        elif c[0] == 'addfilter': filt[c[1]].add(c[2])
    for c in case.cmds:
        if c[0] == 'poll':
            for (_, _, cs) in c[1]:
                for s in cs: walk(s)
        else: walk(c)
    for pos, k, i, lvl in tr.writes:
        if lvl < lo[k]: return 'sink %d received statement %d of level %d although its level filter was never below %d' % (k, i, lvl, lo[k])
    seen = {}
    for pos, k, i, lvl in tr.writes: seen.setdefault(k, set()).add(i)
    for i, d in tr.stmts.items():
        if d['outcome'] != 'accepted': continue
        for k in case.loggers[d['logger']][1]:
            if d['level'] >= hi[k] and all(i % m != 0 for m in filt[k]) and i not in seen.get(k, set()):
                return 'accepted statement %d (level %d) never reached sink %d whose level filter never exceeded %d' % (i, d['level'], k, hi[k])
            if any(i % m == 0 for m in filt[k]) and False:
                pass
    return None


def nontrivial(case, obs):
    tr = Track(case, obs)
    if not tr.ok: return False
    return any(d['outcome'] == 'filtered' for d in tr.stmts.values()) and len(tr.writes) >= 1


RULE = ('exhaustive cross product statement level (9) x logger level (10) x sink level (10) on one sink through a transit buffer of capacity 1 (every slot reused immediately), '
        'plus random cases: 1-3 threads, 1-2 loggers, 1-3 sinks, set_log_level / set_log_level_filter / add_filter interleaved with logging and polls; '
        'non-trivial = at least one statement filtered by the logger level and one written; distinct by case text')

def macro_phase(ck):
    """exhaustive: 7 macro families x 9 statement levels x 10 logger levels through the real LOG_* macros with an
    argument that has a side effect; model = the enqueue guard (level_passes); monitor = evaluated iff written iff
    statement level >= logger level"""
    mexe, err = ck.build_modelrun()
    iexe, err2 = ck.build_harness('macro', ['macro.cpp'], san=False)
    if not mexe or not iexe:
        ck.violation('no-failing-input-found', 'macro harness or model did not build: ' + (err or err2 or '')[-400:]); return {'built': False}
    cases = []
    for lg in list(range(0, 9)) + [10]:     # 9 = Backtrace is rejected by set_log_level
        toks = []
        for fam in range(7):
            for lv in range(9): toks += [fam, lv]
        cases.append('lvl %d %s' % (lg, ' '.join(map(str, toks))))
    ml = ck.run_model(mexe, cases); il = ck.run_impl(iexe, cases)
    fails = 0
    for c, m, i in zip(cases, ml, il):
        t = [int(x) for x in c.split()[1:]]; lg = t[0]; pairs = list(zip(t[1::2], t[2::2]))
        o = None if i.startswith(('CRASH', 'HANG', 'NOOUTPUT')) else [int(x) for x in i.split()]
        msg = None
        if o is None or len(o) != 2 * len(pairs): msg = 'implementation ' + i[:80]
        else:
            for k, (fam, lv) in enumerate(pairs):
                want = 1 if lv >= lg else 0
                if o[2 * k] != want:
                    msg = 'macro family %d, statement level %d, logger level %d: arguments %s evaluated' % (fam, lv, lg, 'were' if o[2 * k] else 'were not'); break
                if o[2 * k + 1] != want:
                    msg = 'macro family %d, statement level %d, logger level %d: statement %s written' % (fam, lv, lg, 'was' if o[2 * k + 1] else 'was not'); break
        if msg:
            fails += 1
            if fails <= 2:
                ck.violation('impl-failing-input', 'property monitor on the implementation (LOG_* macros): ' + msg, case=c, expected=m, observed=i)
        elif m != i:
            fails += 1
            if fails <= 1:
                ck.violation('no-failing-input-found', 'correspondence level guard vs LOG_* macros: model and implementation differ', case=c, expected=m, observed=i)
    return {'macro_statements': sum(len(c.split()) // 2 - 1 for c in cases), 'macro_cases': len(cases), 'macro_failures': fails, 'exhaustive': True}


def dispatch_phase(ck, tier, broken):
    """the clause "each sink receives the line formatted with its own override pattern if it has one, else the
    logger's ... independently of the logger's other sinks": theorems Properties_C12d (sink dispatch model), their
    T-src tie and the patd correspondence through the real backend (shared with C12)"""
    import props.c12 as C12
    return {'sink_dispatch': C12.dispatch_phase(ck, tier, broken), 'macros': macro_phase(ck)}


run = run_be(PID, 'Properties_C16', gen, monitor, nontrivial, RULE, n_quick=300, n_thorough=20000, corpus_cases=cross, extra_phase=dispatch_phase)
_replay_be = replay_be(PID, monitor)


def replay(path):
    import json
    c = json.load(open(path)).get('case')
    if isinstance(c, str) and c.startswith('patd '):
        import props.c12 as C12
        return C12.replay(path)
    return _replay_be(path)
