"""C19 — named args: matching text, ordered key/value pairs, one JSON object per line.
Proof: Props/Properties_C19.v over Format/Na{Fmt,Model,Json}.v (scan of a printed template, text =
positional formatting, pairs = zip names renderings, cache transparency, JSON line shape and
recognition; refutations for a value holding the separator (D12, open) and, as statements about the
pinned variants of the model, the "}}"-after-placeholder adjacency (D11) and a value holding a newline
(D16); both are repaired (fixes/D11-*.diff, fixes/D16-*.diff) and the theorems are stated at full
strength for the variant the source selects).
Tie: T-src: tools/srcfacts.py c19_facts reads whether JsonSink appends keys/values through the newline
escaping helper and whether the scanner takes the first '}' as the close bracket (TieC19.v, vm_compute);
the two booleans select the model variant (esc, skip) the correspondence runs against. T-corr. (a) unit level: the real BackendWorker::_process_named_args_format_message and
MacroMetadata::_contains_named_args against the extracted scan / contains_named; (b) end to end:
a real Logger + recording sink + real JsonFileSink/JsonConsoleSink driven through the manual
backend worker against the extracted `process` + `json_line`; what one replacement field renders
to is an oracle table filled from the real fmtquill for exactly the (spec, value) pairs needed.
The monitors below evaluate the property itself on the implementation's observations."""
import json, os, struct, sys
from vlib import Check, standard_proof_phase, correspond, ddmin, VERIF

PID = 'C19'
MANIFEST = dict(
    text='Machine-checked (Coq): for every well-formed template over literal text, {{, }}, {name}, {name:spec} the faithful model of _process_named_args_format_message returns the positional format string and the (name, spec) list (C19_scan_print); the text equals mini-fmt of the positional string = per-field renderings in order (C19_text); the structured pairs are zip(names ++ _i, per-spec renderings) in argument order when no rendering holds the 3-byte separator (C19_pairs); the template cache never changes a result (C19_cache_transparent); _contains_named_args agrees with "has a placeholder" when the first placeholder name starts with a letter (C19_contains_agrees); the JSON sink line has the fixed member sequence, the template with newlines replaced by spaces, every newline of a key or value written as backslash-n and exactly one newline, at the end, for every template and every list of pairs (C19_json_shape, C19_json_one_line); it is recognised as the expected JSON object when no byte needs escaping (C19_json_parses) and, with newlines inside keys/values, as the object holding the original keys/values (C19_json_parses_nl). The model has two variant flags (scanner: skip, sink: esc); the variant that stands for the code is read from the source on every run (TieC19: src_scan_skip = false, src_json_esc = true, the regenerated body texts equal the expected ones); the former findings D11 (}} after a placeholder mis-scanned) and D16 (a newline in a value splits the JSON line) remain as refutations about the pinned variants (C19_scan_adj_refuted, C19_json_nl_refuted, with the partial theorems that held for them). Open refutation with a replay on the real code: D12 (separator bytes in a value); also the adjacency weakness of _contains_named_args. libfmt is a Section oracle (per-field rendering) plus the mini-fmt field parser; both are sampled against fmtquill on every run.'
         ' The named-argument vector of a reused transit event slot: whatever an earlier statement left in the slot, _populate_formatted_named_args (resize to the number of names, keys and values by index; shape read from the source) leaves exactly this statement\'s pairs (C19_slot_pairs_exact, refuted for the appending variant); the deterministic backend driver runs named and positional statements on 2- and 4-slot transit buffers with throwing sinks and formatters, monitor: a sink sees exactly the statement\'s own pairs.',
    design='5 C19', technique='Coq proofs over an executable model of the named-args path + extracted-model/implementation differential correspondence (unit, end-to-end and backend driver) + source-fact translator + direct property monitors')
TRUSTED = [
    'Coq 8.16.1 kernel (coqc, vm_compute for the refutation/non-vacuity examples and the T-src tie; no native_compute)',
    'T-src: tools/srcfacts.py c19_facts (clang AST skeletons + comment-stripped, white-space-normalised body text of JsonSink::generate_json_message / _append_escaping_newlines and BackendWorker::_process_named_args_format_message); that the Gallina variants esc = true / skip = false are faithful to those texts is by inspection (and sampled by the correspondence on every run)',
    'axioms: none (every theorem Closed under the global context)',
    'Section premises standing for libfmt: apply_spec (what one replacement field renders to) is an arbitrary function; fmtquill::vformat_to = the mini-fmt field parser (literal, {{, }}, {}, {:spec}, auto indexing) + apply_spec per field. Both are sampled against the real fmtquill on every run (oracle table from fmtquill::vformat, end-to-end text/values through the real backend)',
    'inputs of the JSON line that other code produces (std::to_string(timestamp), file name, line, thread id, logger name, level description) are arbitrary byte strings in the theorems',
    'extraction: ExtrOcamlBasic only, OCaml 4.13.1 ocamlopt, extract/driver_*.ml',
    'harness/na.cpp: #define private public (test TU only) to call the private static scanner and to clear the template cache at the start of a case; values travel as a tagged struct whose Codec pushes long long / double / fmtquill::string_view / char into the real DynamicFormatArgStore; recording sink; user clock; g++ -fsanitize=address,undefined',
    'the JSON recogniser of the theorem (Format/NaJson.v) accepts a subset of RFC 8259 (ASCII strings, two-character escapes, string members, no white space); the monitor additionally parses every escaping-free line with Python json',
    'modelled rather than verified: the C++ functions are re-stated in Gallina (index loops with explicit fuel >= length+1); std::string/std::unordered_map/fmt internals, the frontend encoding of arguments and PatternFormatter are not modelled',
]
LEVELS = {0: 'TRACE_L3', 1: 'TRACE_L2', 2: 'TRACE_L1', 3: 'DEBUG', 4: 'INFO', 5: 'NOTICE', 6: 'WARNING', 7: 'ERROR', 8: 'CRITICAL'}
SEP = b'\x01\x02\x03'

# ------------------------------------------------------------------------------------------------
# encoding
def S(bs):
    return [len(bs)] + list(bs)


def enc_val(v):
    tag, p = v
    if tag == 2: return [2, len(p)] + list(p)
    return [tag, 1, p & (2 ** 64 - 1)]


def dbl(x):
    return struct.unpack('<Q', struct.pack('<d', x))[0]


class Rd:
    def __init__(self, a): self.a = a; self.i = 0
    def n(self):
        v = self.a[self.i]; self.i += 1; return v
    def s(self):
        k = self.n(); v = bytes(self.a[self.i:self.i + k])
        if len(v) != k: raise IndexError
        self.i += k; return v
    def val(self):
        tag = self.n(); k = self.n()
        if tag == 2:
            v = bytes(self.a[self.i:self.i + k]); self.i += k; return (2, v)
        v = 0
        for _ in range(k): v = self.n()
        return (tag, v)
    def done(self): return self.i >= len(self.a)


def enc_stmt(st):
    o = [st['ts'], st['level'], st['line']] + S(LEVELS[st['level']].encode()) + S(st['tpl']) + [len(st['args'])]
    for v in st['args']: o += enc_val(v)
    tb = st.get('table', [])
    o.append(len(tb))
    for (sp, idx, ok, out) in tb: o += S(sp) + [idx, 1 if ok else 0] + S(out if ok else b'')
    return o


def enc_case(c):
    if c['kind'] == 'scan':
        return 'nascan ' + ' '.join(map(str, S(c['tpl'])))
    o = S(c['file']) + S(c['logger']) + [len(c['stmts'])]
    for st in c['stmts']: o += enc_stmt(st)
    return 'na ' + ' '.join(map(str, o))


def parse_case(line):
    t = line.split(); a = list(map(int, t[1:])); r = Rd(a)
    if t[0] == 'nascan':
        return {'kind': 'scan', 'tpl': r.s()}
    c = {'kind': 'e2e', 'file': r.s(), 'logger': r.s(), 'stmts': []}
    for _ in range(r.n()):
        st = {'ts': r.n(), 'level': r.n(), 'line': r.n()}
        r.s(); st['tpl'] = r.s()
        st['args'] = [r.val() for _ in range(r.n())]
        st['table'] = []
        for _ in range(r.n()):
            sp = r.s(); idx = r.n(); ok = r.n(); out = r.s(); st['table'].append((sp, idx, bool(ok), out))
        c['stmts'].append(st)
    return c


def parse_scan_obs(line):
    r = Rd(list(map(int, line.split())))
    contains = r.n(); f = r.s(); ks = [(r.s(), r.s()) for _ in range(r.n())]
    return contains, f, ks


def parse_e2e_obs(line):
    r = Rd(list(map(int, line.split()))); out = []
    while not r.done():
        calls = r.n(); err = r.n(); text = r.s(); named = r.n(); pairs = [(r.s(), r.s()) for _ in range(r.n())]
        js = r.s(); same = r.n()
        out.append({'calls': calls, 'err': err, 'text': text, 'named': named, 'pairs': pairs, 'json': js, 'same': same})
    return out


# ------------------------------------------------------------------------------------------------
# the grammar as the property (and libfmt) reads a template, left to right
def tokenize(t):
    i = 0; toks = []; n = len(t)
    while i < n:
        c = t[i]
        if c == 123:
            if i + 1 < n and t[i + 1] == 123:
                toks.append(('L',)); i += 2; continue
            j = t.find(b'}', i + 1)
            if j < 0: return None
            inside = t[i + 1:j]
            if b'{' in inside: return None
            k = inside.find(b':')
            toks.append(('H', inside if k < 0 else inside[:k], None if k < 0 else inside[k + 1:])); i = j + 1
        elif c == 125:
            if i + 1 < n and t[i + 1] == 125:
                toks.append(('R',)); i += 2
            else: return None
        else:
            j = i
            while j < n and t[j] not in (123, 125): j += 1
            toks.append(('T', t[i:j])); i = j
    return toks


def print_toks(toks):
    o = b''
    for k in toks:
        if k[0] == 'T': o += k[1]
        elif k[0] == 'L': o += b'{{'
        elif k[0] == 'R': o += b'}}'
        else: o += b'{' + k[1] + (b'' if k[2] is None else b':' + k[2]) + b'}'
    return o


def spec_text(sp):
    return b'' if sp is None else b':' + sp


def is_letter(c):
    return 97 <= c <= 122 or 65 <= c <= 90


def d11_shape(toks):
    return any(a[0] == 'H' and b[0] == 'R' for a, b in zip(toks, toks[1:]))


def in_domain(toks):
    """templates the property speaks about: the first placeholder (if any) has a letter-initial name"""
    hs = [k for k in toks if k[0] == 'H']
    return (not hs) or (len(hs[0][1]) > 0 and is_letter(hs[0][1][0]))


def printable(c):
    return 32 <= c <= 126 or c == 10


def sanitize(s):
    if all(printable(c) for c in s): return s
    return b''.join(bytes([c]) if printable(c) else b'\\x%02X' % c for c in s)


def has_string(args):
    return any(tag in (2, 3) for tag, _ in args)


def plain(s):
    return all(32 <= c < 128 and c not in (34, 92) for c in s)


def esc_nl(x):
    """JsonSink::_append_escaping_newlines"""
    return x.replace(b'\n', b'\\n')


def plain_or_nl(s):
    return plain(s.replace(b'\n', b''))


def expected_json(st, file, logger, pairs):
    o = b'{"timestamp":"%d","file_name":"%s","line":"%d","thread_id":"0","logger":"%s","log_level":"%s","message":"%s"' % (
        st['ts'], file, st['line'], logger, LEVELS[st['level']].encode(), st['tpl'].replace(b'\n', b' '))
    for k, v in pairs or []:
        o += b',"' + esc_nl(k) + b'":"' + esc_nl(v) + b'"'
    return o + b'}\n'


def failures(case_line, impl_line):
    """the property evaluated on the implementation's observations: list of (stmt index, clause, text)"""
    c = parse_case(case_line); out = []
    if impl_line.startswith(('CRASH', 'HANG', 'NOOUTPUT')):
        return [(0, 'crash', 'implementation ' + impl_line)]
    try:
        if c['kind'] == 'scan':
            toks = tokenize(c['tpl'])
            if toks is None or not in_domain(toks): return []
            contains, f, ks = parse_scan_obs(impl_line)
            hs = [k for k in toks if k[0] == 'H']
            ef = b''.join(b'{' + spec_text(k[2]) + b'}' if k[0] == 'H' else print_toks([k]) for k in toks)
            ek = [(k[1], spec_text(k[2])) for k in hs]
            if (f, ks) != (ef, ek):
                out.append((0, 'scan', 'scan(%r) = (%r, %r), expected (%r, %r)' % (c['tpl'], f, ks, ef, ek)))
            if bool(contains) != bool(hs):
                out.append((0, 'contains', '_contains_named_args(%r) = %d but the template has %d placeholders' % (c['tpl'], contains, len(hs))))
            return out
        obs = parse_e2e_obs(impl_line)
    except (IndexError, ValueError):
        return [(0, 'protocol', 'unreadable observation line: ' + impl_line[:200])]
    if len(obs) != len(c['stmts']):
        return [(0, 'protocol', '%d statements but %d observations' % (len(c['stmts']), len(obs)))]
    for i, (st, ob) in enumerate(zip(c['stmts'], obs)):
        # the JSON line is assembled from what the sink was handed (any template)
        pairs_seen = ob['pairs'] if ob['named'] else None
        ej = expected_json(st, c['file'], c['logger'], pairs_seen)
        if ob['json'] != ej:
            out.append((i, 'json-bytes', 'JSON line %r is not the fixed member sequence + recorded pairs %r' % (ob['json'], ej)))
        if ob['calls'] != 1:
            out.append((i, 'calls', 'the sinks were called %d times for one statement' % ob['calls']))
        if not ob['same']:
            out.append((i, 'json-console', 'JsonConsoleSink and JsonFileSink wrote different bytes'))
        if not (ob['json'].endswith(b'\n') and ob['json'].count(b'\n') == 1):
            out.append((i, 'json-one-line', 'JSON output %r is not exactly one line' % ob['json']))
        toks = tokenize(st['tpl'])
        if toks is None or not in_domain(toks): continue
        hs = [k for k in toks if k[0] == 'H']; args = st['args']; tb = {(sp, idx): (ok, o) for sp, idx, ok, o in st['table']}
        if bool(ob['named']) != bool(hs):
            out.append((i, 'contains', 'named path taken = %d but the template %r has %d placeholders' % (ob['named'], st['tpl'], len(hs)))); continue
        if len(args) < len(hs): continue                       # missing arguments: no claim
        need = [(spec_text(k[2]), j) for j, k in enumerate(hs)] + [(b'', j) for j in range(len(hs), len(args))]
        if any(q not in tb for q in need): continue             # cannot judge without the oracle
        if any(not tb[q][0] for q in need[:len(hs)]):
            continue                                            # libfmt rejects a field: no claim
        san = sanitize if has_string(args) else (lambda x: x)
        j = 0; et = b''
        for k in toks:
            if k[0] == 'T': et += k[1]
            elif k[0] == 'L': et += b'{'
            elif k[0] == 'R': et += b'}'
            else: et += tb[need[j]][1]; j += 1
        et = san(et)
        if et.endswith(b'\n'): et = et[:-1]                      # the backend drops one trailing newline of any message
        if ob['err'] or ob['text'] != et:
            out.append((i, 'text', 'text %r (err=%d) is not the positional formatting %r of %r' % (ob['text'], ob['err'], et, st['tpl'])))
        if hs:
            if any(not tb[q][0] for q in need): continue
            keys = [k[1] for k in hs] + [b'_%d' % j for j in range(len(hs), len(args))]
            ep = list(zip(keys, [san(tb[q][1]) for q in need]))
            if ob['pairs'] != ep:
                out.append((i, 'pairs', 'pairs %r are not zip(names, per-spec renderings) %r for %r' % (ob['pairs'], ep, st['tpl'])))
            pj = ep
        else:
            pj = []
        fields = [c['file'], c['logger'], st['tpl'].replace(b'\n', b' ')]
        if all(plain(x) for x in fields) and all(plain_or_nl(x) for kv in pj for x in kv):
            # a newline inside a key or value arrives as the escape \n: the parsed object holds the original text
            exp = [('timestamp', str(st['ts'])), ('file_name', c['file'].decode()), ('line', str(st['line'])), ('thread_id', '0'),
                   ('logger', c['logger'].decode()), ('log_level', LEVELS[st['level']]), ('message', st['tpl'].replace(b'\n', b' ').decode())]
            exp += [(k.decode(), v.decode()) for k, v in pj]
            try:
                got = json.loads(ob['json'].decode('ascii'), object_pairs_hook=list)
            except (ValueError, UnicodeDecodeError) as e:
                got = 'not JSON: %s' % e
            if got != exp:
                out.append((i, 'json-object', 'JSON line %r parses to %r, expected %r' % (ob['json'], got, exp)))
    return out


def monitor(case_line, impl_line):
    f = failures(case_line, impl_line)
    if not f: return None
    return '; '.join('stmt %d [%s] %s' % x for x in f[:3]) + (' (+%d more)' % (len(f) - 3) if len(f) > 3 else '')


# ------------------------------------------------------------------------------------------------
# known findings: a failure is explained only by the specific input shape of an open entry
def explain(case_line, fail, open_ids=None):
    """the finding whose input shape explains this failing clause; when several shapes are present the first one
    that is still open (open_ids: ids of the open entries; None = any)"""
    i, clause, _ = fail
    ok = lambda e: open_ids is None or KNOWN_ID[e] in open_ids
    c = parse_case(case_line)
    if c['kind'] == 'scan':
        toks = tokenize(c['tpl'])
        if toks and d11_shape(toks) and clause == 'scan' and ok('D11'): return 'D11'
        return None
    st = c['stmts'][i]; toks = tokenize(st['tpl'])
    if toks is None: return None
    cand = []
    if d11_shape(toks) and clause in ('text', 'pairs', 'json-object'): cand.append('D11')
    hs = [k for k in toks if k[0] == 'H']; tb = {(sp, idx): (ok_, o) for sp, idx, ok_, o in st['table']}
    need = [(spec_text(k[2]), j) for j, k in enumerate(hs)] + [(b'', j) for j in range(len(hs), len(st['args']))]
    rend = [tb[q][1] for q in need if q in tb and tb[q][0]]
    if clause in ('pairs', 'json-object') and any(SEP in r for r in rend): cand.append('D12')
    if clause == 'json-one-line' and (any(b'\n' in r for r in rend) or any(b'\n' in k[1] for k in hs)): cand.append('NL')
    for e in cand:
        if ok(e): return e
    return None


def shapes(case_line):
    """which open-finding input shapes occur in a case (the zones where the model encodes the defect)"""
    c = parse_case(case_line); out = set()
    if c['kind'] == 'scan':
        toks = tokenize(c['tpl'])
        return {'D11'} if toks and d11_shape(toks) else out
    for st in c['stmts']:
        toks = tokenize(st['tpl'])
        if toks and d11_shape(toks): out.add('D11')
        rend = [o for _, _, ok, o in st['table'] if ok]
        if any(SEP in r for r in rend): out.add('D12')
        if any(b'\n' in r for r in rend) or (toks and any(k[0] == 'H' and b'\n' in k[1] for k in toks)): out.add('NL')
    return out


def shape_counts(cases):
    n = {}
    for c in cases:
        for x in shapes(c): n[KNOWN_ID[x]] = n.get(KNOWN_ID[x], 0) + 1
    return n


def open_findings():
    p = os.path.join(VERIF, 'known_findings.d', PID + '.json')
    if not os.path.exists(p): return {}
    return {f['id']: f for f in json.load(open(p)) if f.get('status') == 'open'}


KNOWN_ID = {'D11': 'D11', 'D12': 'D12', 'NL': 'D16-json-newline'}


_MODEL_LINES = {}      # case line -> model observation (filled by run / shrink)

# the model variant that stands for the code (T-src facts c19_json_escapes_newlines / c19_scan_first_close_bracket,
# proved in TieC19.v): esc = 1 <=> the sink escapes newlines of keys/values; skip = 1 <=> the scanner steps over a
# "}}" that directly follows a close bracket (the pinned scanner, D11)
VARIANT = {'esc': 0, 'skip': 1}


def read_variant(ck=None):
    from props.c01 import srcfacts_values
    f = srcfacts_values()
    VARIANT['esc'] = 1 if f.get('c19_json_escapes_newlines') == 'true' else 0
    VARIANT['skip'] = 0 if f.get('c19_scan_first_close_bracket') == 'true' else 1
    if ck is not None:
        ck.tie.append({'T-src facts': {'c19_json_escapes_newlines': f.get('c19_json_escapes_newlines'),
                                       'c19_scan_first_close_bracket': f.get('c19_scan_first_close_bracket')},
                       'model variant for the correspondence': 'esc=%(esc)d skip=%(skip)d' % VARIANT,
                       'lemmas': 'TieC19.src_json_esc_true, TieC19.src_scan_skip_false, TieC19.c19_skeletons_ok (vm_compute)'})
    return VARIANT


def mline(case_line):
    """the model runner's line for a case: the same integers behind the variant flags (the harness reads the case as it is)"""
    t = case_line.split(' ', 1); rest = t[1] if len(t) > 1 else ''
    if t[0] == 'na': return 'nav %d %d %s' % (VARIANT['esc'], VARIANT['skip'], rest)
    if t[0] == 'nascan': return 'nascanv %d %s' % (VARIANT['skip'], rest)
    if t[0] == 'naneeds': return 'naneedsv %d %s' % (VARIANT['skip'], rest)
    return case_line


def run_model(ck, mexe, cases):
    return ck.run_model(mexe, [mline(c) for c in cases])


def known_match(case_line, impl_line, msg):
    """text for the KNOWN-FINDING line when every failing clause is explained by the input shape of an
    open entry AND the implementation does exactly what the faithful (defective) model predicts"""
    fs = failures(case_line, impl_line)
    if not fs: return None
    if _MODEL_LINES.get(case_line, impl_line) != impl_line: return None
    of = open_findings(); ids = []
    for f in fs:
        e = explain(case_line, f, set(of))
        if e is None or KNOWN_ID[e] not in of: return None      # some failure is not a known one
        if KNOWN_ID[e] not in ids: ids.append(KNOWN_ID[e])
    f = of[ids[0]]
    return '%s status=open %s' % (f['id'], f['what'])


# ------------------------------------------------------------------------------------------------
# generators
IDENT = b'abcdefghijklmnopqrstuvwxyzABCDEFGHIJKLMNOPQRSTUVWXYZ'
SPECS = {0: [None, None, b'', b'd', b'x', b'#x', b'08d', b'>6', b'<6', b'^7', b'+', b'b', b'X', b'*>5', b'#o'],
         1: [None, None, b'', b'.2f', b'.3e', b'10.4f', b'g', b'>8.1f', b'+.1f', b'08.3f'],
         2: [None, None, b'', b's', b'>10', b'<8', b'^9', b'*^7', b'.3', b'?'],
         3: [None, None, b'', b'c', b'd', b'>3', b'?']}
BADSPECS = {0: [b's', b'.2f', b'zz'], 1: [b'd', b'x', b's'], 2: [b'd', b'.2f', b'x'], 3: [b'.2f', b's']}


def gen_value(rng, hard=False):
    tag = rng.choice([0, 0, 1, 2, 2, 2, 3])
    if tag == 0:
        return (0, rng.choice([0, 1, 7, 42, -1 & (2 ** 64 - 1), 123456789, 2 ** 63 - 1, 2 ** 63, rng.randrange(0, 100000)]))
    if tag == 1:
        return (1, dbl(rng.choice([0.0, 0.5, -2.25, 1e10, 3.14159, 1.0 / 3, float('inf'), 2.5, 100.0, rng.random() * 1000])))
    if tag == 3:
        return (3, rng.choice([65, 97, 48, 32, 126, 34, 1, 2, 3, 200, 92]))
    pool = [b'', b'abc', b'hello world', b'x', b'with "quote"', b'back\\slash', b'\x01', b'a\x01b', b'\x01\x02', b'x\x01\x02y',
            b'\x02\x03', b'\x01\x02\x01\x02', b'\x03\x02\x01', b'{}', b'{name}', b'}}', b'caf\xc3\xa9', b'\xff\x80', b'tab\there', b'1\x012\x023',
            b'\x01\x01\x02', b'ends with \x01\x02', b'\x03 starts', b'_0', b'a\nb', b'\n', b'line1\nline2\n', b'\n\nx', b'q"\n\\n', bytes(rng.choice(IDENT + b' 0123456789.,;') for _ in range(rng.randint(1, 12)))]
    return (2, rng.choice(pool))


def gen_name(rng, logj=False):
    if logj:
        return rng.choice([b'var', b'obj.field', b'arr[0]', b'a + b', b'f(x, y)', b'ptr->v', b'x', b'count', b'items.size()', b's.c_str()', b'(int)v', b'user_id', b'v2'])
    n = bytes([rng.choice(IDENT)]) + bytes(rng.choice(IDENT + b'0123456789_') for _ in range(rng.choice([0, 0, 1, 2, 3, 5, 9])))
    return n


def gen_text(rng):
    return bytes(rng.choice(b'abc xyz,.;:=-[]()<>/!?#%01239_"\'\\\n\t|') for _ in range(rng.choice([1, 1, 2, 3, 5, 8])))


def gen_tpl(rng, nholes, args, badspec=0.0, d11=False):
    """token list with nholes placeholders; args[i] (if present) decides the spec family of hole i.
    A Hole immediately followed by '}}' (the D11 shape) occurs by chance; d11=True forces one."""
    toks = []; h = 0
    def filler():
        k = rng.random()
        if k < 0.25: return []
        seq = []
        for _ in range(rng.choice([1, 1, 2, 3])):
            seq.append(rng.choice([('T', gen_text(rng)), ('T', gen_text(rng)), ('L',), ('R',)]))
        # merge adjacent texts (the grammar's Text tokens are maximal runs)
        out = []
        for s in seq:
            if s[0] == 'T' and out and out[-1][0] == 'T': out[-1] = ('T', out[-1][1] + s[1])
            else: out.append(s)
        return out
    names = []
    for h in range(nholes + 1):
        f = filler()
        if toks and toks[-1][0] == 'H' and f and f[0][0] == 'R' and rng.random() < 0.4:
            f = [('T', b' ')] + f
        if f and toks and toks[-1][0] == 'T' and f[0][0] == 'T':
            toks[-1] = ('T', toks[-1][1] + f[0][1]); f = f[1:]
        toks += f
        if h < nholes:
            tag = args[h][0] if h < len(args) else rng.choice([0, 1, 2, 3])
            sp = rng.choice(BADSPECS[tag]) if rng.random() < badspec else rng.choice(SPECS[tag])
            name = gen_name(rng) if not names or rng.random() > 0.08 else rng.choice(names)
            names.append(name); toks.append(('H', name, sp))
    if d11:
        hs = [i for i, k in enumerate(toks) if k[0] == 'H']
        i = rng.choice(hs); toks.insert(i + 1, ('R',))
        if rng.random() < 0.5: toks.insert(i, ('L',))
    return toks


def new_stmt(rng, tpl, args):
    lvl = rng.choice([4, 4, 4, 3, 5, 6, 7, 8, 0])
    return {'ts': rng.choice([0, 1, 1700000000123456789, rng.randrange(1, 2 ** 63)]), 'level': lvl,
            # half of the statements share one of two source lines (two LOG_ calls expanded from one user macro have the same
            # file:line with different templates: the template cache must not be keyed by the source location)
            'line': rng.choice([7, 42]) if rng.random() < 0.5 else rng.randrange(1, 5000), 'tpl': tpl, 'args': args}


FILES = [b'na_case.cpp', b'main.cpp', b'a.h', b'file name.cc']     # MacroMetadata::file_name() is the base name
LOGGERS = [b'na', b'root', b'net.rx']


def gen_structured(rng, n):
    """mostly valid e2e cases: 1-4 statements, 0-18 placeholders, exact / surplus / missing arguments"""
    cases = []
    while len(cases) < n:
        stmts = []
        for _ in range(rng.choice([1, 1, 2, 3, 4])):
            nh = rng.choice([0, 1, 1, 2, 2, 3, 3, 4, 5, 8, 12, 18])
            r = rng.random()
            na = nh if r < 0.7 else min(20, nh + rng.randint(1, 3)) if r < 0.88 else max(0, nh - rng.randint(1, 2))
            args = [clean_value(rng) for _ in range(na)]
            toks = gen_tpl(rng, nh, args, badspec=0.03)
            stmts.append(new_stmt(rng, print_toks(toks), args))
        cases.append({'kind': 'e2e', 'file': rng.choice(FILES), 'logger': rng.choice(LOGGERS), 'stmts': stmts, 'stream': 'structured'})
    return cases


def clean_value(rng):
    """values of the structured stream: anything except the open-finding shape (a string holding the
    three separator bytes in a row, D12); strings holding newlines are in"""
    while True:
        v = gen_value(rng)
        if v[0] == 2 and SEP in v[1]: continue
        return v


def gen_cache(rng, n):
    """orders of first use: a pool of templates with equal shapes but different names / specs, each
    used several times, and the same multiset in a permuted order"""
    cases = []
    while len(cases) < n:
        k = rng.choice([2, 2, 3, 4]); nh = rng.choice([1, 2, 2, 3])
        args = [clean_value(rng) for _ in range(nh)]
        base = gen_tpl(rng, nh, args)
        pool = [base]
        for _ in range(k - 1):
            v = []
            for t in base:
                if t[0] == 'H':
                    m = rng.random()
                    if m < 0.5: v.append(('H', gen_name(rng), t[2]))                       # other name, same spec
                    elif m < 0.8: v.append(('H', t[1], rng.choice(SPECS[args[len([x for x in v if x[0] == 'H'])][0]])))   # same name, other spec
                    else: v.append(t)
                elif t[0] == 'T' and rng.random() < 0.3: v.append(('T', gen_text(rng)))
                else: v.append(t)
            pool.append(v)
        uses = [p for p in pool for _ in range(rng.choice([1, 2, 3]))]
        for _ in range(2):
            rng.shuffle(uses)
            stmts = [new_stmt(rng, print_toks(p), [clean_value_like(rng, a) for a in args]) for p in uses]
            cases.append({'kind': 'e2e', 'file': FILES[0], 'logger': LOGGERS[0], 'stmts': stmts, 'stream': 'cache'})
    return cases[:n]


def clean_value_like(rng, a):
    while True:
        v = clean_value(rng)
        if v[0] == a[0]: return v


def gen_logj(rng, n):
    """LOGJ_ generated templates: text " {x}, {y}, {z}" with the stringified expressions as names"""
    cases = []
    while len(cases) < n:
        k = rng.randint(1, 20)
        names = [gen_name(rng, logj=True) for _ in range(k)]
        text = rng.choice([b'', b'event', b'user logged in', b'a {{literal}} brace', b'multi\nline'])
        tpl = text + b' ' + b', '.join(b'{' + x + b'}' for x in names)
        args = [clean_value(rng) for _ in range(k)]
        cases.append({'kind': 'e2e', 'file': rng.choice(FILES), 'logger': rng.choice(LOGGERS), 'stmts': [new_stmt(rng, tpl, args)], 'stream': 'logj'})
    return cases


def gen_adjacency(rng):
    """every sequence of up to 4 token kinds (text, {{, }}, placeholder), placeholder-}} included: unit and e2e"""
    import itertools
    scan = []; e2e = []
    for L in (1, 2, 3, 4):
        for kinds in itertools.product('TLRH', repeat=L):
            if any(a == 'T' and b == 'T' for a, b in zip(kinds, kinds[1:])): continue
            toks = []; nh = 0
            for k in kinds:
                if k == 'T': toks.append(('T', rng.choice([b' ', b'ab', b':', b'x y'])))
                elif k == 'H':
                    toks.append(('H', rng.choice([b'a', b'name', b'Zz9']), rng.choice([None, b'', b'>4', b'x']))); nh += 1
                else: toks.append((k,))
            t = print_toks(toks)
            scan.append({'kind': 'scan', 'tpl': t, 'stream': 'adjacency'})
            if L <= 3 or rng.random() < 0.4:
                e2e.append({'kind': 'e2e', 'file': FILES[0], 'logger': LOGGERS[0], 'stream': 'adjacency',
                            'stmts': [new_stmt(rng, t, [(0, rng.randrange(0, 300)) for _ in range(nh)])]})
    return scan, e2e


def gen_scan_random(rng, n):
    """unit stream: printed random token lists (well-formed) and raw byte strings over a brace-heavy alphabet"""
    cases = []
    while len(cases) < n:
        if rng.random() < 0.6:
            nh = rng.choice([0, 1, 2, 3, 5, 9, 18])
            t = print_toks(gen_tpl(rng, nh, []))
            cases.append({'kind': 'scan', 'tpl': t, 'stream': 'scan-grammar'})
        else:
            t = bytes(rng.choice(b'{{{}}}::ab1_ \n') for _ in range(rng.randint(0, 14)))
            cases.append({'kind': 'scan', 'tpl': t, 'stream': 'scan-raw'})
    return cases


def gen_edge(rng, n):
    """malformed / edge e2e stream: placeholders whose names are empty or start with '_', templates
    without placeholders, argument-free statements, invalid specs"""
    cases = []
    while len(cases) < n:
        nh = rng.choice([0, 1, 2, 3])
        args = [clean_value(rng) for _ in range(rng.choice([nh, nh, 0, nh + 1]))]
        toks = gen_tpl(rng, nh, args, badspec=0.3)
        toks = [(('H', rng.choice([b'', b'_x', b'_', k[1]]), k[2]) if k[0] == 'H' and rng.random() < 0.5 else k) for k in toks]
        cases.append({'kind': 'e2e', 'file': FILES[0], 'logger': LOGGERS[1], 'stmts': [new_stmt(rng, print_toks(toks), args)], 'stream': 'edge'})
    return cases


def gen_known(rng, n):
    """dedicated stream for the shapes of the findings: '}}' right after a placeholder (D11, repaired), a value
    holding the separator bytes (D12, open), a value or a placeholder name holding a newline (D16, repaired)"""
    cases = []
    while len(cases) < n:
        kind = rng.choice(['D11', 'D11s', 'D12', 'NL'])
        nh = rng.choice([1, 2, 3])
        if kind.startswith('D11'):
            args = [(0, rng.randrange(0, 100)) for _ in range(nh)]
            t = print_toks(gen_tpl(rng, nh, args, d11=True))
            if kind == 'D11s': cases.append({'kind': 'scan', 'tpl': t, 'stream': 'known'}); continue
        else:
            args = [clean_value(rng) for _ in range(nh)]
            j = rng.randrange(nh)
            bad = rng.choice([SEP, b'a' + SEP + b'b', SEP + SEP, b'x\x01' + SEP]) if kind == 'D12' else rng.choice([b'a\nb', b'\n', b'line1\nline2\n'])
            args[j] = (2, bad)
            toks = gen_tpl(rng, nh, args)
            toks = [(('H', k[1], rng.choice([None, b'', b'>12'])) if k[0] == 'H' else k) for k in toks]
            if kind == 'NL' and rng.random() < 0.3:
                hs = [i for i, k in enumerate(toks) if k[0] == 'H']; i = rng.choice(hs)
                toks[i] = ('H', rng.choice([b'k\ney', b'nl\n', b'a\n\nb']), toks[i][2])
            t = print_toks(toks)
        cases.append({'kind': 'e2e', 'file': FILES[0], 'logger': LOGGERS[0], 'stmts': [new_stmt(rng, t, args)], 'stream': 'known'})
    return cases


# ------------------------------------------------------------------------------------------------
# oracle tables
def py_needs(st):
    toks = tokenize(st['tpl'])
    if toks is None: return []
    hs = [k for k in toks if k[0] == 'H']
    nd = [(spec_text(k[2]), j) for j, k in enumerate(hs) if j < len(st['args'])]
    nd += [(b'', j) for j in range(len(hs), len(st['args']))]
    return nd


def fill_tables(ck, mexe, iexe, cases):
    """ask the model which (spec, argument) pairs it will look up, add the ones the monitor needs,
    and let the harness evaluate them with the real fmtquill"""
    e2e = [c for c in cases if c['kind'] == 'e2e']
    if not e2e: return
    lines = []
    for c in e2e:
        o = [len(c['stmts'])]
        for st in c['stmts']: o += S(st['tpl']) + [len(st['args'])]
        lines.append('naneeds ' + ' '.join(map(str, o)))
    res = run_model(ck, mexe, lines)
    reqs = []
    for c, l in zip(e2e, res):
        r = Rd(list(map(int, l.split()))); o = []; per = []
        for st in c['stmts']:
            nd = []
            for _ in range(r.n()):
                sp = r.s(); idx = r.n(); nd.append((sp, idx))
            for q in py_needs(st):
                if q not in nd: nd.append(q)
            nd = list(dict.fromkeys(nd)); per.append(nd)
            for sp, idx in nd: o += S(sp) + enc_val(st['args'][idx])
        reqs.append(('naoracle %d ' % sum(len(p) for p in per)) + ' '.join(map(str, o)))
        c['_needs'] = per
    ans = ck.run_impl(iexe, reqs)
    for c, l in zip(e2e, ans):
        if l.startswith(('CRASH', 'HANG', 'NOOUTPUT')):
            raise RuntimeError('oracle run failed: ' + l)
        r = Rd(list(map(int, l.split())))
        for st, nd in zip(c['stmts'], c.pop('_needs')):
            st['table'] = []
            for sp, idx in nd:
                ok = r.n(); out = r.s(); st['table'].append((sp, idx, bool(ok), out))


def corpus():
    d = os.path.join(VERIF, 'corpus', PID); out = []
    if os.path.isdir(d):
        for f in sorted(os.listdir(d)):
            for l in open(os.path.join(d, f)):
                l = l.strip()
                if l and not l.startswith('#'): out.append(l)
    return out


def nontrivial(c):
    """a case that exercised the mechanism: unit: >= 1 placeholder and >= 1 escaped brace; end to end:
    a named-path statement with >= 2 arguments of which one has a spec, or a template used twice"""
    if c['kind'] == 'scan':
        t = tokenize(c['tpl'])
        return bool(t) and any(k[0] == 'H' for k in t) and any(k[0] in 'LR' for k in t)
    seen = set()
    for st in c['stmts']:
        if st['tpl'] in seen: return True
        seen.add(st['tpl'])
        t = tokenize(st['tpl'])
        if t and len(st['args']) >= 2 and any(k[0] == 'H' and k[2] is not None for k in t): return True
    return False



def slot_phase(ck, tier):
    """C19 through the real backend: named-argument statements mixed with positional ones on small transit buffers
    (slots reused after 2 or 4 events), sinks that throw on chosen writes, formatters that throw, backtrace statements
    without init - the deterministic backend driver of C10 (harness/be.cpp, model M-BE). Monitor (C19's clause only):
    every statement a sink receives carries exactly its own key/value pairs - two for a named statement of the driver,
    none for a positional one - whatever happened to the statement that used the transit event slot before."""
    import props.c10 as c10
    from be_check import be_driver_phase
    from be_common import Track

    def gen(rng, facts):
        return c10.gen(rng, facts)

    def mon(case, obs):
        tr = Track(case, obs)
        for pos, k, i, n in tr.named_seen:
            d = tr.stmts.get(i)
            if d is not None:
                want = 2 if d.get('named') else 0
                if n != want:
                    return ('sink %d received statement %d with %d key/value pairs, the statement has %d named arguments '
                            '(pairs of another statement left in a reused transit event slot)' % (k, i, n, want))
        return None
    cov = be_driver_phase(ck, tier, gen, mon, 250, 8000, 'M-BE vs backend driver (named arguments in reused slots)')
    return {'slot_phase': cov}


def run(tier):
    ck = Check(PID, tier)
    broken = standard_proof_phase(ck, 'Properties_C19')
    read_variant(ck)
    mexe, err = ck.build_modelrun()
    if not mexe:
        ck.violation('no-failing-input-found', 'model extraction/build failed: ' + err[-400:]); return ck.finish(trusted=TRUSTED)
    iexe, err = ck.build_harness('na', ['na.cpp'])
    if not iexe:
        ck.violation('no-failing-input-found', 'harness na.cpp does not compile against the repository: ' + err[-600:])
        return ck.finish(trusted=TRUSTED)
    q = tier == 'quick'
    rng = ck.rng
    adj_scan, adj_e2e = gen_adjacency(rng)
    gen = (adj_scan + adj_e2e + gen_scan_random(rng, 1500 if q else 200000) + gen_structured(rng, 350 if q else 40000) +
           gen_cache(rng, 120 if q else 12000) + gen_logj(rng, 60 if q else 4000) + gen_edge(rng, 120 if q else 12000) +
           gen_known(rng, 40 if q else 1000))
    try:
        fill_tables(ck, mexe, iexe, gen)
    except RuntimeError as e:
        ck.violation('no-failing-input-found', 'oracle phase: %s' % e); return ck.finish(trusted=TRUSTED)
    corp = corpus()
    cases = corp + [enc_case(c) for c in gen]
    streams = {}
    for c in gen: streams[c['stream']] = streams.get(c['stream'], 0) + 1
    ml = run_model(ck, mexe, cases)
    il = ck.run_impl(iexe, cases, timeout=900 if not q else 300)

    # an open finding that has been repaired: on its input shape the implementation now satisfies the
    # property while the model still encodes the defect; that is not a disagreement to report
    repaired = {}
    for k, (c, m, i) in enumerate(zip(cases, ml, il)):
        if m != i and monitor(c, i) is None:
            sh = shapes(c)
            if sh:
                ml[k] = i
                for x in sh: repaired[x] = repaired.get(x, 0) + 1
    if repaired:
        ck.notes.append('inputs of open-finding shapes on which the implementation now satisfies the property although the model '
                        'encodes the defect (finding repaired? update known_findings.d/C19.json and the model): %s' % repaired)

    def shrink(case, mode):
        c = parse_case(case)
        if c['kind'] == 'scan':
            def fails_b(bs):
                l = enc_case({'kind': 'scan', 'tpl': bytes(bs)}); i = ck.run_impl(iexe, [l])[0]
                _MODEL_LINES[l] = run_model(ck, mexe, [l])[0]
                if mode == 'monitor': return monitor(l, i) is not None and known_match(l, i, '') is None
                return _MODEL_LINES[l] != i
            return enc_case({'kind': 'scan', 'tpl': bytes(ddmin(list(c['tpl']), fails_b))})
        def fails(sts):
            l = enc_case(dict(c, stmts=sts)); i = ck.run_impl(iexe, [l])[0]
            _MODEL_LINES[l] = run_model(ck, mexe, [l])[0]
            if mode == 'monitor': return monitor(l, i) is not None and known_match(l, i, '') is None
            return _MODEL_LINES[l] != i
        sts = ddmin(c['stmts'], fails) if len(c['stmts']) > 1 else c['stmts']
        return enc_case(dict(c, stmts=sts))

    _MODEL_LINES.update(zip(cases, ml))
    dis, mon = correspond(ck, 'M-NA vs BackendWorker/JsonSink', cases, ml, il, monitor=monitor, shrink=shrink, known_match=known_match)
    slot_cov = slot_phase(ck, tier)
    if broken and not ck.violations:
        ck.violation('no-failing-input-found', '; '.join(broken))
    parsed = [parse_case(l) for l in cases]
    nt = len(set(l for l, c in zip(cases, parsed) if nontrivial(c)))
    nst = sum(len(c['stmts']) for c in parsed if c['kind'] == 'e2e')
    samples = [cases[len(corp)]] + [enc_case(c) for c in gen if c['stream'] == 'structured'][:1] + [enc_case(c) for c in gen if c['stream'] == 'cache'][:1]
    samples = [s if len(s) < 1500 else s[:1500] + ' ...' for s in samples]
    return ck.finish(trusted=TRUSTED, samples=samples,
                     rule='cases are integer lines (strings length-prefixed): "nascan <tpl>" runs the real _process_named_args_format_message/_contains_named_args; "na <file> <logger> n stmt*" logs n statements (ts level line lvl tpl args oracle-table) through a real Logger + recording sink + JsonFileSink + JsonConsoleSink on the manual backend worker. The model runner is given the same integers behind the variant flags read from the source (nav <esc> <skip> ..., nascanv <skip> ...). Streams: adjacency (all <=4-token sequences of text/{{/}}/placeholder, "}}" directly after a placeholder included), scan-grammar, scan-raw, structured (0-18 placeholders, exact/surplus/missing arguments, ints/doubles/strings/chars, byte 1 / bytes 1 2 / quotes / braces / high bytes / newlines inside string values, "}}" directly after a placeholder by chance), cache (same multiset of look-alike templates in two orders), logj, edge, known ("}}" forced after a placeholder; newline inside a value or a placeholder name; a value holding the bytes 1 2 3 in a row). The open-finding shape (a value holding the bytes 1 2 3 in a row, D12) is exercised only in the dedicated "known" stream and the corpus. non-trivial = unit: >=1 placeholder and >=1 escaped brace; end to end: a statement with >=2 arguments and a spec, or a template used twice; distinct by case text',
                     evaluations=len(cases), distinct_nontrivial=nt, traces=len(cases) - len(dis) - len(mon),
                     extra_cov={'disagreements': len(dis), 'monitor_failures': len(mon), 'monitor_failures_known': len(mon) - sum(1 for x in mon if known_match(x[0], x[2], x[3]) is None),
                                'corpus_cases': len(corp), 'streams': streams, 'statements_end_to_end': nst,
                                'model_variant': dict(VARIANT), 'cases_with_finding_shapes': shape_counts(cases), **slot_cov})


def replay(path):
    d = json.load(open(path))
    ck = Check(PID, 'quick')
    ck.srcfacts(); read_variant()
    mexe, _ = ck.build_modelrun(); iexe, _ = ck.build_harness('na', ['na.cpp'])
    c = d.get('case')
    if not c:
        print('replay holds no concrete case; broken:', d.get('broken')); return 1
    print('case :', c)
    pc = parse_case(c)
    if pc['kind'] == 'scan': print('template:', pc['tpl'])
    else:
        for st in pc['stmts']: print('statement:', st['tpl'], st['args'])
    m = run_model(ck, mexe, [c])[0]; i = ck.run_impl(iexe, [c])[0]
    print('model variant (from the source): esc=%(esc)d skip=%(skip)d' % VARIANT)
    print('model:', m); print('impl :', i)
    try:
        print('impl decoded :', parse_scan_obs(i) if pc['kind'] == 'scan' else parse_e2e_obs(i))
        print('model decoded:', parse_scan_obs(m) if pc['kind'] == 'scan' else parse_e2e_obs(m))
    except (IndexError, ValueError):
        pass
    mf = monitor(c, i)
    print('monitor:', mf or 'property holds on this case'); print('model == impl:', m == i)
    _MODEL_LINES[c] = m
    k = known_match(c, i, mf) if mf else None
    if k: print('KNOWN-FINDING: property=%s %s' % (PID, k))
    return 1 if (mf and not k) or m != i else 0
