"""Shared by C02 / C09 (unbounded clause): case generation for the unbounded SPSC queue (sequential
layer), a small python reference used ONLY to steer the generator towards the boundaries, and the
property monitors evaluated directly on the implementation's observations (independent of the Coq
model).  Case line (see harness/uq.cpp, Queue/UQDefs.v):
  uq <on_batch> <on_drain> <recheck> <commit_before_delete> <pct> <initial> <max> ops..."""

MARKS = {'999999999': 'a record read back differs from the bytes written (torn / overwritten / wrong record)',
         '888888888': 'node allocations/frees counted at operator new/delete and at mmap/munmap disagree, or nodes leak',
         '777777777': 'a granted/read pointer is not inside the node it belongs to'}
PCT = 5


def next_pow2(n):
    if n <= 1:
        return 1
    p = 1
    while p < n:
        p <<= 1
    return p


def prev_pow2(n):
    p = 1
    while p * 2 <= n:
        p <<= 1
    return p


def is_pow2(n):
    return n > 0 and (n & (n - 1)) == 0


def grow_cap(cap, n):
    c = cap * 2
    while c < n:
        c *= 2
    return c


class BRef:
    """bounded queue of one node (ideal arithmetic), as in props/bq_common.Ref"""
    def __init__(self, C):
        self.C = C; self.batch = int((C * PCT) / 100.0)
        self.w = self.rc = self.r = self.wc = self.aw = self.ar = 0
        self.recs = []; self.dirty = False

    def nofit(self, rc, n): return self.C - (self.w - rc) < n

    def pw(self, n):
        if self.nofit(self.rc, n):
            self.rc = self.ar
            if self.nofit(self.rc, n): return False
        return True

    def empty(self):
        if self.wc == self.r:
            self.wc = self.aw
            return self.wc == self.r
        return False

    def cr(self):
        if self.r - self.ar >= self.batch or self.r == self.wc: self.ar = self.r
        self.dirty = False


class URef:
    """reference of the unbounded queue for steering the generator"""
    def __init__(self, initial, maxc):
        self.maxc = maxc; self.nodes = [BRef(next_pow2(initial))]; self.nxt = [None]; self.p = 0; self.c = 0

    def pcap(self): return self.nodes[self.p].C

    def W(self, n, c):
        q = self.nodes[self.p]
        if not q.pw(n):
            cap = grow_cap(q.C, n)
            if cap > self.maxc:
                return 'throw' if n > self.maxc else None
            q.aw = q.w
            self.nodes.append(BRef(next_pow2(cap))); self.nxt[self.p] = len(self.nodes) - 1; self.nxt.append(None)
            self.p = len(self.nodes) - 1; q = self.nodes[self.p]; q.pw(n)
        q.w += n; q.recs.append(n)
        if c: q.aw = q.w
        return 'ok'

    def CW(self):
        q = self.nodes[self.p]; q.aw = q.w

    def shrink(self, c):
        q = self.nodes[self.p]
        if c > (q.C >> 1): return False
        self.nodes.append(BRef(next_pow2(c))); self.nxt[self.p] = len(self.nodes) - 1; self.nxt.append(None)
        self.p = len(self.nodes) - 1
        return True

    def R(self):
        q = self.nodes[self.c]
        if q.empty():
            if self.nxt[self.c] is None: return None
            if q.empty():
                q.cr(); self.c = self.nxt[self.c]; q = self.nodes[self.c]
                if q.empty(): return None
        n = q.recs.pop(0); q.r += n; q.dirty = True
        return n

    def CR(self): self.nodes[self.c].cr()

    def uncommitted(self):
        q = self.nodes[self.p]; return q.aw != q.w

    def free_real(self):
        q = self.nodes[self.p]; return q.C - (q.w - q.r)

    def free_pub(self):
        q = self.nodes[self.p]; return q.C - (q.w - q.ar)

    def pending(self): return sum(len(q.recs) for q in self.nodes)


def parse(case):
    t = case.split()
    hdr = t[:8]; a = t[8:]; ops = []; i = 0
    while i < len(a):
        if a[i] == '0' and i + 2 < len(a): ops.append(('W', int(a[i + 1]), int(a[i + 2]))); i += 3
        elif a[i] == '1': ops.append(('CW',)); i += 1
        elif a[i] == '2': ops.append(('R',)); i += 1
        elif a[i] == '3': ops.append(('CR',)); i += 1
        elif a[i] == '4': ops.append(('E',)); i += 1
        elif a[i] == '5' and i + 1 < len(a): ops.append(('S', int(a[i + 1]))); i += 2
        else: break
    return hdr, ops


def unparse(hdr, ops):
    out = list(hdr)
    for o in ops:
        if o[0] == 'W': out += ['0', str(o[1]), str(o[2])]
        elif o[0] == 'S': out += ['5', str(o[1])]
        else: out.append({'CW': '1', 'R': '2', 'CR': '3', 'E': '4'}[o[0]])
    return ' '.join(out)


def header(initial, maxc, flags=('1', '1', '1', '1')):
    return ['uq'] + list(flags) + [str(PCT), str(initial), str(maxc)]


MAXES = [1024, 1500, 2048, 3000, 4096, 5000, 8192, 10000, 16384, 24576, 40000, 65536]


def gen_case(rng, nops=None, maxc=None, initial=None, allow_uncommitted=True):
    maxc = maxc or rng.choice(MAXES)
    if initial is None:
        k = rng.randint(4, 16)
        while (1 << k) > maxc: k -= 1
        if rng.random() < 0.5: k = max(4, k - rng.randint(0, 4))
        initial = 1 << k
        if rng.random() < 0.15:                       # not a power of two: the node constructor rounds up
            cand = initial - rng.randint(1, max(1, initial // 2 - 1))
            if next_pow2(cand) <= maxc: initial = max(1, cand)
    ref = URef(initial, maxc); ops = []
    nops = nops or rng.randint(10, 120)
    pp = prev_pow2(maxc)
    for _ in range(nops):
        r = rng.random()
        cap = ref.pcap()
        if r < 0.45:
            fr = ref.free_real(); fp = ref.free_pub()
            cand = [1, 8, cap - 1, cap, cap + 1, 2 * cap - 1, 2 * cap, 2 * cap + 1, fr, fr + 1, max(1, fr - 1), fp, fp + 1,
                    maxc, maxc + 1, max(1, maxc - 1), pp, pp + 1, max(1, pp - 1), max(1, cap // 3), rng.randint(1, cap),
                    rng.randint(1, maxc), 4 * cap, 4 * cap + 1]
            n = rng.choice([x for x in cand if x > 0])
            c = 0 if (allow_uncommitted and rng.random() < 0.06) else 1
            ops.append(('W', n, c)); ref.W(n, c)
        elif r < 0.50:
            ops.append(('CW',)); ref.CW()
        elif r < 0.80:
            j = rng.choice([1, 1, 2, 3, 8])
            did = False
            for _ in range(j):
                ops.append(('R',))
                if ref.R() is None: break
                did = True
            if did or rng.random() < 0.2:
                if rng.random() < 0.9: ops.append(('CR',)); ref.CR()
        elif r < 0.86:
            ops.append(('CR',)); ref.CR()
        elif r < 0.90:
            ops.append(('E',))
        else:
            if ref.uncommitted():                    # shrink is only called between complete statements
                ops.append(('CW',)); ref.CW()
            c = rng.choice([cap // 2, cap // 2, cap // 4, cap // 2 + 1, cap, 1, 0, max(1, cap // 2 - 1), max(1, cap // 8 + 3), rng.randint(0, cap)])
            ops.append(('S', c)); ref.shrink(c)
    return unparse(header(initial, maxc), ops)


def gen_cycle(rng):
    """repeated grow -> shrink -> grow cycles with the consumer mid-node when the shrink request arrives"""
    maxc = rng.choice(MAXES); k0 = rng.randint(4, 9)
    while (1 << k0) > maxc: k0 -= 1
    initial = 1 << k0
    ref = URef(initial, maxc); ops = []
    for _ in range(rng.randint(2, 6)):
        cap = ref.pcap()
        for _ in range(rng.randint(1, 4)):            # a few records in the current node
            n = rng.randint(1, max(1, cap // 2)); ops.append(('W', n, 1)); ref.W(n, 1)
        big = rng.choice([cap + 1, 2 * cap, 2 * cap + 1, min(maxc, 4 * cap), prev_pow2(maxc), maxc])
        ops.append(('W', big, 1)); ref.W(big, 1)       # grow (or refused at the cap)
        for _ in range(rng.randint(0, 3)):            # consumer part-way through the old node
            ops.append(('R',)); ref.R()
        if rng.random() < 0.7: ops.append(('CR',)); ref.CR()
        cap = ref.pcap()
        c = rng.choice([cap // 2, cap // 4, max(1, cap // 2 - 1), 1 << k0, 16])
        ops.append(('S', c)); ref.shrink(c)
        for _ in range(rng.randint(0, 2)):
            n = rng.randint(1, max(1, ref.pcap())); ops.append(('W', n, 1)); ref.W(n, 1)
        for _ in range(rng.randint(0, 6)):
            ops.append(('R',))
            if ref.R() is None: break
        ops.append(('CR',)); ref.CR()
    for _ in range(ref.pending() + 3):
        ops.append(('R',)); ref.R()
    ops.append(('CR',)); ops.append(('E',))
    return unparse(header(initial, maxc), ops)


def gen_c09u(rng):
    """drain completely (consumer quiescent), then ask for a record near the maximum"""
    maxc = rng.choice(MAXES); k0 = rng.randint(4, 12)
    while (1 << k0) > maxc: k0 -= 1
    initial = 1 << k0
    ref = URef(initial, maxc); ops = []
    pp = prev_pow2(maxc)
    for _ in range(rng.randint(1, 6)):
        cap = ref.pcap()
        n = rng.choice([1, max(1, int(cap * PCT / 100.0) - 1), cap // 2 + 1, cap, cap + 1, rng.randint(1, 2 * cap)])
        ops.append(('W', n, 1)); ref.W(n, 1)
        for _ in range(4):
            ops.append(('R',))
            if ref.R() is None: break
        ops.append(('CR',)); ref.CR()
        if rng.random() < 0.3:
            c = ref.pcap() // rng.choice([2, 4]); ops.append(('S', c)); ref.shrink(c)
        big = rng.choice([pp, pp + 1, maxc, max(1, maxc - 1), max(1, pp - 1), ref.pcap(), 2 * ref.pcap(), ref.pcap() + 1, (pp + maxc) // 2 + 1])
        big = max(1, min(big, maxc))
        ops.append(('W', big, 1)); ref.W(big, 1)
        for _ in range(4):
            ops.append(('R',))
            if ref.R() is None: break
        ops.append(('CR',)); ref.CR()
    return unparse(header(initial, maxc), ops)


def boundary_cases():
    out = []
    for initial, maxc in [(1024, 3000), (1024, 4096), (64, 1024), (16, 1500), (256, 65536), (4096, 4096), (2048, 5000), (128, 40000)]:
        pp = prev_pow2(maxc); C = next_pow2(initial)
        rd = [('R',)] * 3 + [('CR',)]
        out.append(unparse(header(initial, maxc), [('W', pp + 1, 1), ('W', maxc + 1, 1), ('W', pp, 1)] + rd + [('E',)]))           # D13 family
        out.append(unparse(header(initial, maxc), [('W', maxc, 1), ('W', maxc + 1, 1), ('W', C, 1), ('W', C + 1, 1)] + rd + rd))
        out.append(unparse(header(initial, maxc), [('W', C // 2 + 1, 1), ('W', C // 2 + 1, 1), ('R',), ('S', C // 2), ('W', 3, 1)] + rd + rd + [('E',)]))
        out.append(unparse(header(initial, maxc), [('W', C, 1), ('W', 2 * C, 1), ('W', 4 * C, 1), ('S', C), ('S', C // 2), ('W', 1, 1)] + rd + rd + rd + [('E',)]))
        out.append(unparse(header(initial, maxc), [('W', 5, 0), ('W', 2 * C, 1)] + rd + [('S', 0), ('W', 1, 1), ('W', 2, 1)] + rd + rd))
    return out


# ------------------------------------------------------------------ walking the implementation's observation line
def walk(case, line):
    """yield (index, op, observation tuple) ; raises ValueError when the line is too short / has a marker"""
    hdr, ops = parse(case)
    toks = line.split()
    for m in MARKS:
        if m in toks:
            raise ValueError(MARKS[m])
    i = 0; ev = []
    def take(k):
        nonlocal i
        if i + k > len(toks): raise ValueError('missing observation')
        v = [int(x) for x in toks[i:i + k]]; i += k
        return v
    for idx, o in enumerate(ops):
        if o[0] == 'W': ev.append((idx, o, take(4)))
        elif o[0] == 'R': ev.append((idx, o, take(8)))
        elif o[0] == 'E': ev.append((idx, o, take(1)))
        elif o[0] == 'S': ev.append((idx, o, take(2)))
        else: ev.append((idx, o, []))
    na = take(1)[0]; allocs = take(na); nf = take(1)[0]; frees = take(nf); live = take(1)[0]
    return hdr, ev, allocs, frees, live


def monitor_c02(case, line):
    """C02 evaluated on the implementation's observations."""
    if line.startswith(('CRASH', 'HANG', 'NOOUTPUT')):
        return 'implementation ' + line
    try:
        hdr, ev, allocs, frees, live = walk(case, line)
    except ValueError as e:
        return str(e)
    initial = int(hdr[6]); maxc = int(hdr[7])
    if next_pow2(initial) > maxc:
        return None                                    # configuration outside the property's premise (initial capacity above the maximum)
    for c in allocs:
        if c > maxc: return 'a node of capacity %d was allocated beyond the maximum capacity %d' % (c, maxc)
        if not is_pow2(c): return 'a node of capacity %d (not a power of two) was allocated' % c
    if frees != allocs[:len(frees)]: return 'nodes were not freed in allocation order: allocated %s freed %s' % (allocs, frees)
    if live != 0: return 'nodes leaked at destruction'
    fifo = []            # (node index, offset, size) of every committed record not yet read
    unc = []             # finished but not yet committed records of the producer's node
    pcap = allocs[0] if allocs else 0; na = 1
    for idx, o, v in ev:
        if o[0] == 'W':
            kind, off, pc, n_al = v; n = o[1]
            if (kind == 2) != (n > maxc):
                return 'op %d: write of %d bytes with maximum %d: %s' % (idx, n, maxc, 'rejected with an error although it does not exceed the maximum' if kind == 2 else 'not rejected with an error')
            if kind == 0:
                if grow_cap(pcap, n) <= maxc:
                    return 'op %d: reservation of %d failed although growing %d -> %d stays within the maximum %d' % (idx, n, pcap, grow_cap(pcap, n), maxc)
                if n_al != na or pc != pcap: return 'op %d: a failed reservation changed the producer node' % idx
            if kind == 1:
                if n_al == na + 1:
                    if pc != grow_cap(pcap, n): return 'op %d: grew from %d to %d for a record of %d (expected %d)' % (idx, pcap, pc, n, grow_cap(pcap, n))
                    fifo += unc; unc = []              # _handle_full_queue commits the old node
                elif n_al != na or pc != pcap:
                    return 'op %d: unexpected allocation count / capacity' % idx
                if n > pc: return 'op %d: %d bytes granted in a node of capacity %d' % (idx, n, pc)
                unc.append((n_al - 1, off, n))
                if o[2]: fifo += unc; unc = []
            if pc > maxc: return 'op %d: producer capacity %d above the maximum %d' % (idx, pc, maxc)
            pcap = pc; na = n_al
        elif o[0] == 'CW':
            fifo += unc; unc = []
        elif o[0] == 'S':
            pc, n_al = v; c = o[1]
            if c <= pcap // 2:
                if n_al != na + 1 or pc != next_pow2(c): return 'op %d: shrink(%d) from %d gave capacity %d' % (idx, c, pcap, pc)
                unc = []                               # records never committed stay behind in the old node (not part of the committed stream)
            elif n_al != na or pc != pcap:
                return 'op %d: shrink(%d) of a queue of capacity %d must do nothing' % (idx, c, pcap)
            pcap = pc; na = n_al
        elif o[0] == 'R':
            kind, off, size, al, newc, prevc, ccap, nf = v
            if al:
                if nf < 1 or nf >= len(allocs) + 1: return 'op %d: switch without a next node' % idx
                if fifo and fifo[0][0] < nf:
                    return 'op %d: the consumer left node %d although committed record %s was still unread in it' % (idx, fifo[0][0], (fifo[0][1], fifo[0][2]))
                if prevc != allocs[nf - 1] or newc != allocs[nf]: return 'op %d: switch reports capacities (%d -> %d), nodes are %s' % (idx, prevc, newc, allocs)
            if ccap != allocs[nf] if nf < len(allocs) else True: return 'op %d: capacity() = %d but the consumer is on node %d of %s' % (idx, ccap, nf, allocs)
            if not kind and not al and fifo:
                return 'op %d: read returned nothing (and did not switch) although committed record %s of node %d is outstanding' % (idx, (fifo[0][1], fifo[0][2]), fifo[0][0])
            if kind:
                if not fifo: return 'op %d: read returned a record although no committed record is outstanding' % idx
                node, woff, wn = fifo.pop(0)
                if (node, woff, wn) != (nf, off, size):
                    return 'op %d: read (node %d, offset %d, size %d) is not the oldest committed record (node %d, offset %d, size %d)' % (idx, nf, off, size, node, woff, wn)
    return None


def monitor_c09u(case, line):
    """C09 (unbounded clause) on the implementation: when every written record has been read and commit_read
    ran after the last read, a write of n <= max must be granted."""
    if line.startswith(('CRASH', 'HANG', 'NOOUTPUT')):
        return 'implementation ' + line
    try:
        hdr, ev, allocs, frees, live = walk(case, line)
    except ValueError as e:
        return str(e)
    maxc = int(hdr[7])
    if next_pow2(int(hdr[6])) > maxc: return None
    written = read = 0; dirty = False
    for idx, o, v in ev:
        if o[0] == 'W':
            if v[0] == 0 and written == read and not dirty and 0 < o[1] <= maxc:
                return 'op %d: write of %d <= max=%d refused although every record was read and the consumer committed its reads' % (idx, o[1], maxc)
            if v[0] == 1: written += 1
        elif o[0] == 'R':
            if v[0]: read += 1; dirty = True
        elif o[0] == 'CR':
            dirty = False
        elif o[0] == 'S' and False:
            pass
    return None


def d13_shape(case, line):
    """is every refusal at quiescence in this case of the D13 shape: max not a power of two and prev_pow2(max) < n <= max"""
    try:
        hdr, ev, allocs, frees, live = walk(case, line)
    except ValueError:
        return False
    maxc = int(hdr[7])
    if is_pow2(maxc): return False
    pp = prev_pow2(maxc)
    written = read = 0; dirty = False; hit = False
    for idx, o, v in ev:
        if o[0] == 'W':
            if v[0] == 0 and written == read and not dirty and 0 < o[1] <= maxc:
                if not (pp < o[1] <= maxc): return False
                hit = True
            if v[0] == 1: written += 1
        elif o[0] == 'R':
            if v[0]: read += 1; dirty = True
        elif o[0] == 'CR':
            dirty = False
    return hit


def nontrivial(case, line):
    """>= 1 grow, >= 1 consumer switch, and one of: a shrink that took effect, a refusal at the cap, a rejection"""
    try:
        hdr, ev, allocs, frees, live = walk(case, line)
    except ValueError:
        return False
    grow = sw = other = 0; na = 1
    for idx, o, v in ev:
        if o[0] == 'W':
            if v[0] == 1 and v[3] > na: grow += 1
            if v[0] in (0, 2): other += 1
            na = v[3]
        elif o[0] == 'S':
            if v[1] > na: other += 1
            na = v[1]
        elif o[0] == 'R' and v[3]:
            sw += 1
    return grow >= 1 and sw >= 1 and other >= 1
