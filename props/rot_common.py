"""Shared by props/c14.py and props/c15.py: case encoding for the M-ROT model / harness rot.cpp,
two-phase run (implementation first: its line also carries what libc returned, which fills the
model's oracle table), canonical observations, property monitors evaluated on the implementation's
directory listings, generators."""
import json, os, datetime
from zoneinfo import ZoneInfo

ZONES = ['UTC', 'America/New_York', 'Europe/Berlin', 'Australia/Lord_Howe', 'Asia/Kolkata', 'America/Santiago']
NS = 10 ** 9
UNLIMITED = 2 ** 32 - 1
TORN = (999999999, 999999998)
SCHEMES = ['Index', 'Date', 'DateAndTime']
FREQS = ['Disabled', 'Daily', 'Hourly', 'Minutely']


# ------------------------------------------------------------------ cases
def default_case(**kw):
    c = dict(prefix=0, json=0, zone=0, scheme=0, freq=0, interval=0, hh=0, mm=0, gmt=1, limit=0, maxb=UNLIMITED,
             over=1, stem='rot', ext='log', decoys=[], ops=[])
    c.update(kw)
    return c


def _comp(s):
    b = s.encode('latin1')
    return [len(b)] + list(b)


def unparse(c, table=None):
    out = ['rot'] + [c[k] for k in ('prefix', 'json', 'zone', 'scheme', 'freq', 'interval', 'hh', 'mm', 'gmt', 'limit', 'maxb', 'over')]
    out += _comp(c['stem']) + _comp(c['ext'])
    out.append(len(c['decoys']))
    for comps, stmts in c['decoys']:
        out.append(len(comps))
        for x in comps: out += _comp(x)
        out.append(len(stmts))
        for i, w in stmts: out += [i, w]
    table = table or []
    out.append(len(table))
    for t, d8, d15, rt, rt1, rt2 in table:
        out += [t] + _comp(d8) + _comp(d15) + [rt, rt1, rt2]
    for o in c['ops']:
        if o[0] == 'W': out += [0, o[1], o[2], o[3], o[4]]
        else: out += [1, o[1], o[2], o[3]]
    return ' '.join(map(str, out))


class _Cur:
    def __init__(self, a): self.a = a; self.i = 0
    def next(self):
        v = self.a[self.i]; self.i += 1; return v
    def comp(self):
        n = self.next(); b = bytes(self.a[self.i:self.i + n]); self.i += n; return b.decode('latin1')
    def more(self): return self.i < len(self.a)


def parse(case):
    t = case.split()
    cu = _Cur([int(x) for x in t[1:]])
    c = {}
    for k in ('prefix', 'json', 'zone', 'scheme', 'freq', 'interval', 'hh', 'mm', 'gmt', 'limit', 'maxb', 'over'):
        c[k] = cu.next()
    c['stem'] = cu.comp(); c['ext'] = cu.comp()
    c['decoys'] = []
    for _ in range(cu.next()):
        comps = [cu.comp() for _ in range(cu.next())]
        stmts = []
        for _ in range(cu.next()):
            i = cu.next(); w = cu.next(); stmts.append((i, w))
        c['decoys'].append((comps, stmts))
    table = []
    for _ in range(cu.next()):
        t0 = cu.next(); a = cu.comp(); b = cu.comp(); r = cu.next(); r1 = cu.next(); r2 = cu.next(); table.append((t0, a, b, r, r1, r2))
    c['table'] = table
    ops = []
    while cu.more():
        k = cu.next()
        if k == 0:
            ops.append(('W', cu.next(), cu.next(), cu.next(), cu.next()))
        elif k == 1:
            ops.append(('R', cu.next(), cu.next(), cu.next()))
        else:
            break
    c['ops'] = ops
    return c


def parse_listing_ints(a):
    """flat ints -> list (per op) of sorted lists [name comps, size, ids]"""
    cu = _Cur(a); out = []
    while cu.more():
        files = []
        for _ in range(cu.next()):
            comps = [cu.comp() for _ in range(cu.next())]
            size = cu.next(); ids = [cu.next() for _ in range(cu.next())]
            files.append([comps, size, ids])
        files.sort(key=lambda f: f[0])
        out.append(files)
    return out


def canon(line):
    """observation line (model or implementation part) -> canonical JSON text, or the raw text when it
    is not a listing (EXC / CRASH / HANG)"""
    try:
        return json.dumps(parse_listing_ints([int(x) for x in line.split()]), separators=(',', ':'))
    except Exception:
        return 'RAW ' + line


def split_impl(line):
    """harness line -> (canonical observation, oracle table)"""
    if '|' not in line:
        return 'RAW ' + line, []
    obs, orc = line.split('|', 1)
    cu = _Cur([int(x) for x in orc.split()]); table = []
    try:
        for _ in range(cu.next()):
            t = cu.next(); a = cu.comp(); b = cu.comp(); r = cu.next(); r1 = cu.next(); r2 = cu.next(); table.append((t, a, b, r, r1, r2))
    except Exception:
        table = []
    return canon(obs), table


# the model's code-variant flags (Rotate/RotModel.v: c_cntacct, c_plus24; 1 = the earlier, defective behaviour).
# They are never taken from the case line: read_variant() sets them from the T-src facts that tools/srcfacts.py
# (rot_facts) regenerated from the source tree, TieC14.v / TieC15.v prove them for the repaired tree.
VARIANT = {'cntacct': 1, 'plus24': 1}


def read_variant(ck=None):
    from props.c01 import srcfacts_values
    f = srcfacts_values()
    vals = {k: f.get(k) for k in ('rot_size_counts_written_bytes', 'rot_daily_tomorrow_via_mktime')}
    VARIANT['cntacct'] = 0 if vals['rot_size_counts_written_bytes'] == 'true' else 1
    VARIANT['plus24'] = 0 if vals['rot_daily_tomorrow_via_mktime'] == 'true' else 1
    if ck is not None:
        ck.tie.append({'T-src facts': vals,
                       'model variant for the correspondence': 'c_cntacct=%(cntacct)d c_plus24=%(plus24)d' % VARIANT,
                       'lemmas': 'TieC14.src_cntacct_false, TieC14.c14_skeletons_ok, TieC15.src_plus24_false, TieC15.c15_skeleton_ok (vm_compute); Properties_C14.rot_code_variant, Properties_C15.C15_code_variant'})
        if VARIANT['cntacct'] or VARIANT['plus24']:
            ck.log('T-src: %s -> the source tree does not hold the repair of %s; the model runs that earlier variant' % (
                vals, ' / '.join(n for n, k in (('D10', 'cntacct'), ('C15-daily-dst', 'plus24')) if VARIANT[k])))
    return VARIANT


def model_case(case, table):
    """the model runner's line: the case with the oracle table filled in and the variant bits (bit 1 = c_cntacct,
    bit 2 = c_plus24) written from VARIANT; bit 0 (c_prefix, D7) stays as the case has it"""
    c = parse(case)
    c['prefix'] = (c['prefix'] & 1) | (VARIANT['cntacct'] << 1) | (VARIANT['plus24'] << 2)
    return unparse(c, table)


def run_both(ck, mexe, iexe, cases, env=None):
    """two-phase run; returns (model canonical lines, impl canonical lines, oracle tables)"""
    il_raw = ck.run_impl(iexe, cases, env=env, timeout=600)
    il = []; tabs = []; mcases = []
    for cs, l in zip(cases, il_raw):
        o, tab = split_impl(l)
        il.append(o); tabs.append(tab)
        mcases.append(model_case(cs, tab))
    ml = [canon(l) for l in ck.run_model(mexe, mcases)]
    return ml, il, tabs


# ------------------------------------------------------------------ names
def classify(c, comps):
    """('live',) | ('rot', date, index) | ('other',) for a file name of the directory"""
    if comps == [c['stem'], c['ext']]:
        return ('live',)
    if len(comps) < 3 or comps[0] != c['stem'] or comps[-1] != c['ext']:
        return ('other',)
    mid = comps[1:-1]
    if c['scheme'] == 0:
        if len(mid) == 1 and mid[0].isdigit() and not mid[0].startswith('0'):
            return ('rot', '', int(mid[0]))
        return ('other',)
    want = 8 if c['scheme'] == 1 else 15
    def isdate(x):
        return len(x) == want and x.replace('_', '').isdigit()
    if len(mid) == 1 and isdate(mid[0]):
        return ('rot', mid[0], 0)
    if len(mid) == 2 and isdate(mid[0]) and mid[1].isdigit() and not mid[1].startswith('0'):
        return ('rot', mid[0], int(mid[1]))
    return ('other',)


def zone_of(c):
    return ZoneInfo('UTC') if c['gmt'] else ZoneInfo(ZONES[c['zone']])


def strf(c, t_ns, scheme=None):
    scheme = c['scheme'] if scheme is None else scheme
    d = datetime.datetime.fromtimestamp(t_ns // NS, zone_of(c))
    return d.strftime('%Y%m%d' if scheme == 1 else '%Y%m%d_%H%M%S')


def is_decoy(c, comps):
    return any(comps == d[0] for d in c['decoys'])


# ------------------------------------------------------------------ C14 monitor
def _is_related(c, comps):
    return len(comps) >= 2 and comps[0] == c['stem'] and comps[-1] == c['ext']


def monitor_c14(case, impl_line):
    """The clauses of C14 evaluated on the implementation's listings (independent of the Coq model).
    Bookkeeping: W = the tracked written sequence (statements of the files the sink knows: the live
    file and, after a restart, what the naming scheme lets it recover — Index: every rotated file,
    Date: today's, DateAndTime: none); 'orphans' = statements of rotated files an append restart
    does not recover (they must stay untouched for ever); 'abandoned' = statements a restart in mode
    "w" leaves behind or truncates (mode "w" makes no promise about them)."""
    c = parse(case)
    if impl_line.startswith('RAW'):
        return 'implementation did not produce a listing: ' + impl_line[4:80]
    L = json.loads(impl_line)
    ops = c['ops']
    if len(L) != len(ops):
        return 'listing count %d differs from op count %d' % (len(L), len(ops))
    live = [c['stem'], c['ext']]
    wr = {}; pos = {}
    for comps, stmts in c['decoys']:
        for i, w in stmts: wr[i] = w
    unrelated0 = {tuple(comps): [i for i, _ in stmts] for comps, stmts in c['decoys'] if not _is_related(c, comps)}
    semi0 = {tuple(comps): [i for i, _ in stmts] for comps, stmts in c['decoys']
             if _is_related(c, comps) and comps != live and classify(c, comps)[0] == 'other'}
    init = [[comps, sum(w for _, w in st), [i for i, _ in st]] for comps, st in c['decoys']]
    W = []; orph = set(); aband = set(); exempt = set()
    limit = c['limit']; maxb = c['maxb']
    # are the names monotone in time? (scope note: age read off Date / DateAndTime names needs it)
    inst = [o[3] if o[0] == 'R' else o[2] for o in ops]
    mono = all(a <= b for a, b in zip(inst, inst[1:]))
    if c['scheme'] != 0 and mono:
        sfx = [strf(c, t) for t in inst]
        mono = all(a <= b for a, b in zip(sfx, sfx[1:]))
    npos = 0
    prev = init
    for k, (o, files) in enumerate(zip(ops, L)):
        names = {tuple(f[0]): f for f in files}
        # --- whole statements: every file is a sequence of complete statements, each id at most once
        if o[0] == 'W':
            wr[o[1]] = o[3]
        seen = {}
        for comps, size, ids in files:
            for i in ids:
                if i in TORN: return 'op %d: torn statement in %s' % (k, '.'.join(comps))
                if i not in wr: return 'op %d: unknown statement id %d in %s' % (k, i, '.'.join(comps))
                if i in seen: return 'op %d: statement %d is in two places (%s and %s)' % (k, i, seen[i], '.'.join(comps))
                seen[i] = '.'.join(comps)
            if size != sum(wr[i] for i in ids):
                return 'op %d: %s holds %d bytes but its whole statements add up to %d' % (k, '.'.join(comps), size, sum(wr[i] for i in ids))
        # --- unrelated files are never touched
        for n, ids in unrelated0.items():
            if n not in names or names[n][2] != ids:
                return 'op %d: unrelated file %s was modified or removed' % (k, '.'.join(n))
        sink = []
        for comps, size, ids in files:
            cl = classify(c, comps)
            if cl[0] == 'other' or (is_decoy(c, comps) and cl[0] != 'live'): continue
            sink.append((cl, comps, size, ids))
        def age(s):
            return (1, '', 0) if s[0][0] == 'live' else (0, s[0][1], -s[0][2])
        sink.sort(key=age)
        if o[0] == 'W':
            W.append(o[1]); pos[o[1]] = npos; npos += 1
        else:
            before = {tuple(f[0]): f for f in prev}
            if not o[1]:
                # --- append restart: nothing on disk changes (the live file is created when missing)
                for n, f in before.items():
                    if n not in names or names[n][2] != f[2]:
                        return 'op %d: restart in append mode changed %s' % (k, '.'.join(n))
                extra = set(names) - set(before) - {tuple(live)}
                if extra: return 'op %d: restart in append mode created %s' % (k, sorted(extra))
                today = strf(c, o[3], 1)
                W = []
                for cl, comps, size, ids in sink:
                    rec = cl[0] == 'live' or c['scheme'] == 0 or (c['scheme'] == 1 and cl[1] == today)
                    for i in ids:
                        if rec:
                            # recovered (possibly re-adopted after an earlier mode-"w" restart left it behind)
                            W.append(i); orph.discard(i); aband.discard(i)
                        elif i not in aband: orph.add(i)
                for i in W:
                    if i not in pos: pos[i] = npos; npos += 1
            else:
                lv = names.get(tuple(live))
                if lv is None or lv[2]: return 'op %d: restart in mode w did not leave an empty live file' % k
                today = strf(c, o[3], 1)
                for n, f in before.items():
                    if n == tuple(live): aband.update(f[2]); continue
                    cl = classify(c, list(n))
                    gone = False
                    if o[2] and _is_related(c, list(n)):
                        if c['scheme'] == 0: gone = True
                        elif c['scheme'] == 1:
                            m = list(n)[1:-1]
                            gone = len(m) >= 1 and ((len(m[-1]) >= 8 and m[-1] == today) or (len(m) >= 2 and m[-2] == today))
                    if gone:
                        if n in names: return 'op %d: restart in mode w with remove_old_files left %s' % (k, '.'.join(n))
                        aband.update(f[2]); semi0.pop(n, None)
                    else:
                        if n not in names or names[n][2] != f[2]:
                            return 'op %d: restart in mode w changed %s, which remove_old_files does not cover' % (k, '.'.join(n))
                        if cl[0] == 'rot': aband.update(f[2])
                orph -= aband
                W = []
        for n, ids in semi0.items():
            if n not in names or names[n][2] != ids:
                return 'op %d: file %s (not a name the sink produces) was modified or removed' % (k, '.'.join(n))
        present = set(i for s in sink for i in s[3])
        gone = [i for i in orph if i not in present]
        if gone:
            return 'op %d: statements %s of a file rotated before the restart have disappeared (overwritten)' % (k, sorted(gone)[:6])
        tracked_rot = [s for s in sink if s[0][0] == 'rot' and any(i in pos and i not in orph and i not in aband for i in s[3])]
        # --- count bound
        stopped = False
        if maxb != UNLIMITED:
            if c['over'] and len(tracked_rot) > maxb:
                return 'op %d: %d rotated files kept, max_backup_files is %d' % (k, len(tracked_rot), maxb)
            if not c['over']:
                stopped = len(tracked_rot) >= maxb
        if stopped:
            for s in sink:
                if s[0][0] == 'live': exempt.update(s[3])
        # --- size limit
        if limit:
            for cl, comps, size, ids in sink:
                if size > limit and len(ids) > 1 and not (set(ids) & (exempt | aband)):
                    return 'op %d: %s holds %d statements and %d bytes, limit %d' % (k, '.'.join(comps), len(ids), size, limit)
        # --- order by name age
        if mono or c['scheme'] == 0:
            seq = [i for s in sink for i in s[3] if i in pos and i not in aband]
            ps = [pos[i] for i in seq]
            if any(a >= b for a, b in zip(ps, ps[1:])):
                return 'op %d: reading the files oldest to newest by name gives statements out of order: %s' % (k, seq)
        # --- what is missing
        missing = [i for i in W if i not in present]
        if missing:
            if not c['over']:
                return 'op %d: statements %s are gone although overwriting is off' % (k, missing[:6])
            firstp = min((W.index(i) for i in W if i in present), default=len(W))
            bad = [i for i in missing if W.index(i) > firstp]
            if bad:
                return 'op %d: statements %s are missing but older ones are still there (not a deletion of the oldest file)' % (k, bad[:6])
            if maxb == UNLIMITED:
                return 'op %d: statements %s are missing although the backup count is unlimited' % (k, missing[:6])
            if o[0] == 'W':
                before_ids = set(i for f in prev for i in f[2])
                lost = [i for i in missing if i in before_ids]
                if lost and len(tracked_rot) < maxb:
                    return 'op %d: statements %s were deleted while only %d of %d backups exist' % (k, lost[:6], len(tracked_rot), maxb)
        prev = files
    return None


# ------------------------------------------------------------------ C15 monitor
def daily_candidates(c, d, tz):
    """the instants that are HH:MM:00 of local day d in the sink's zone (zoneinfo, independent of libc and of the
    model).  One instant on an ordinary day; two when HH:MM lies in the hour repeated by a backward change of
    the offset (the sink rotates at one of them, possibly at both: which, is the C library's choice for an
    ambiguous local time); when HH:MM is skipped by a forward change the day's point is HH:MM reckoned with the
    offset in force before the change (the same time elapsed since local midnight as on any other day; POSIX
    mktime normalisation)."""
    out = []
    for fold in (0, 1):
        loc = datetime.datetime(d.year, d.month, d.day, c['hh'], c['mm'], 0, tzinfo=tz, fold=fold)
        g = int(loc.timestamp())
        back = datetime.datetime.fromtimestamp(g, tz)
        if (back.hour, back.minute, back.second) == (c['hh'], c['mm'], 0) and back.date() == d and g not in out:
            out.append(g)
    if not out:
        out.append(int(datetime.datetime(d.year, d.month, d.day, c['hh'], c['mm'], 0, tzinfo=tz, fold=0).timestamp()))
    return out


def daily_days(c, lo_ns, hi_ns):
    """[(day, [candidate instants in ns])] for the local days around [lo, hi]"""
    tz = zone_of(c)
    d = datetime.datetime.fromtimestamp(lo_ns // NS, tz).date() - datetime.timedelta(days=1)
    end = datetime.datetime.fromtimestamp(hi_ns // NS, tz).date() + datetime.timedelta(days=1)
    out = []
    while d <= end:
        out.append((d, [g * NS for g in daily_candidates(c, d, tz)]))
        d += datetime.timedelta(days=1)
    return out


def grid_points(c, start_ns, lo_ns, hi_ns):
    """rotation points of the schedule in (lo, hi] (and after start), computed independently (zoneinfo); daily:
    every candidate instant of every day"""
    tz = zone_of(c)
    pts = []
    if c['freq'] in (2, 3):
        unit = 3600 if c['freq'] == 2 else 60
        st = start_ns // NS
        off = int(datetime.datetime.fromtimestamp(st, tz).utcoffset().total_seconds())
        loc = st + off
        p0 = (loc // unit + 1) * unit - off          # next local minute / hour boundary after start
        per = unit * c['interval']
        g = p0
        if lo_ns // NS > g:
            g += ((lo_ns // NS - g) // per) * per
        while g * NS <= hi_ns:
            if g * NS > lo_ns: pts.append(g * NS)
            g += per
    elif c['freq'] == 1:
        for d, cands in daily_days(c, lo_ns, hi_ns):
            for g in cands:
                if lo_ns < g <= hi_ns and g > start_ns and g not in pts: pts.append(g)
    return sorted(pts)


def point_certainly_between(c, start_ns, lo_ns, hi_ns):
    """a rotation point lies in (lo, hi] whatever the C library picks for an ambiguous HH:MM: hourly / minutely:
    any grid point; daily: a day all of whose candidate instants are after start and in (lo, hi].
    Returns such a point or None."""
    if c['freq'] != 1:
        g = grid_points(c, start_ns, lo_ns, hi_ns)
        return g[0] if g else None
    for d, cands in daily_days(c, lo_ns, hi_ns):
        if all(g > start_ns and lo_ns < g <= hi_ns for g in cands):
            return cands[0]
    return None


def monitor_c15(case, impl_line):
    c = parse(case)
    if impl_line.startswith('RAW'):
        return 'implementation did not produce a listing: ' + impl_line[4:80]
    L = json.loads(impl_line)
    ops = c['ops']
    if len(L) != len(ops) or not ops or ops[0][0] != 'R':
        return 'listing count %d differs from op count %d' % (len(L), len(ops))
    if any(o[0] == 'R' for o in ops[1:]) or c['freq'] == 0:
        return None                     # C15 speaks about one run with time rotation
    start = ops[0][3]
    ts = {}; wr = {}; order = []
    for o in ops[1:]:
        ts[o[1]] = o[2]; wr[o[1]] = o[3]; order.append(o[1])
    if any(ts[a] > ts[b] for a, b in zip(order, order[1:])):
        return None                     # quantifier: non-decreasing timestamps
    stopped_possible = (not c['over']) and c['maxb'] != UNLIMITED
    files = L[-1]
    where = {}
    sink = []
    for comps, size, ids in files:
        cl = classify(c, comps)
        if cl[0] == 'other' or (is_decoy(c, comps) and cl[0] != 'live'): continue
        sink.append((cl, comps, size, ids))
        for i in ids: where[i] = tuple(comps)
    # --- separates
    if not stopped_possible:
        for cl, comps, size, ids in sink:
            mine = [i for i in ids if i in ts]
            for a, b in zip(mine, mine[1:]):
                g = point_certainly_between(c, start, ts[a], ts[b])
                if g is not None:
                    return 'statements %d (ts %d) and %d (ts %d) share %s although the rotation point %d lies between them' % (a, ts[a], b, ts[b], '.'.join(comps), g)
    # --- shares
    sizes = {tuple(s[1]): s[2] for s in sink}
    for a, b in zip(order, order[1:]):
        if a in where and b in where and where[a] != where[b]:
            if grid_points(c, start, ts[a], ts[b]):
                continue
            fa = [s for s in sink if tuple(s[1]) == where[a]][0]
            if c['limit'] and fa[2] + wr[b] > c['limit'] and fa[3][-1] == a:
                continue
            return 'statements %d and %d are in different files (%s, %s) with no rotation point in (%d, %d] and no size rotation due' % (
                a, b, '.'.join(where[a]), '.'.join(where[b]), ts[a], ts[b])
    # --- name = strftime(open moment), index bump on collision
    if c['scheme'] != 0:
        first_written = order[0] if order else None
        groups = {}
        for cl, comps, size, ids in sink:
            if cl[0] != 'rot': continue
            groups.setdefault(cl[1], []).append(cl[2])
            mine = [i for i in ids if i in ts]
            if not mine: continue
            pre_existing = [i for i in ids if i not in ts]
            opened = start if (mine[0] == first_written or pre_existing) else ts[mine[0]]
            want = strf(c, opened)
            if cl[1] != want:
                return 'file %s opened at %d should carry the suffix %s' % ('.'.join(comps), opened, want)
        for d, idxs in groups.items():
            if sorted(idxs) != list(range(len(idxs))):
                return 'files with suffix %s carry indices %s (expected 0..%d)' % (d, sorted(idxs), len(idxs) - 1)
    return None


# ------------------------------------------------------------------ helpers for generators
def stmt_ops(rng, c, n, t0, step_choices, ids, size_choices):
    """n writes from time t0 (ns) with steps drawn from step_choices, sizes from size_choices"""
    ops = []; t = t0
    for _ in range(n):
        t += rng.choice(step_choices)
        w = rng.choice(size_choices)
        ids[0] += 1
        ops.append(('W', ids[0], t, w, w))
    return ops, t


def corpus(pid):
    d = os.path.join(os.path.dirname(os.path.dirname(os.path.abspath(__file__))), 'corpus', pid)
    out = []
    if os.path.isdir(d):
        for f in sorted(os.listdir(d)):
            for l in open(os.path.join(d, f)):
                l = l.strip()
                if l and not l.startswith('#'): out.append(l)
    return out
