"""Shared by C01 / C09: case generation for the bounded SPSC queue (sequential layer), a small
python reference used ONLY to steer the generator towards boundaries and to evaluate the property
monitors directly on the implementation's observations (independent of the Coq model)."""
import re

MARK = '999999999'


def batch_of(C, pct):
    return int((C * pct) / 100.0)


class Ref:
    """ideal-arithmetic reference of the fixed tree's queue, for steering and for the monitors"""
    def __init__(self, C, batch, on_drain=True):
        self.C = C; self.batch = batch; self.on_drain = on_drain
        self.w = self.rc = self.r = self.wc = self.aw = self.ar = 0
        self.recs = []; self.dirty = False

    def nofit(self, rc, n):
        return self.C - (self.w - rc) < n

    def W(self, n, c):
        if self.nofit(self.rc, n):
            self.rc = self.ar
            if self.nofit(self.rc, n):
                return None
        off = self.w % self.C
        self.w += n; self.recs.append(n)
        if c: self.aw = self.w
        return off

    def CW(self): self.aw = self.w

    def E(self):
        if self.wc == self.r:
            self.wc = self.aw
            return self.wc == self.r
        return False

    def R(self):
        if self.E(): return None
        off = self.r % self.C; n = self.recs.pop(0); self.r += n; self.dirty = True
        return off, n

    def CR(self):
        if self.r - self.ar >= self.batch or (self.on_drain and self.r == self.wc):
            self.ar = self.r
        self.dirty = False

    def free_published(self):
        return self.C - (self.w - self.ar)


def parse(case):
    t = case.split()
    hdr = t[:7]; a = t[7:]; ops = []; i = 0
    while i < len(a):
        if a[i] == '0': ops.append(('W', int(a[i + 1]), int(a[i + 2]))); i += 3
        elif a[i] == '1': ops.append(('CW',)); i += 1
        elif a[i] == '2': ops.append(('R',)); i += 1
        elif a[i] == '3': ops.append(('CR',)); i += 1
        elif a[i] == '4': ops.append(('E',)); i += 1
        else: break
    return hdr, ops


def unparse(hdr, ops):
    out = list(hdr)
    for o in ops:
        if o[0] == 'W': out += ['0', str(o[1]), str(o[2])]
        else: out.append({'CW': '1', 'R': '2', 'CR': '3', 'E': '4'}[o[0]])
    return ' '.join(out)


def gen_case(rng, wb=None, k=None, pct=None, nops=None):
    wb = wb or rng.choice([8, 8, 16, 64])
    kmax = {8: 7, 16: 12, 64: 12}[wb]
    k = k if k is not None else rng.randint(1, kmax)
    C = 1 << k
    pct = pct if pct is not None else rng.choice([0, 5, 5, 37, 100])
    batch = batch_of(C, pct)
    M = 1 << wb
    ref = Ref(C, batch)
    ops = []
    nops = nops or rng.randint(20, 400)
    for _ in range(nops):
        r = rng.random()
        if r < 0.45:
            free_real = C - (ref.w - ref.r)
            free_pub = ref.free_published()
            cand = [1, 2, C - 1, C, C + 1, free_real, free_real - 1, free_real + 1, free_pub, free_pub + 1, max(1, C // 3),
                    C - (ref.r - ref.ar), C - (ref.r - ref.ar) + 1, rng.randint(1, C)]
            n = rng.choice([x for x in cand if 0 < x < M] or [1])
            c = 0 if rng.random() < 0.1 else 1
            ops.append(('W', n, c)); ref.W(n, c)
        elif r < 0.5:
            ops.append(('CW',)); ref.CW()
        elif r < 0.8:
            # a backend-like read pass: read up to j records then commit_read
            j = rng.choice([1, 1, 2, 3, 8])
            did = False
            for _ in range(j):
                ops.append(('R',))
                if ref.R() is None: break
                did = True
            if did or rng.random() < 0.2:
                if rng.random() < 0.9:
                    ops.append(('CR',)); ref.CR()
        elif r < 0.9:
            ops.append(('CR',)); ref.CR()
        else:
            ops.append(('E',)); ref.E()
    return unparse(['bq', str(wb), str(k), str(batch), '1', '1', str(pct)], ops)


def boundary_cases():
    """the D3 family and friends, for several capacities: small drain then a record that needs the published position"""
    out = []
    for wb, k, pct in [(64, 10, 5), (16, 10, 5), (8, 6, 5), (64, 4, 37), (8, 3, 100), (16, 7, 5), (64, 12, 5)]:
        C = 1 << k; b = batch_of(C, pct)
        for small in sorted(set([1, max(1, b - 1), max(1, b // 2)])):
            if small >= C: continue
            for n in (C - small, C - small + 1, C):
                if n >= (1 << wb) or n <= 0: continue
                ops = [('W', small, 1), ('R',), ('R',), ('CR',), ('W', n, 1), ('R',), ('R',), ('CR',), ('W', C, 1)]
                out.append(unparse(['bq', str(wb), str(k), str(b), '1', '1', str(pct)], ops))
    return out


def monitor_c01(case, line):
    """C01 evaluated on the implementation's observations: payload intact, FIFO order of offsets and sizes,
    contiguous within 2C, never more than C bytes outstanding."""
    hdr, ops = parse(case)
    if line.startswith(('CRASH', 'HANG', 'NOOUTPUT')):
        return 'implementation ' + line
    toks = line.split()
    if MARK in toks:
        return 'a record read back differs from the bytes written (torn / overwritten record)'
    C = 1 << int(hdr[2])
    i = 0; fifo = []; outstanding = 0
    for o in ops:
        if o[0] == 'W':
            if i >= len(toks): return 'missing observation'
            v = int(toks[i]); i += 1
            if v:
                off = v - 1
                if off + o[1] > 2 * C: return 'granted record [%d,%d) not inside the 2C storage' % (off, off + o[1])
                if off >= C: return 'granted offset %d not below the capacity' % off
                outstanding += o[1]
                if outstanding > C: return 'more than C=%d bytes outstanding after granting %d' % (C, o[1])
                fifo.append((off, o[1]))
        elif o[0] == 'R':
            if i >= len(toks): return 'missing observation'
            v = int(toks[i]); i += 1
            if v:
                if i >= len(toks): return 'missing observation'
                n = int(toks[i]); i += 1
                if not fifo: return 'read returned a record although none is outstanding'
                off, wn = fifo.pop(0)
                if off != v - 1 or wn != n: return 'read (%d,%d) is not the oldest written record (%d,%d)' % (v - 1, n, off, wn)
                outstanding -= n
        elif o[0] == 'E':
            i += 1
    return None


def monitor_c09(case, line):
    """C09 evaluated on the implementation: whenever the consumer is quiescent on a drained queue
    (everything written was read, a read returned null afterwards or not, and commit_read ran after the
    last successful read) a write of n <= C must be granted."""
    hdr, ops = parse(case)
    if line.startswith(('CRASH', 'HANG', 'NOOUTPUT')):
        return 'implementation ' + line
    toks = line.split()
    C = 1 << int(hdr[2])
    i = 0; written = 0; read = 0; dirty = False; uncommitted = False
    for idx, o in enumerate(ops):
        if o[0] == 'W':
            v = int(toks[i]); i += 1
            if not v and written == read and not dirty and o[1] <= C:
                return 'op %d: write of %d <= C=%d refused although the queue is empty and the consumer has committed its reads' % (idx, o[1], C)
            if v:
                written += 1
        elif o[0] == 'R':
            v = int(toks[i]); i += 1
            if v:
                i += 1; read += 1; dirty = True
        elif o[0] == 'CR':
            dirty = False
        elif o[0] == 'E':
            i += 1
    return None


def nontrivial(case, line, wbits):
    """>= 1 wrap of the position counter's low bits past the capacity, >= 1 denial, >= 1 grant after a denial"""
    hdr, ops = parse(case)
    toks = line.split(); i = 0
    total = 0; denied = 0; grant_after = 0; had_denial = False
    C = 1 << int(hdr[2])
    for o in ops:
        if o[0] == 'W':
            v = int(toks[i]); i += 1
            if v:
                total += o[1]
                if had_denial: grant_after += 1
            else:
                denied += 1; had_denial = True
        elif o[0] == 'R':
            v = int(toks[i]); i += 1
            if v: i += 1
        elif o[0] == 'E': i += 1
    return total > C and denied >= 1 and grant_after >= 1
