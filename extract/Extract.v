(* Extraction of the executable models to OCaml (model.ml, in this directory).
   Only ExtrOcamlBasic is used: bool/option/unit/list/prod/sumbool map to OCaml natives;
   N, Z, positive, nat, ascii, string stay as the extracted inductive types. *)
From Coq Require Extraction.
From Coq Require Import ExtrOcamlBasic.
From Coq Require Import NArith ZArith List.
From Quill Require Import BT.BTModel.
Extraction Language OCaml.
Extraction "model.ml"
  N.add N.mul N.div_eucl N.of_nat N.to_nat Z.of_N Z.to_N Z.opp
  bt_run_enc.
