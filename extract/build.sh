#!/bin/bash
# extract the models and build the modelrun executable (needs the Coq project built first)
set -e
cd "$(dirname "$0")"
timeout 600 coqc -Q ../coq/theories Quill -Q ../coq/gen QuillGen Extract.v > extract.log 2>&1 || { cat extract.log; exit 1; }
ocamlfind ocamlopt -w -a -O3 model.mli model.ml driver.ml -o modelrun 2>/dev/null || ocamlfind ocamlopt -w -a model.mli model.ml driver.ml -o modelrun
