From Quill Require Import TEB.TEBModel.
(* roots: *) 
Definition roots_teb := (teb_run_enc, fifo_run_enc).
