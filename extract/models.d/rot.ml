  | "rot", rest -> rot_run_enc rest
