  | "lg", rest -> lg_run_enc rest
