  | "na", rest -> na_run_enc false true rest
  | "nascan", rest -> na_scan_enc true rest
  | "naneeds", rest -> na_needs_enc true rest
  | "nav", e :: k :: rest -> na_run_enc (bool_of_n e) (bool_of_n k) rest
  | "nascanv", k :: rest -> na_scan_enc (bool_of_n k) rest
  | "naneedsv", k :: rest -> na_needs_enc (bool_of_n k) rest
