  | "na", rest -> na_run_enc rest
  | "nascan", rest -> na_scan_enc rest
  | "naneeds", rest -> na_needs_enc rest
