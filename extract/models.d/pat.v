From Quill Require Import Format.PatFmt Format.PatModel.
(* roots: *) 
Definition roots_pat := (pat_run_enc).
