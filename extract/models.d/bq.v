From Quill Require Import Queue.BQDefs.
Definition roots_bq := (bq_run_enc).
