  | "teb", g :: m :: r :: e :: x :: c0 :: rest -> teb_run_enc g (bool_of_n m) (bool_of_n r) (bool_of_n e) (bool_of_n x) c0 rest
  | "tebfifo", _ :: _ :: _ :: _ :: _ :: c0 :: rest -> fifo_run_enc c0 rest
