  | "patd", rest -> patd_run_enc rest
