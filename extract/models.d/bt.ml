  | "bt", r :: g :: rest -> bt_run_enc (bool_of_n r) (bool_of_n g) rest
