  | "pat", rest -> pat_run_enc rest
