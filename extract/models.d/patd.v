From Quill Require Import Format.PatDispatch.
Definition roots_patd := (patd_run_enc).
