From Quill Require Import Time.TimeModel.
(* roots: *) 
Definition roots_time := (time_run_enc, time_formats_enc).
