  | "bq", rest -> bq_run_enc rest
