From Quill Require Import Rotate.RotFS Rotate.RotModel.
Definition roots_rot := (rot_run_enc).
