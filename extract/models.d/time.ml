  | "time", rest -> time_run_enc rest
  | "timeq", rest -> time_formats_enc rest
