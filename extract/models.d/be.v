From Quill Require Import Backend.BEDefs Backend.BEExec.
Definition roots_be := (be_run_enc, lvl_run_enc).
