  | "be", rest -> be_run_enc rest
  | "lvl", rest -> lvl_run_enc rest
