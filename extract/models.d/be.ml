  | "be", rest -> be_run_enc rest
