  | "codec", rest -> codec_run_enc rest
  | "san", rest -> sanitize_run_enc rest
  | "iv", rest -> iv_run_enc rest
