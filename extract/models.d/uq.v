From Quill Require Import Queue.UQDefs.
Definition roots_uq := (uq_run_enc).
