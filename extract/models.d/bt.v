From Quill Require Import BT.BTModel.
(* roots: *) 
Definition roots_bt := (bt_run_enc).
