  | "uq", rest -> uq_run_enc rest
