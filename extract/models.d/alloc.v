From Quill Require Import Alloc.AllocModel Alloc.AllocRun.
Definition roots_alloc := (alloc_run_enc).
