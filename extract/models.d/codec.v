From Quill Require Import Codec.CodecDefs Codec.CodecRun Codec.Sanitize Codec.InlVec.
(* roots: *)
Definition roots_codec := (codec_run_enc, sanitize_run_enc, iv_run_enc).
