From Quill Require Import Format.NaFmt Format.NaModel Format.NaJson Format.NaRun.
(* roots: *)
Definition roots_na := (na_run_enc, na_scan_enc, na_needs_enc).
