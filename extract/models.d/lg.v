From Quill Require Import Registry.RegModel Registry.RegExec.
Definition roots_lg := (lg_run_enc).
