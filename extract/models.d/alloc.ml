  | "alloc", rest -> alloc_run_enc rest
