(* modelrun: reads case lines "<model> <int> <int> ..." on stdin, runs the extracted Gallina model
   and prints the model's observation line (space separated integers) for each case.
   Integers are converted to/from Coq's binary N by the functions below (no Extract Constant). *)
open Model

let rec pos_of_int (n : int) : positive =
  if n = 1 then XH else if n land 1 = 0 then XO (pos_of_int (n lsr 1)) else XI (pos_of_int (n lsr 1))
let n_of_int (n : int) : n = if n = 0 then N0 else Npos (pos_of_int n)
let rec int_of_pos = function XH -> 1 | XO p -> 2 * int_of_pos p | XI p -> 2 * int_of_pos p + 1
let rec bits_of_pos = function XH -> 1 | XO p | XI p -> 1 + bits_of_pos p

(* decimal strings of arbitrary size <-> N, going through the extracted N arithmetic *)
let ten = n_of_int 10
let n_of_string (s : string) : n =
  if String.length s <= 17 then n_of_int (int_of_string s)
  else begin
    let acc = ref N0 in
    String.iter (fun c -> acc := N.add (N.mul !acc ten) (n_of_int (Char.code c - 48))) s; !acc
  end
let string_of_n (x : n) : string =
  match x with
  | N0 -> "0"
  | Npos p when bits_of_pos p <= 61 -> string_of_int (int_of_pos p)
  | _ ->
    let b = Buffer.create 24 in
    let rec go x acc = match x with
      | N0 -> acc
      | _ -> let (q, r) = N.div_eucl x ten in
             go q ((match r with N0 -> 0 | Npos p -> int_of_pos p) :: acc) in
    List.iter (fun d -> Buffer.add_char b (Char.chr (48 + d))) (go x []); Buffer.contents b

let bool_of_n = function N0 -> false | _ -> true

let print_ns (l : n list) =
  print_string (String.concat " " (List.map string_of_n l)); print_newline ()

let dispatch (m : string) (args : n list) : n list =
  match m, args with
