  | _ -> failwith ("modelrun: unknown model or bad arguments: " ^ m)

let () =
  try
    while true do
      let line = input_line stdin in
      let toks = List.filter (fun s -> s <> "") (String.split_on_char ' ' (String.trim line)) in
      match toks with
      | [] -> ()
      | m :: _ when String.length m > 0 && m.[0] = '#' -> ()
      | m :: args -> print_ns (dispatch m (List.map n_of_string args))
    done
  with End_of_file -> ()
