"""Shared machinery for ./check: Coq build + Print Assumptions audit, T-src regeneration, harness
builds from /repo's working tree, model/implementation runs, diffing, replay files, evidence."""
import hashlib, json, os, random, re, shutil, signal, subprocess, sys, tempfile, time

VERIF = os.path.dirname(os.path.dirname(os.path.abspath(__file__)))
REPO = os.environ.get('VERIF_REPO', '/repo')
COQ = os.path.join(VERIF, 'coq')
OUT = os.path.join(VERIF, 'out')
GUARD = 'QUILL_VERIF'

# axioms a property theorem may depend on (standard-library axioms only; named in evidence)
ALLOWED_AXIOMS = {
    'functional_extensionality_dep', 'FunctionalExtensionality.functional_extensionality_dep',
    'proof_irrelevance', 'ProofIrrelevance.proof_irrelevance', 'Eqdep.Eq_rect_eq.eq_rect_eq', 'eq_rect_eq',
    'JMeq_eq', 'JMeq.JMeq_eq', 'classic', 'Classical_Prop.classic',
}
FORBIDDEN = re.compile(r'\b(Admitted|admit|Axiom|Axioms|Parameter|Parameters|Conjecture|Conjectures|Admit Obligations|bypass_check|Unset Guard Checking|Unset Positivity Checking|Unset Universe Checking|type-in-type|impredicative-set|native_compute)\b')


def sh(cmd, timeout=None, cwd=None, env=None, inp=None):
    """run, return (rc, stdout, stderr); rc = 'TIMEOUT' on timeout"""
    try:
        p = subprocess.run(cmd, cwd=cwd, env=env, input=inp, capture_output=True, text=True,
                           timeout=timeout, shell=isinstance(cmd, str))
        return p.returncode, p.stdout, p.stderr
    except subprocess.TimeoutExpired as e:
        so = e.stdout.decode('utf8', 'replace') if isinstance(e.stdout, bytes) else (e.stdout or '')
        se = e.stderr.decode('utf8', 'replace') if isinstance(e.stderr, bytes) else (e.stderr or '')
        return 'TIMEOUT', so, se


def sh_progress(cmd, inp, env=None, timeout=600, stall=15):
    """like sh() for a harness that prints (and flushes) one line per input line: the process is killed when it
    produces no new output for [stall] seconds, so that a hanging case costs seconds, not the batch timeout"""
    import threading, time
    p = subprocess.Popen(cmd, stdin=subprocess.PIPE, stdout=subprocess.PIPE, stderr=subprocess.PIPE, env=env)
    chunks = []; errs = []; last = [time.time()]
    def feed():
        try:
            p.stdin.write(inp.encode()); p.stdin.close()
        except (BrokenPipeError, OSError):
            pass
    def rd():
        while True:
            b = p.stdout.read1(65536)
            if not b: break
            chunks.append(b); last[0] = time.time()
    def rde():
        while True:
            b = p.stderr.read1(65536)
            if not b: break
            errs.append(b)
    ts = [threading.Thread(target=f, daemon=True) for f in (feed, rd, rde)]
    for t in ts: t.start()
    t0 = time.time(); rc = None
    while True:
        try:
            rc = p.wait(timeout=0.2); break
        except subprocess.TimeoutExpired:
            now = time.time()
            if now - last[0] > stall or now - t0 > timeout:
                p.kill(); p.wait(); rc = 'TIMEOUT'; break
    for t in ts[1:]: t.join(timeout=2)
    return rc, b''.join(chunks).decode('utf8', 'replace'), b''.join(errs).decode('utf8', 'replace')


def tree_hash(paths, extra=''):
    h = hashlib.sha256()
    h.update(extra.encode())
    for root in paths:
        if os.path.isfile(root):
            h.update(root.encode()); h.update(open(root, 'rb').read()); continue
        for d, dirs, files in sorted(os.walk(root)):
            dirs.sort()
            for f in sorted(files):
                p = os.path.join(d, f)
                h.update(p.encode())
                try:
                    h.update(open(p, 'rb').read())
                except OSError:
                    pass
    return h.hexdigest()[:20]


class Check:
    def __init__(self, pid, tier='quick', seed=None):
        self.pid = pid
        self.tier = tier
        self.seed = int(seed if seed is not None else os.environ.get('VERIF_SEED', '1'))
        self.rng = random.Random(self.seed * 1000003 + sum(ord(c) for c in pid))
        self.t0 = time.time()
        self.violations = []          # list of (replay_path, suffix)
        self.known = []               # KNOWN-FINDING lines
        self.notes = []
        self.obligations = []         # [{name, file, discharged, axioms, why}]
        self.tie = []                 # tie lemma results
        self.cov = {}
        self.assumptions = []
        self.replay_k = 0
        os.makedirs(os.path.join(OUT, 'replay'), exist_ok=True)
        os.makedirs(os.path.join(OUT, 'build'), exist_ok=True)
        os.makedirs(os.path.join(VERIF, 'evidence'), exist_ok=True)
        self.findings = json.load(open(os.path.join(VERIF, 'known_findings.json')))

    def log(self, *a):
        print('[%s %6.1fs]' % (self.pid, time.time() - self.t0), *a, flush=True)

    # ------------------------------------------------------------------ T-src + Coq
    def srcfacts(self):
        rc, so, se = sh([sys.executable, os.path.join(VERIF, 'tools', 'srcfacts.py'), '--repo', REPO], timeout=300)
        if rc != 0:
            self.log('srcfacts failed:', se[-2000:])
            # a source tree the translator cannot read: the tie is broken
            return False
        return True

    def coq_gate(self):
        bad = []
        for root in (os.path.join(COQ, 'theories'), os.path.join(COQ, 'gen'), os.path.join(VERIF, 'extract')):
            for d, _, files in os.walk(root):
                for f in files:
                    if f.endswith('.v'):
                        txt = open(os.path.join(d, f)).read()
                        txt = re.sub(r'\(\*.*?\*\)', ' ', txt, flags=re.S)
                        for m in FORBIDDEN.finditer(txt):
                            bad.append('%s: %s' % (os.path.join(d, f), m.group(0)))
        return bad

    def coq_build(self, targets=None):
        """full .vo build (make -k) of the whole project or the given .vo targets"""
        rc, so, se = sh(['bash', os.path.join(COQ, 'build.sh')] + (targets or []), timeout=3000)
        return rc == 0, (so + se)

    def coq_obligations(self, prop_file, names=None):
        """(re)compile Props/<prop_file>.v, map each Print Assumptions to its theorem; returns list"""
        path = os.path.join(COQ, 'theories', 'Props', prop_file + '.v')
        src = open(path).read()
        thms = re.findall(r'^\s*(?:Theorem|Lemma|Corollary)\s+(\w+)', src, flags=re.M)
        printed = re.findall(r'^\s*Print Assumptions\s+(\w+)\s*\.', src, flags=re.M)
        t0 = time.time()
        rc, so, se = sh(['coqc', '-Q', 'theories', 'Quill', '-Q', 'gen', 'QuillGen',
                         '-w', '-notation-overridden,-deprecated-hint-without-locality,-deprecated-syntactic-definition',
                         os.path.join('theories', 'Props', prop_file + '.v')], cwd=COQ, timeout=1800)
        blocks = []
        cur = None
        for line in so.splitlines():
            if line.startswith('Closed under the global context'):
                blocks.append([]); cur = None
            elif line.startswith('Axioms:'):
                cur = []; blocks.append(cur)
            elif cur is not None:
                m = re.match(r'^(\S+)\s*:', line)
                if m and not line.startswith(' '):
                    cur.append(m.group(1))
        res = []
        err = (se or '')[-1500:] if rc != 0 else ''
        for i, t in enumerate(thms):
            o = {'name': t, 'file': prop_file + '.v', 'discharged': False, 'axioms': [], 'why': ''}
            if t in printed and printed.index(t) < len(blocks):
                ax = blocks[printed.index(t)]
                o['axioms'] = ax
                notallowed = [a for a in ax if a not in ALLOWED_AXIOMS and a.split('.')[-1] not in ALLOWED_AXIOMS]
                if notallowed:
                    o['why'] = 'depends on non-allowed assumptions: ' + ', '.join(notallowed)
                else:
                    o['discharged'] = True
            else:
                o['why'] = 'not checked: ' + (err.strip().splitlines()[-1] if err.strip() else 'no Print Assumptions output') if rc != 0 else 'missing Print Assumptions'
            res.append(o)
        if rc != 0:
            # nothing after the failing point is trusted; coqc stops at the first error, so the
            # blocks printed are exactly the ones before it. Mark the rest (already undischarged).
            self.log('coqc %s failed: %s' % (prop_file, err.strip()[-600:]))
        self.coq_time = time.time() - t0
        if names:
            res = [o for o in res if o['name'] in names]
        self.obligations += res
        return res

    # ------------------------------------------------------------------ builds
    def repo_hash(self):
        return tree_hash([os.path.join(REPO, 'include')])

    def build_harness(self, name, sources, flags=None, san=True, extra_key=''):
        """compile harness sources against /repo's working tree; cached on content hash"""
        flags = flags or []
        srcs = [os.path.join(VERIF, 'harness', s) for s in sources]
        key = tree_hash(srcs + [os.path.join(VERIF, 'harness', 'common.h')], self.repo_hash() + ' '.join(flags) + str(san) + extra_key)
        exe = os.path.join(OUT, 'build', '%s-%s' % (name, key))
        if os.path.exists(exe):
            return exe, ''
        # drop stale builds of the same harness
        for f in os.listdir(os.path.join(OUT, 'build')):
            if f.startswith(name + '-'):
                try: os.remove(os.path.join(OUT, 'build', f))
                except OSError: pass
        cmd = ['g++', '-std=c++17', '-O1', '-g', '-pthread', '-D' + GUARD, '-I' + os.path.join(REPO, 'include'),
               '-I' + os.path.join(VERIF, 'harness')]
        if san:
            cmd += ['-fsanitize=address,undefined', '-fno-sanitize-recover=all', '-fno-omit-frame-pointer']
        cmd += flags + srcs + ['-o', exe + '.tmp']
        rc, so, se = sh(cmd, timeout=900)
        if rc != 0:
            return None, (se or so)[-4000:]
        os.replace(exe + '.tmp', exe)
        return exe, ''

    def build_modelrun(self):
        exe = os.path.join(VERIF, 'extract', 'modelrun')
        srcs = [os.path.join(VERIF, 'extract', x) for x in ('models.d', 'driver_head.ml', 'driver_tail.ml', 'build.sh')]
        key = tree_hash([os.path.join(COQ, 'theories'), os.path.join(COQ, 'gen')] + srcs)
        stamp = os.path.join(VERIF, 'extract', '.stamp')
        if os.path.exists(exe) and os.path.exists(stamp) and open(stamp).read() == key:
            return exe, ''
        rc, so, se = sh(['bash', os.path.join(VERIF, 'extract', 'build.sh')], timeout=1200)
        if rc != 0:
            return None, (so + se)[-3000:]
        open(stamp, 'w').write(key)
        return exe, ''

    # ------------------------------------------------------------------ running
    def run_model(self, exe, cases, timeout=600):
        """the extracted model on all cases; large lists are split over worker processes (the model is a pure
        function of the case line, so the order of evaluation does not matter)"""
        def one(chunk):
            rc, so, se = sh([exe], inp='\n'.join(chunk) + '\n', timeout=timeout)
            lines = so.splitlines()
            if rc != 0 or len(lines) != len(chunk):
                raise RuntimeError('modelrun failed rc=%s: %s (got %d lines for %d cases)' % (rc, se[-500:], len(lines), len(chunk)))
            return lines
        if len(cases) <= 64:
            return one(cases)
        from concurrent.futures import ThreadPoolExecutor
        nw = min(12, os.cpu_count() or 4)
        size = max(16, (len(cases) + nw * 4 - 1) // (nw * 4))
        chunks = [cases[i:i + size] for i in range(0, len(cases), size)]
        with ThreadPoolExecutor(max_workers=nw) as ex:
            res = list(ex.map(one, chunks))
        return [l for r in res for l in r]

    def run_impl(self, exe, cases, timeout=300, per_case_timeout=20, env=None, args=None, max_fail=None, stall=None):
        """run the implementation harness on all cases in one process; when it dies or hangs, the case it
        stopped at is run alone (so that a crash/hang is an observation of that case) and the batch resumes
        after it. With max_fail, cases after that many crashes/hangs are reported as NOTRUN."""
        e = dict(os.environ)
        e.setdefault('ASAN_OPTIONS', 'detect_leaks=0:abort_on_error=0:exitcode=99')
        e.setdefault('UBSAN_OPTIONS', 'print_stacktrace=1:halt_on_error=1:exitcode=98')
        if env:
            e.update(env)
        cmd = [exe] + (args or [])
        out = []
        fails = 0
        rest = list(cases)
        while rest:
            if max_fail is not None and fails >= max_fail:
                out += ['NOTRUN'] * len(rest)
                break
            bt = min(timeout, per_case_timeout * len(rest))     # a single case never gets more than its own timeout
            if stall:
                rc, so, se = sh_progress(cmd, '\n'.join(rest) + '\n', env=e, timeout=bt, stall=stall)
            else:
                rc, so, se = sh(cmd, inp='\n'.join(rest) + '\n', timeout=bt, env=e)
            lines = so.splitlines()
            if rc == 0 and len(lines) == len(rest):
                out += lines
                break
            # keep complete lines, run the case it stopped at alone, resume after it
            done = lines[:-1] if (lines and not so.endswith('\n')) else lines
            done = done[:len(rest)]
            out += done
            rest = rest[len(done):]
            if not rest:
                break
            c = rest.pop(0)
            if rc == 'TIMEOUT' and not rest and not done:
                rc1, so1, se1 = rc, so, se
            else:
                rc1, so1, se1 = sh(cmd, inp=c + '\n', timeout=per_case_timeout, env=e)
            if rc1 == 'TIMEOUT':
                out.append('HANG'); fails += 1
            elif rc1 != 0:
                kind = 'CRASH'
                m = re.search(r'(AddressSanitizer: [\w-]+|runtime error: [^\n]{0,80}|terminate called[^\n]{0,80})', se1 or '')
                out.append(kind + (' ' + m.group(1).replace(' ', '_') if m else ' rc=%s' % rc1)); fails += 1
            else:
                l1 = so1.splitlines()
                out.append(l1[0] if l1 else 'NOOUTPUT')
                if not l1: fails += 1
        return out

    # ------------------------------------------------------------------ reporting
    def replay_path(self):
        self.replay_k += 1
        return os.path.join(OUT, 'replay', '%s-%d-%d.json' % (self.pid, self.seed, self.replay_k))

    def violation(self, kind, broken, case=None, expected=None, observed=None, extra=None):
        """kind: impl-failing-input | model-witness | no-failing-input-found"""
        p = self.replay_path()
        d = {'property': self.pid, 'kind': kind, 'broken': broken, 'case': case, 'expected': expected,
             'observed': observed, 'how_to_replay': './check %s --replay %s' % (self.pid, p)}
        if extra:
            d.update(extra)
        json.dump(d, open(p, 'w'), indent=1)
        self.violations.append((p, ' no-failing-input-found' if kind == 'no-failing-input-found' else ''))
        return p

    def known_for(self):
        return [f for f in self.findings if f.get('property') == self.pid and f.get('status') == 'open']

    def finish(self, level='proof', checker_cmd=None, trusted=None, samples=None, rule='', evaluations=0,
               distinct_nontrivial=0, traces=0, extra_cov=None):
        obl = len(self.obligations)
        dis = sum(1 for o in self.obligations if o['discharged'])
        cov = {
            'obligations': obl, 'discharged': dis,
            'checker_cmd': checker_cmd or 'coqc (full .vo build via coq_makefile/make) + Print Assumptions per theorem',
            'trusted_base': trusted or [],
            'theorems': [{'name': o['name'], 'discharged': o['discharged'], 'axioms': o['axioms'] or 'Closed under the global context', **({'why': o['why']} if o['why'] else {})} for o in self.obligations],
            'tie': self.tie,
            'evaluations': evaluations, 'distinct_nontrivial': distinct_nontrivial, 'rule': rule,
            'samples': samples or [], 'traces_validated_against_impl': traces,
        }
        if extra_cov:
            cov.update(extra_cov)
        ev = {'property_id': self.pid, 'tier': self.tier, 'seed': self.seed, 'level': level, 'coverage': cov,
              'assumptions': self.assumptions, 'wall_s': round(time.time() - self.t0, 2),
              'violations': len(self.violations), 'known_findings_reported': self.known, 'notes': self.notes}
        json.dump(ev, open(os.path.join(VERIF, 'evidence', self.pid + '.json'), 'w'), indent=1)
        for k in self.known:
            print('KNOWN-FINDING: property=%s %s' % (self.pid, k))
        for p, suf in self.violations:
            print('VIOLATION property=%s replay=%s%s' % (self.pid, p, suf))
        self.log('obligations %d/%d discharged; cases %d (%d distinct non-trivial); violations %d; %.1fs'
                 % (dis, obl, evaluations, distinct_nontrivial, len(self.violations), time.time() - self.t0))
        return 1 if self.violations else 0


def standard_proof_phase(ck, prop_file, need_srcfacts=True):
    """T-src regeneration, gate, full build, per-theorem audit. Returns True when every
    obligation is discharged; otherwise records what broke (the caller then searches for a
    failing input and reports)."""
    broken = []
    if need_srcfacts and not ck.srcfacts():
        broken.append('T-src translator could not process the source tree')
    bad = ck.coq_gate()
    if bad:
        broken.append('forbidden construct in the development: ' + '; '.join(bad[:5]))
    ok, log = ck.coq_build()
    if not ok:
        errs = re.findall(r'File "([^"]+)", line (\d+)[^\n]*\n(?:[^\n]*\n){0,3}?Error:?[^\n]*', log)
        ck.notes.append('coq build had errors: ' + '; '.join('%s:%s' % e for e in errs[:5]))
        # name the files whose proofs no longer check (the per-theorem audit below only sees their stale .vo)
    obs = ck.coq_obligations(prop_file)
    if not ok and any(not o['discharged'] for o in obs):
        # this property's file no longer compiles: name the files whose proofs broke (the per-theorem audit only sees
        # their stale .vo). A build error in a file this property does not depend on leaves its obligations discharged
        # and is not reported here.
        full = re.findall(r'File "([^"]+)", line (\d+)[^\n]*\nError:?([^\n]*(?:\n[^\n]*){0,4})', log)
        for f, ln, msg in full[:3]:
            if 'inconsistent assumptions' not in msg:
                broken.append('coq build: %s line %s no longer checks: Error: %s' % (f, ln, ' '.join(msg.split())[:300]))
    for o in obs:
        if not o['discharged']:
            broken.append('theorem %s: %s' % (o['name'], o['why']))
    if ck.tier != 'quick' and not broken:
        # thorough tier: independent re-check of the compiled closure of the property file by coqchk, which also
        # lists the axioms of every library it loads (expected: none)
        rc, so, se = sh(['coqchk', '-silent', '-o', '-Q', 'theories', 'Quill', '-Q', 'gen', 'QuillGen', 'Quill.Props.' + prop_file],
                        cwd=COQ, timeout=1800)
        txt = (so or '') + str(se or '')
        ok = rc == 0 and '* Axioms: <none>' in txt
        ck.tie.append({'name': 'coqchk -o Quill.Props.' + prop_file, 'ok': ok})
        if not ok:
            broken.append('coqchk -o on %s: rc=%s %s' % (prop_file, rc, txt[-300:]))
    return broken


def ddmin(groups, fails, max_tests=400):
    """delta debugging over a list of op groups; fails(list)->bool. Returns a 1-minimal-ish list."""
    n = 2
    tests = 0
    cur = list(groups)
    while len(cur) >= 2 and tests < max_tests:
        chunk = max(1, len(cur) // n)
        reduced = False
        for i in range(0, len(cur), chunk):
            cand = cur[:i] + cur[i + chunk:]
            tests += 1
            if cand and fails(cand):
                cur = cand; n = max(n - 1, 2); reduced = True
                break
        if not reduced:
            if chunk == 1:
                break
            n = min(len(cur), n * 2)
    return cur


def correspond(ck, name, cases, model_lines, impl_lines, monitor=None, shrink=None, known_match=None):
    """compare per-case observation lines; run the property monitor on the implementation's
    observations; classify and report. Returns (disagreements, monitor_failures)."""
    dis = []; mon = []
    for c, m, i in zip(cases, model_lines, impl_lines):
        mf = monitor(c, i) if monitor else None
        if mf:
            mon.append((c, m, i, mf))
        elif m != i:
            dis.append((c, m, i))
    reported = 0
    for c, m, i, mf in mon:
        if known_match:
            k = known_match(c, i, mf)
            if k:
                if k not in ck.known:
                    ck.known.append(k)
                continue
        if reported < 3:
            cc = shrink(c, 'monitor') if shrink else c
            ck.violation('impl-failing-input', 'property monitor on the implementation (%s): %s' % (name, mf),
                         case=cc, expected='property clause holds', observed=i,
                         extra={'model_observation': m, 'original_case': c})
            reported += 1
    if not reported:
        for c, m, i in dis[:1]:
            cc = shrink(c, 'diff') if shrink else c
            ck.violation('no-failing-input-found', 'correspondence %s: model and implementation observations differ' % name,
                         case=cc, expected=m, observed=i, extra={'original_case': c, 'disagreeing_cases': len(dis)})
    return dis, mon
