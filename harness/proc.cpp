// C07 child program: one scripted quill program that ends by a chosen terminal action at a chosen
// point of its statement sequence. The parent (props/c07.py) reads (a) the "issue log" this child
// writes with write(2) on its stdout (an inherited pipe, so it survives the child's death) and
// (b) the log file, after the child has ended, and evaluates the property on them.
//
// usage: proc key=value ...
//   file=<path>        log file (FileSink, mode 'w', pattern "%(message)")
//   clock=sys|tsc      clock source of the logger
//   sh=0|1|2           1: Backend::start<FrontendOptions>(opts, SignalHandlerOptions); 0: Backend::start(opts);
//                      2: the first start is the plain one, every restart ('r') enables the signal handler
//   sleep_us=<n>       backend sleep_duration in microseconds (0: the backend spins)
//   wq=<0|1>           BackendOptions::wait_for_queues_to_empty_before_exit (default 1)
//   flush_ms=<n>       BackendOptions::sink_min_flush_interval in ms (-1: library default, 200 ms)
//   sigto=<s>          SignalHandlerOptions::timeout_seconds
//   pad=<n>            extra payload characters per statement
//   wait_ms=<n>        length of a 'w' pause
//   noise=0|1          a background thread 9 logging "t9:<n>" every ~150 us. It keeps running through
//                      stop/start cycles, through the terminal Backend::stop() and while a crash signal
//                      is handled; it is parked before exit(), return from main and SIGINT/SIGTERM
//   script=<tok,...>   executed strictly in order, one token at a time (baton):
//                        0|1|2   thread <d> logs its next statement "t<d>:<seq>" (thread 0 is main)
//                        x1|x2   thread <d> returns from its thread function (it has finished)
//                        j1|j2   main joins thread <d>
//                        s       main calls Backend::stop(), then copies the file to <file>.s<step>
//                        r       main starts the backend again
//                        w       main sleeps wait_ms
//   actor=<d>          thread performing the terminal action once the script is done
//   act=<action>       stop | exit | return | raise:<SIG> | kill:<SIG> | fault:null|abort|div0|trap
//                      (SIG in SEGV ABRT FPE ILL INT TERM). stop: Backend::stop(), copy the file to
//                      <file>.stop, then main returns normally.
//
// issue log records (one write(2) each, so records of different threads are totally ordered):
//   "t<d>:<seq>"            written right after the log call of that statement returned
//   "B <step>"              Backend::stop() of token <step> is about to be called
//   "S <step> running=<b>"  Backend::stop() of token <step> returned and the file copy is complete
//   "R <step> running=<b>"  the restart of token <step> returned
//   "X <d>" / "J <d>"       thread about to return / joined
//   "A <act> actor=<d> visible=<n>"  the terminal action is about to start; <n> = lines readable in the file now
//   "STOPPED running=<b>"   (act=stop) stop() returned and <file>.stop is complete
//   "RETURN"                main is about to return from main()
//   "RAISE-RETURNED"        raise()/kill() came back (the handler did not end the process)
#include "quill/Backend.h"
#include "quill/Frontend.h"
#include "quill/LogMacros.h"
#include "quill/Logger.h"
#include "quill/sinks/FileSink.h"

#include <atomic>
#include <chrono>
#include <csignal>
#include <cstdio>
#include <cstdlib>
#include <cstring>
#include <fcntl.h>
#include <map>
#include <string>
#include <thread>
#include <unistd.h>
#include <vector>

namespace
{
struct Tok
{
  char kind; // 'L' 'x' 'j' 's' 'r' 'w'
  int thr;   // thread concerned (L, x, j)
  int owner; // thread executing it
};

std::vector<Tok> g_script;
std::atomic<int> g_turn{0}; // index of the next token; size(): action time; size()+1: main may return
std::atomic<int> g_noise_cmd{0}; // 0 run, 1 park
std::atomic<int> g_noise_parked{0};
std::string g_file, g_act, g_pad;
int g_actor = 0;
int g_sh = 0; // see usage
int g_starts = 0;
bool g_tsc = false, g_noise = false;
long g_sleep_us = 0, g_wait_ms = 10, g_flush_ms = -1, g_wq = 1;
unsigned g_sigto = 10;
quill::Logger* g_logger = nullptr;
std::thread* g_threads[10] = {};
int g_seq[10] = {};

void rec(std::string const& s)
{
  std::string l = s + "\n";
  ssize_t r = ::write(1, l.data(), l.size());
  (void)r;
}

void die(char const* m)
{
  fprintf(stderr, "proc: %s\n", m);
  _exit(64);
}

void start_backend()
{
  quill::BackendOptions bo;
  bo.sleep_duration = std::chrono::microseconds{g_sleep_us};
  bo.wait_for_queues_to_empty_before_exit = (g_wq != 0);   // wq=0: only the signal clause is promised then
  if (g_flush_ms >= 0) bo.sink_min_flush_interval = std::chrono::milliseconds{g_flush_ms};
  bool const with_handler = (g_sh == 1) || (g_sh == 2 && g_starts > 0);
  ++g_starts;
  if (with_handler)
  {
    quill::SignalHandlerOptions sho;
    sho.timeout_seconds = g_sigto;
    sho.logger = "c07";
    quill::Backend::start<quill::FrontendOptions>(bo, sho);
  }
  else
  {
    quill::Backend::start(bo);
  }
}

long copy_file(std::string const& to)
{
  int in = ::open(g_file.c_str(), O_RDONLY);
  int out = ::open(to.c_str(), O_WRONLY | O_CREAT | O_TRUNC, 0644);
  long n = 0;
  if (in >= 0 && out >= 0)
  {
    char buf[65536];
    ssize_t k;
    while ((k = ::read(in, buf, sizeof buf)) > 0)
    {
      ssize_t w = ::write(out, buf, static_cast<size_t>(k));
      (void)w;
      n += k;
    }
  }
  if (in >= 0) ::close(in);
  if (out >= 0) ::close(out);
  return n;
}

long visible_lines()
{
  int in = ::open(g_file.c_str(), O_RDONLY);
  if (in < 0) return -1;
  long n = 0;
  char buf[65536];
  ssize_t k;
  while ((k = ::read(in, buf, sizeof buf)) > 0)
    for (ssize_t i = 0; i < k; ++i) n += (buf[i] == '\n');
  ::close(in);
  return n;
}

void log_one(int t)
{
  int const seq = g_seq[t]++;
  LOG_INFO(g_logger, "t{}:{} {}", t, seq, g_pad);
  rec("t" + std::to_string(t) + ":" + std::to_string(seq));
}

void park_noise()
{
  if (!g_noise) return;
  g_noise_cmd.store(1);
  while (!g_noise_parked.load()) usleep(50);
}

void noise_main()
{
  for (int i = 0; i < 20000; ++i)
  {
    while (g_noise_cmd.load())
    {
      // re-assert "parked" on every round: a resume immediately followed by a new park request must
      // not be missed
      g_noise_parked.store(1);
      usleep(100);
    }
    log_one(9);
    usleep(150);
  }
  g_noise_parked.store(1);
  for (;;) pause();
}

int signo(std::string const& s)
{
  static std::map<std::string, int> const m{{"SEGV", SIGSEGV}, {"ABRT", SIGABRT}, {"FPE", SIGFPE},
                                            {"ILL", SIGILL},   {"INT", SIGINT},   {"TERM", SIGTERM}};
  auto it = m.find(s);
  if (it == m.end()) die("unknown signal");
  return it->second;
}

volatile int g_zero = 0;
int* volatile g_null = nullptr;

bool crash_action()
{
  if (g_act.rfind("fault:", 0) == 0) return true;
  if (g_act.rfind("raise:", 0) == 0)
  {
    int s = signo(g_act.substr(6));
    return s != SIGINT && s != SIGTERM;
  }
  return false;
}

// returns only for act=stop (and when a raise came back)
void do_action()
{
  // the noise thread keeps logging through Backend::stop() and through a crash signal; before exit(),
  // return from main and SIGINT/SIGTERM (which run exit handlers and static destructors) it is parked
  if (!crash_action() && g_act != "stop") park_noise();
  long vis = visible_lines();
  rec("A " + g_act + " actor=" + std::to_string(g_actor) + " visible=" + std::to_string(vis));
  if (g_act == "stop")
  {
    quill::Backend::stop();
    copy_file(g_file + ".stop");
    rec(std::string("STOPPED running=") + (quill::Backend::is_running() ? "1" : "0"));
    park_noise();
    return;
  }
  if (g_act == "exit") std::exit(0);
  if (g_act == "return")
  {
    if (g_actor != 0) die("return needs actor=0");
    return;
  }
  if (g_act.rfind("raise:", 0) == 0)
  {
    ::raise(signo(g_act.substr(6)));
    rec("RAISE-RETURNED");
    _exit(77);
  }
  if (g_act.rfind("kill:", 0) == 0)
  {
    ::kill(getpid(), signo(g_act.substr(5)));
    // the signal may be handled by another thread: give it time to end the process
    for (int i = 0; i < 100 * 60; ++i) usleep(10000);
    rec("RAISE-RETURNED");
    _exit(77);
  }
  if (g_act == "fault:null")
  {
    *g_null = 1;
  }
  else if (g_act == "fault:abort")
  {
    std::abort();
  }
  else if (g_act == "fault:div0")
  {
    int volatile r = 7 / g_zero;
    (void)r;
  }
  else if (g_act == "fault:trap")
  {
    __builtin_trap();
  }
  else
  {
    die("unknown action");
  }
  rec("RAISE-RETURNED");
  _exit(77);
}

void exec_tok(int idx)
{
  Tok const& k = g_script[static_cast<size_t>(idx)];
  switch (k.kind)
  {
  case 'L':
    log_one(k.thr);
    break;
  case 'j':
    g_threads[k.thr]->join();
    rec("J " + std::to_string(k.thr));
    break;
  case 's':
    rec("B " + std::to_string(idx));
    quill::Backend::stop();
    copy_file(g_file + ".s" + std::to_string(idx));
    rec("S " + std::to_string(idx) + " running=" + (quill::Backend::is_running() ? "1" : "0"));
    break;
  case 'r':
    start_backend();
    rec("R " + std::to_string(idx) + " running=" + (quill::Backend::is_running() ? "1" : "0"));
    break;
  case 'w':
    usleep(static_cast<useconds_t>(g_wait_ms * 1000));
    break;
  default:
    die("bad token");
  }
}

// runs the tokens owned by thread `me`; returns 0 when the thread has to return from its function
// (x token, or main allowed to return), never returns otherwise
int thread_loop(int me)
{
  int const n = static_cast<int>(g_script.size());
  for (;;)
  {
    int const t = g_turn.load(std::memory_order_acquire);
    if (t == n + 1)
    {
      if (me == 0) return 0;
    }
    else if (t == n)
    {
      if (me == g_actor)
      {
        do_action();
        g_turn.store(n + 1, std::memory_order_release);
        continue;
      }
    }
    else if (g_script[static_cast<size_t>(t)].owner == me)
    {
      if (g_script[static_cast<size_t>(t)].kind == 'x')
      {
        rec("X " + std::to_string(me));
        g_turn.store(t + 1, std::memory_order_release);
        return 0;
      }
      exec_tok(t);
      g_turn.store(t + 1, std::memory_order_release);
      continue;
    }
    usleep(t >= n ? 1000 : 40);
  }
}
} // namespace

int main(int argc, char** argv)
{
  std::map<std::string, std::string> kv;
  for (int i = 1; i < argc; ++i)
  {
    std::string a = argv[i];
    size_t p = a.find('=');
    if (p == std::string::npos) die("arguments are key=value");
    kv[a.substr(0, p)] = a.substr(p + 1);
  }
  auto get = [&](char const* k, char const* d) { return kv.count(k) ? kv[k] : std::string(d); };
  g_file = get("file", "");
  if (g_file.empty()) die("file= missing");
  g_tsc = get("clock", "sys") == "tsc";
  g_sh = atoi(get("sh", "0").c_str());
  g_sleep_us = atol(get("sleep_us", "0").c_str());
  g_wq = atol(get("wq", "1").c_str());
  g_flush_ms = atol(get("flush_ms", "-1").c_str());
  g_sigto = static_cast<unsigned>(atol(get("sigto", "10").c_str()));
  g_pad = std::string(static_cast<size_t>(atol(get("pad", "0").c_str())), 'x');
  g_wait_ms = atol(get("wait_ms", "10").c_str());
  g_noise = get("noise", "0") == "1";
  g_actor = atoi(get("actor", "0").c_str());
  g_act = get("act", "return");

  int nthreads = 1;
  {
    std::string s = get("script", "");
    size_t i = 0;
    while (i < s.size())
    {
      size_t j = s.find(',', i);
      if (j == std::string::npos) j = s.size();
      std::string t = s.substr(i, j - i);
      i = j + 1;
      if (t.empty()) continue;
      Tok k{};
      if (t.size() == 1 && t[0] >= '0' && t[0] <= '2')
      {
        k = Tok{'L', t[0] - '0', t[0] - '0'};
      }
      else if (t.size() == 2 && (t[0] == 'x' || t[0] == 'j') && (t[1] == '1' || t[1] == '2'))
      {
        k = Tok{t[0], t[1] - '0', t[0] == 'x' ? t[1] - '0' : 0};
      }
      else if (t == "s" || t == "r" || t == "w")
      {
        k = Tok{t[0], 0, 0};
      }
      else
      {
        die("bad script token");
      }
      if (k.thr + 1 > nthreads) nthreads = k.thr + 1;
      g_script.push_back(k);
    }
  }
  if (g_actor + 1 > nthreads) nthreads = g_actor + 1;
  if (nthreads > 3) die("at most threads 0..2");

  start_backend();

  auto sink = quill::Frontend::create_or_get_sink<quill::FileSink>(
    g_file,
    []()
    {
      quill::FileSinkConfig cfg;
      cfg.set_open_mode('w');
      return cfg;
    }(),
    quill::FileEventNotifier{});
  g_logger = quill::Frontend::create_or_get_logger(
    "c07", std::move(sink), quill::PatternFormatterOptions{"%(message)"},
    g_tsc ? quill::ClockSourceType::Tsc : quill::ClockSourceType::System);

  // thread objects are leaked on purpose: threads that are not joined by the script stay alive
  // (parked) until the process ends
  for (int t = 1; t < nthreads; ++t) g_threads[t] = new std::thread([t]() { thread_loop(t); });
  if (g_noise) g_threads[9] = new std::thread(noise_main);

  thread_loop(0);
  rec("RETURN");
  return 0;
}
