// T-corr harness for C14 / C15: drives the real quill::RotatingFileSink (and RotatingJsonFileSink
// when <json> = 1) through write_log in a scratch directory created under $TMPDIR (or /tmp) and
// removed per case, with injected start_time / record timestamps.  restart = destroy + construct.
//
// case:  rot <prefix(ign)> <json> <zone> <scheme> <freq> <interval> <hh> <mm> <gmt> <limit> <maxb> <over>
//            <nstem> bytes.. <next> bytes..
//            <ndecoy> { <ncomp> {<len> bytes..}* <nst> {<id> <wr>}* }*
//            <ntab> {...}*   (oracle table for the model; skipped here)
//            ops:  0 id ts wr cnt | 1 wmode rmold start
// output: per op the sorted directory listing
//            <nfiles> { <ncomp> {<len> bytes..}* <size> <nst> ids.. }*
//         then " | " and what libc returned for every instant t (seconds) used by the case:
//            <n> { <t> <len> bytes("%Y%m%d") <len> bytes("%Y%m%d_%H%M%S") <rt0> <rt1> <rt2> }*
//         (rt0 = mktime/timegm of the broken-down time after the field update of
//          _calculate_initial_rotation_tp, tm_isdst as localtime gave it; daily rotation only:
//          rt1 = the same with tm_isdst = -1, rt2 = then tm_mday + 1, HH:MM:00, tm_isdst = -1 (tomorrow's
//          HH:MM); otherwise rt1 = rt2 = rt0.  Computed here by direct libc calls, not through quill.)
//         glibc's mktime answers an ambiguous local time (HH:MM inside the hour repeated at the end of
//         DST, tm_isdst = -1) from the UTC offset remembered from its previous call; to make that
//         reproducible the harness primes it with mktime(localtime(t)) before every constructor /
//         write_log at instant t and before the oracle calls for t.
// every statement is one line "<id> xxxx\n" of exactly <wr> bytes (JSON: the "message" value carries
// the id and the padding makes the whole JSON line <wr> bytes); <cnt> = log_statement.size() handed
// to the JSON sink (for the plain sink log_statement is the line itself).
#include "common.h"
#include "quill/sinks/RotatingFileSink.h"
#include "quill/sinks/RotatingJsonFileSink.h"
#include "quill/core/MacroMetadata.h"

#include <algorithm>
#include <cstdlib>
#include <cstring>
#include <ctime>
#include <fstream>
#include <map>
#include <memory>
#include <set>
#include <unistd.h>

using vh::u64;
namespace fs = quill::fs;

static char const* const ZONES[] = {"UTC", "America/New_York", "Europe/Berlin", "Australia/Lord_Howe",
                                    "Asia/Kolkata", "America/Santiago"};

struct Cur
{
  std::vector<u64> const& a;
  size_t i{0};
  bool ok{true};
  u64 next()
  {
    if (i < a.size()) return a[i++];
    ok = false;
    return 0;
  }
  std::string comp()
  {
    u64 n = next();
    std::string s;
    for (u64 k = 0; k < n && ok; ++k) s.push_back(static_cast<char>(next()));
    return s;
  }
};

static std::string join(std::vector<std::string> const& c)
{
  std::string s;
  for (size_t i = 0; i < c.size(); ++i)
  {
    if (i) s += '.';
    s += c[i];
  }
  return s;
}

static std::string plain_line(u64 id, u64 wr)
{
  std::string s = std::to_string(id);
  if (s.size() + 1 >= wr) return s + "\n";
  s += ' ';
  while (s.size() + 1 < wr) s += 'x';
  return s + "\n";
}

static void put_comp(std::vector<u64>& out, std::string const& s)
{
  out.push_back(s.size());
  for (unsigned char ch : s) out.push_back(ch);
}

static void listing(fs::path const& dir, std::vector<u64>& out)
{
  std::vector<std::string> names;
  for (auto const& e : fs::directory_iterator(dir)) names.push_back(e.path().filename().string());
  std::sort(names.begin(), names.end());
  out.push_back(names.size());
  for (auto const& n : names)
  {
    std::vector<std::string> comps;
    size_t st = 0, p;
    while ((p = n.find('.', st)) != std::string::npos) { comps.push_back(n.substr(st, p - st)); st = p + 1; }
    comps.push_back(n.substr(st));
    out.push_back(comps.size());
    for (auto const& c : comps) put_comp(out, c);
    std::ifstream f(dir / n, std::ios::binary);
    std::string content((std::istreambuf_iterator<char>(f)), std::istreambuf_iterator<char>());
    out.push_back(content.size());
    std::vector<u64> ids;
    size_t pos = 0;
    while (pos < content.size())
    {
      size_t nl = content.find('\n', pos);
      std::string line = content.substr(pos, nl == std::string::npos ? std::string::npos : nl - pos);
      size_t m = line.find("\"message\":\"");
      char const* q = (m == std::string::npos) ? line.c_str() : line.c_str() + m + 11;
      // a torn statement (no leading id) is reported as id 999999999
      ids.push_back((*q >= '0' && *q <= '9') ? std::strtoull(q, nullptr, 10) : 999999999ull);
      if (nl == std::string::npos)
      {
        ids.back() = 999999998ull; // last line without newline: a partial statement
        break;
      }
      pos = nl + 1;
    }
    out.push_back(ids.size());
    out.insert(out.end(), ids.begin(), ids.end());
  }
}

struct Conf
{
  u64 json, zone, scheme, freq, interval, hh, mm, gmt, limit, maxb, over;
};

static quill::RotatingFileSinkConfig make_cfg(Conf const& c, bool wmode, bool rmold)
{
  quill::RotatingFileSinkConfig cfg;
  cfg.set_open_mode(wmode ? 'w' : 'a');
  cfg.set_remove_old_files(rmold);
  cfg.set_rotation_naming_scheme(c.scheme == 0 ? quill::RotatingFileSinkConfig::RotationNamingScheme::Index
                                 : c.scheme == 1 ? quill::RotatingFileSinkConfig::RotationNamingScheme::Date
                                                 : quill::RotatingFileSinkConfig::RotationNamingScheme::DateAndTime);
  if (c.limit) cfg.set_rotation_max_file_size(c.limit);
  cfg.set_max_backup_files(static_cast<uint32_t>(c.maxb));
  cfg.set_overwrite_rolled_files(c.over != 0);
  cfg.set_timezone(c.gmt ? quill::Timezone::GmtTime : quill::Timezone::LocalTime);
  if (c.freq == 1)
  {
    char b[8];
    snprintf(b, sizeof b, "%02u:%02u", static_cast<unsigned>(c.hh), static_cast<unsigned>(c.mm));
    cfg.set_rotation_time_daily(b);
  }
  else if (c.freq == 2) cfg.set_rotation_frequency_and_interval('H', static_cast<uint32_t>(c.interval));
  else if (c.freq == 3) cfg.set_rotation_frequency_and_interval('M', static_cast<uint32_t>(c.interval));
  return cfg;
}

// mktime remembers the UTC offset of its last answer: set it to the offset in force at t
static void prime_mktime(Conf const& c, u64 t)
{
  if (c.gmt) return;
  time_t tt = static_cast<time_t>(t);
  tm d;
  localtime_r(&tt, &d);
  ::mktime(&d);
}

static void oracle_row(Conf const& c, u64 t, std::vector<u64>& out)
{
  time_t tt = static_cast<time_t>(t);
  tm d;
  if (c.gmt) gmtime_r(&tt, &d); else localtime_r(&tt, &d);
  char b1[64], b2[64];
  strftime(b1, sizeof b1, "%Y%m%d", &d);
  strftime(b2, sizeof b2, "%Y%m%d_%H%M%S", &d);
  auto conv = [&](tm& e) { time_t r = c.gmt ? ::timegm(&e) : ::mktime(&e); return r < 0 ? u64{0} : static_cast<u64>(r); };
  u64 rt0 = 0, rt1 = 0, rt2 = 0;
  if (c.freq)
  {
    if (c.freq == 1)
    {
      // the calls of the repaired code, in its order
      prime_mktime(c, t);
      tm e = d;
      e.tm_hour = static_cast<int>(c.hh); e.tm_min = static_cast<int>(c.mm); e.tm_sec = 0; e.tm_isdst = -1;
      rt1 = conv(e);
      e.tm_mday += 1;
      e.tm_hour = static_cast<int>(c.hh); e.tm_min = static_cast<int>(c.mm); e.tm_sec = 0; e.tm_isdst = -1;
      rt2 = conv(e);
    }
    prime_mktime(c, t);
    tm e = d;
    if (c.freq == 3) { e.tm_min += 1; e.tm_sec = 0; }
    else if (c.freq == 2) { e.tm_hour += 1; e.tm_min = 0; e.tm_sec = 0; }
    else { e.tm_hour = static_cast<int>(c.hh); e.tm_min = static_cast<int>(c.mm); e.tm_sec = 0; }
    rt0 = conv(e);
    if (c.freq != 1) rt1 = rt2 = rt0;
  }
  out.push_back(t);
  put_comp(out, b1);
  put_comp(out, b2);
  out.push_back(rt0);
  out.push_back(rt1);
  out.push_back(rt2);
}

int main()
{
  std::string model;
  std::vector<u64> a;
  char const* tmp = getenv("TMPDIR");
  std::string tmproot = (tmp && *tmp) ? tmp : "/tmp";
  while (vh::read_case(model, a))
  {
    Cur cu{a};
    cu.next(); // prefix flag (model only)
    Conf c;
    c.json = cu.next(); c.zone = cu.next(); c.scheme = cu.next(); c.freq = cu.next(); c.interval = cu.next();
    c.hh = cu.next(); c.mm = cu.next(); c.gmt = cu.next(); c.limit = cu.next(); c.maxb = cu.next(); c.over = cu.next();
    std::string stem = cu.comp(), ext = cu.comp();
    setenv("TZ", ZONES[c.zone < 6 ? c.zone : 0], 1);
    tzset();

    std::string tmpl = tmproot + "/vrot_XXXXXX";
    std::vector<char> tb(tmpl.begin(), tmpl.end());
    tb.push_back(0);
    if (!mkdtemp(tb.data())) { printf("NOSCRATCH\n"); fflush(stdout); continue; }
    fs::path dir{tb.data()};

    u64 nd = cu.next();
    for (u64 k = 0; k < nd && cu.ok; ++k)
    {
      u64 nc = cu.next();
      std::vector<std::string> comps;
      for (u64 j = 0; j < nc && cu.ok; ++j) comps.push_back(cu.comp());
      u64 ns = cu.next();
      std::ofstream f(dir / join(comps), std::ios::binary);
      for (u64 j = 0; j < ns && cu.ok; ++j)
      {
        u64 id = cu.next(), wr = cu.next();
        f << plain_line(id, wr);
      }
    }
    u64 nt = cu.next();
    for (u64 k = 0; k < nt && cu.ok; ++k) { cu.next(); cu.comp(); cu.comp(); cu.next(); cu.next(); cu.next(); }

    std::vector<u64> out;
    std::set<u64> instants;
    std::unique_ptr<quill::RotatingFileSink> plain;
    std::unique_ptr<quill::RotatingJsonFileSink> json;
    fs::path file = dir / (stem + "." + ext);
    std::string err;
    try
    {
      while (cu.ok && cu.i < a.size())
      {
        u64 op = cu.next();
        if (op == 0)
        {
          u64 id = cu.next(), ts = cu.next(), wr = cu.next(), cnt = cu.next();
          if (!cu.ok) break;
          instants.insert(ts / 1000000000ull);
          prime_mktime(c, ts / 1000000000ull);
          if (c.json)
          {
            if (!json) break;
            std::string pre = "{\"timestamp\":\"" + std::to_string(ts) +
              "\",\"file_name\":\"file.cpp\",\"line\":\"1\",\"thread_id\":\"tid\",\"logger\":\"logger\",\"log_level\":\"INFO\",\"message\":\"";
            std::string msg = std::to_string(id);
            size_t fixed = pre.size() + 3; // "}\n
            if (fixed + msg.size() < wr)
            {
              msg += ' ';
              while (fixed + msg.size() < wr) msg += 'x';
            }
            quill::MacroMetadata md{"file.cpp:1", "fn", msg.c_str(), nullptr, quill::LogLevel::Info,
                                    quill::MacroMetadata::Event::Log};
            std::string stmt(static_cast<size_t>(cnt), 'p');
            json->write_log(&md, ts, "tid", "tname", "1", "logger", quill::LogLevel::Info, "INFO", "I", nullptr,
                            msg, stmt);
            json->flush_sink();
          }
          else
          {
            if (!plain) break;
            std::string stmt = plain_line(id, wr);
            plain->write_log(nullptr, ts, "tid", "tname", "1", "logger", quill::LogLevel::Info, "INFO", "I",
                             nullptr, stmt, stmt);
            plain->flush_sink();
          }
        }
        else if (op == 1)
        {
          u64 wm = cu.next(), rm = cu.next(), st = cu.next();
          if (!cu.ok) break;
          instants.insert(st / 1000000000ull);
          prime_mktime(c, st / 1000000000ull);
          plain.reset();
          json.reset();
          auto cfg = make_cfg(c, wm != 0, rm != 0);
          std::chrono::system_clock::time_point tp{std::chrono::duration_cast<std::chrono::system_clock::duration>(
            std::chrono::nanoseconds{static_cast<int64_t>(st)})};
          if (c.json) json = std::make_unique<quill::RotatingJsonFileSink>(file, cfg, quill::FileEventNotifier{}, tp);
          else plain = std::make_unique<quill::RotatingFileSink>(file, cfg, quill::FileEventNotifier{}, tp);
        }
        else break;
        listing(dir, out);
      }
    }
    catch (std::exception const& e)
    {
      err = e.what();
    }
    plain.reset();
    json.reset();
    std::error_code ec;
    fs::remove_all(dir, ec);

    if (!err.empty())
    {
      for (auto& ch : err) if (ch == ' ' || ch == '\n') ch = '_';
      printf("EXC %s\n", err.c_str());
      fflush(stdout);
      continue;
    }
    std::vector<u64> orc;
    orc.push_back(instants.size());
    for (u64 t : instants) oracle_row(c, t, orc);
    std::string s;
    for (size_t i = 0; i < out.size(); ++i) { if (i) s += ' '; s += std::to_string(out[i]); }
    s += " |";
    for (u64 v : orc) { s += ' '; s += std::to_string(v); }
    s += '\n';
    fwrite(s.data(), 1, s.size(), stdout);
    fflush(stdout);
  }
  return 0;
}
