// Runtime part of C11: "a steady-state log call neither allocates nor formats on the calling thread".
//
// The executable replaces the global operator new/delete (all overloads) and defines malloc / calloc /
// realloc / posix_memalign / aligned_alloc / memalign / valloc / mmap / mmap64 itself (forwarding to the
// C library), counting per thread, and only between "just before the log call" and "just after it
// returned" on the calling thread.  User formatters (deferred-format and direct-format user types,
// format_as of enums) record which thread they run on.  Log calls run on a second thread (one fresh
// thread per case, so "first call" is well defined); the backend is a ManualBackendWorker driven by
// the main thread.  Built WITHOUT sanitizers (they replace the allocator themselves).
//
// stdin: case lines (format: coq/theories/Alloc/AllocRun.v)
//   alloc <mapcp> <unb> <drop> <init> <max> <sso> <copyw> <sig> <tylen> <nargs> ty... <nops> op...
//   (<mapcp> selects the variant of the MODEL's map codecs; the harness drops it: the code is what it is)
// stdout, per case, the same encoding as extract/modelrun:
//   per op:  heap mmap res cap ivcap dirfmt defcaller
// argv[1] (optional): side file, one line per case with the raw counters:
//   cid nops (new malloc calloc realloc memalign mmap)*nops defer_backend direct_backend enum_backend nerr nmsgs
// -DSIG_PART=k selects the slice of statement signatures (harness/codec_sigs.h, shared with C04);
// both frontends (bounded / unbounded; FrontendOptions are compile-time constants) are in every binary.
#include "common.h"

#include <array>
#include <atomic>
#include <chrono>
#include <condition_variable>
#include <cstdlib>
#include <cstring>
#include <deque>
#include <filesystem>
#include <forward_list>
#include <list>
#include <map>
#include <memory>
#include <mutex>
#include <new>
#include <optional>
#include <set>
#include <string>
#include <string_view>
#include <thread>
#include <tuple>
#include <unordered_map>
#include <unordered_set>
#include <vector>
#include <dlfcn.h>
#include <malloc.h>
#include <sys/mman.h>
#include <unistd.h>

// ------------------------------------------------------------------ allocation counters / interposers
enum { E_NEW = 0, E_MALLOC, E_CALLOC, E_REALLOC, E_MEMALIGN, E_MMAP, E_N };
static thread_local volatile int tl_on = 0;                 // inside the window of a log call on this thread
static thread_local volatile unsigned long tl_cnt[E_N];
static inline void note_alloc(int e) { if (tl_on) tl_cnt[e] = tl_cnt[e] + 1; }

extern "C"
{
  void* __libc_malloc(size_t);
  void* __libc_calloc(size_t, size_t);
  void* __libc_realloc(void*, size_t);
  void* __libc_memalign(size_t, size_t);
  void __libc_free(void*);

  void* malloc(size_t n) { note_alloc(E_MALLOC); return __libc_malloc(n); }
  void* calloc(size_t a, size_t b) { note_alloc(E_CALLOC); return __libc_calloc(a, b); }
  void* realloc(void* p, size_t n) { note_alloc(E_REALLOC); return __libc_realloc(p, n); }
  void free(void* p) { __libc_free(p); }
  void* memalign(size_t al, size_t n) { note_alloc(E_MEMALIGN); return __libc_memalign(al, n); }
  void* aligned_alloc(size_t al, size_t n) { note_alloc(E_MEMALIGN); return __libc_memalign(al, n); }
  int posix_memalign(void** out, size_t al, size_t n)
  {
    note_alloc(E_MEMALIGN);
    void* p = __libc_memalign(al, n);
    if (!p) return 12;
    *out = p;
    return 0;
  }
  void* valloc(size_t n) { note_alloc(E_MEMALIGN); return __libc_memalign(static_cast<size_t>(sysconf(_SC_PAGESIZE)), n); }
  void* pvalloc(size_t n)
  {
    note_alloc(E_MEMALIGN);
    size_t const pg = static_cast<size_t>(sysconf(_SC_PAGESIZE));
    return __libc_memalign(pg, (n + pg - 1) / pg * pg);
  }

  using mmap_fn = void* (*)(void*, size_t, int, int, int, off_t);
  void* mmap(void* addr, size_t len, int prot, int flags, int fd, off_t off) noexcept
  {
    static mmap_fn real = reinterpret_cast<mmap_fn>(dlsym(RTLD_NEXT, "mmap"));
    note_alloc(E_MMAP);
    return real(addr, len, prot, flags, fd, off);
  }
  void* mmap64(void* addr, size_t len, int prot, int flags, int fd, off_t off) noexcept
  {
    static mmap_fn real = reinterpret_cast<mmap_fn>(dlsym(RTLD_NEXT, "mmap64"));
    note_alloc(E_MMAP);
    return real(addr, len, prot, flags, fd, off);
  }
}

static inline void* new_impl(size_t n)
{
  note_alloc(E_NEW);
  void* p = __libc_malloc(n ? n : 1);
  if (!p) throw std::bad_alloc{};
  return p;
}
static inline void* new_impl_al(size_t n, std::align_val_t al)
{
  note_alloc(E_NEW);
  void* p = __libc_memalign(static_cast<size_t>(al), n ? n : 1);
  if (!p) throw std::bad_alloc{};
  return p;
}
void* operator new(size_t n) { return new_impl(n); }
void* operator new[](size_t n) { return new_impl(n); }
void* operator new(size_t n, std::nothrow_t const&) noexcept { note_alloc(E_NEW); return __libc_malloc(n ? n : 1); }
void* operator new[](size_t n, std::nothrow_t const&) noexcept { note_alloc(E_NEW); return __libc_malloc(n ? n : 1); }
void* operator new(size_t n, std::align_val_t al) { return new_impl_al(n, al); }
void* operator new[](size_t n, std::align_val_t al) { return new_impl_al(n, al); }
void* operator new(size_t n, std::align_val_t al, std::nothrow_t const&) noexcept { note_alloc(E_NEW); return __libc_memalign(static_cast<size_t>(al), n ? n : 1); }
void* operator new[](size_t n, std::align_val_t al, std::nothrow_t const&) noexcept { note_alloc(E_NEW); return __libc_memalign(static_cast<size_t>(al), n ? n : 1); }
void operator delete(void* p) noexcept { __libc_free(p); }
void operator delete[](void* p) noexcept { __libc_free(p); }
void operator delete(void* p, size_t) noexcept { __libc_free(p); }
void operator delete[](void* p, size_t) noexcept { __libc_free(p); }
void operator delete(void* p, std::nothrow_t const&) noexcept { __libc_free(p); }
void operator delete[](void* p, std::nothrow_t const&) noexcept { __libc_free(p); }
void operator delete(void* p, std::align_val_t) noexcept { __libc_free(p); }
void operator delete[](void* p, std::align_val_t) noexcept { __libc_free(p); }
void operator delete(void* p, size_t, std::align_val_t) noexcept { __libc_free(p); }
void operator delete[](void* p, size_t, std::align_val_t) noexcept { __libc_free(p); }
void operator delete(void* p, std::align_val_t, std::nothrow_t const&) noexcept { __libc_free(p); }
void operator delete[](void* p, std::align_val_t, std::nothrow_t const&) noexcept { __libc_free(p); }

// ------------------------------------------------------------------ which thread a user formatter runs on
enum { K_DEFER = 0, K_DIRECT, K_ENUM, K_N };
static thread_local int tl_role = 0;                         // 1 = a thread that issues log calls
static std::atomic<unsigned long> g_fmt[K_N][2];             // [kind][0: on a calling thread, 1: elsewhere (backend)]
static inline void note_fmt(int kind) { g_fmt[kind][tl_role == 1 ? 0 : 1].fetch_add(1, std::memory_order_relaxed); }

#include "quill/Backend.h"
#include "quill/Frontend.h"
#include "quill/LogMacros.h"
#include "quill/Logger.h"
#include "quill/sinks/Sink.h"
#include "quill/StringRef.h"
#include "quill/DirectFormatCodec.h"
#include "quill/DeferredFormatCodec.h"
#include "quill/backend/ThreadUtilities.h"
#include "quill/std/Array.h"
#include "quill/std/Chrono.h"
#include "quill/std/Deque.h"
#include "quill/std/FilesystemPath.h"
#include "quill/std/ForwardList.h"
#include "quill/std/List.h"
#include "quill/std/Map.h"
#include "quill/std/Optional.h"
#include "quill/std/Pair.h"
#include "quill/std/Set.h"
#include "quill/std/Tuple.h"
#include "quill/std/UnorderedMap.h"
#include "quill/std/UnorderedSet.h"
#include "quill/std/Vector.h"
#include "quill/bundled/fmt/format.h"
#include "quill/bundled/fmt/ranges.h"
#include "quill/bundled/fmt/std.h"
#include "quill/bundled/fmt/chrono.h"

using vh::u64;
namespace fs = std::filesystem;

// ------------------------------------------------------------------ user types (the ones of harness/codec.cpp, formatters instrumented)
enum E8 : uint8_t { E8_A = 0 };
enum class E32 : int32_t { A = 0 };
inline auto format_as(E8 e) { note_fmt(K_ENUM); return static_cast<unsigned>(e); }
inline auto format_as(E32 e) { note_fmt(K_ENUM); return static_cast<int32_t>(e); }

struct PodA { uint32_t a; uint16_t b; uint8_t c; uint8_t d; };                    // 8 bytes, memcpy
struct PodB { uint32_t x, y, z; };                                                // 12 bytes, memcpy
struct alignas(16) Al16                                                           // not trivially copyable, copy does not allocate
{
  uint64_t a{0}, b{0};
  Al16() = default;
  Al16(Al16 const& o) : a(o.a), b(o.b) {}
  Al16& operator=(Al16 const& o) { a = o.a; b = o.b; return *this; }
};
struct Al8
{
  uint64_t a{0}, b{0}, c{0};
  Al8() = default;
  Al8(Al8 const& o) : a(o.a), b(o.b), c(o.c) {}
  Al8& operator=(Al8 const& o) { a = o.a; b = o.b; c = o.c; return *this; }
};
struct DStr { std::string s; uint32_t x{0}; };                                    // owns heap memory: the copy allocates
struct DirU { std::string s; };                                                   // formatted on the caller

static_assert(sizeof(PodA) == 8 && sizeof(PodB) == 12 && sizeof(Al16) == 16 && alignof(Al16) == 16 &&
              sizeof(Al8) == 24 && alignof(Al8) == 8 && sizeof(DStr) == 40 && alignof(DStr) == 8, "model widths");

template <> struct fmtquill::formatter<PodA> {
  constexpr auto parse(format_parse_context& ctx) { return ctx.begin(); }
  auto format(PodA const& p, format_context& ctx) const { note_fmt(K_DEFER); return fmtquill::format_to(ctx.out(), "PodA({},{},{},{})", p.a, p.b, p.c, p.d); } };
template <> struct fmtquill::formatter<PodB> {
  constexpr auto parse(format_parse_context& ctx) { return ctx.begin(); }
  auto format(PodB const& p, format_context& ctx) const { note_fmt(K_DEFER); return fmtquill::format_to(ctx.out(), "PodB({},{},{})", p.x, p.y, p.z); } };
template <> struct fmtquill::formatter<Al16> {
  constexpr auto parse(format_parse_context& ctx) { return ctx.begin(); }
  auto format(Al16 const& p, format_context& ctx) const { note_fmt(K_DEFER); return fmtquill::format_to(ctx.out(), "Al16({},{})", p.a, p.b); } };
template <> struct fmtquill::formatter<Al8> {
  constexpr auto parse(format_parse_context& ctx) { return ctx.begin(); }
  auto format(Al8 const& p, format_context& ctx) const { note_fmt(K_DEFER); return fmtquill::format_to(ctx.out(), "Al8({},{},{})", p.a, p.b, p.c); } };
template <> struct fmtquill::formatter<DStr> {
  constexpr auto parse(format_parse_context& ctx) { return ctx.begin(); }
  auto format(DStr const& p, format_context& ctx) const { note_fmt(K_DEFER); return fmtquill::format_to(ctx.out(), "DStr({},{})", p.s, p.x); } };
template <> struct fmtquill::formatter<DirU> {
  constexpr auto parse(format_parse_context& ctx) { return ctx.begin(); }
  auto format(DirU const& p, format_context& ctx) const { note_fmt(K_DIRECT); return fmtquill::format_to(ctx.out(), "{}", p.s); } };

template <> struct quill::Codec<PodA> : quill::DeferredFormatCodec<PodA> {};
template <> struct quill::Codec<PodB> : quill::DeferredFormatCodec<PodB> {};
template <> struct quill::Codec<Al16> : quill::DeferredFormatCodec<Al16> {};
template <> struct quill::Codec<Al8> : quill::DeferredFormatCodec<Al8> {};
template <> struct quill::Codec<DStr> : quill::DeferredFormatCodec<DStr> {};
template <> struct quill::Codec<DirU> : quill::DirectFormatCodec<DirU> {};

// ------------------------------------------------------------------ frontend / backend set-up
// FrontendOptions are compile-time constants: FE 0 = bounded (8 KiB), FE 1 = unbounded (2 KiB, at most 64 KiB);
// the dropping variants, so that a full queue returns instead of waiting for the hand-driven backend
template <int FE> struct HOptsT;
template <> struct HOptsT<0>
{
  static constexpr quill::QueueType queue_type = quill::QueueType::BoundedDropping;
  static constexpr size_t initial_queue_capacity = 8192;
  static constexpr uint32_t blocking_queue_retry_interval_ns = 800;
  static constexpr size_t unbounded_queue_max_capacity = 65536;
  static constexpr quill::HugePagesPolicy huge_pages_policy = quill::HugePagesPolicy::Never;
};
template <> struct HOptsT<1>
{
  static constexpr quill::QueueType queue_type = quill::QueueType::UnboundedDropping;
  static constexpr size_t initial_queue_capacity = 2048;
  static constexpr uint32_t blocking_queue_retry_interval_ns = 800;
  static constexpr size_t unbounded_queue_max_capacity = 65536;
  static constexpr quill::HugePagesPolicy huge_pages_policy = quill::HugePagesPolicy::Never;
};
template <int FE> struct Fe
{
  using Opts = HOptsT<FE>;
  using Frontend = quill::FrontendImpl<Opts>;
  using Logger = quill::LoggerImpl<Opts>;
  static inline Logger* logger = nullptr;
};

struct CountSink : quill::Sink
{
  size_t n{0};
  void write_log(quill::MacroMetadata const*, uint64_t, std::string_view, std::string_view, std::string const&,
                 std::string_view, quill::LogLevel, std::string_view, std::string_view,
                 std::vector<std::pair<std::string, std::string>> const*, std::string_view, std::string_view) override
  {
    ++n;
  }
  void flush_sink() override {}
};

static quill::ManualBackendWorker* g_mbw = nullptr;
static CountSink* g_sink = nullptr;
static size_t g_nerr = 0;
static FILE* g_side = nullptr;
static char g_fill[1u << 20];

// ------------------------------------------------------------------ case reader / argument construction (as harness/codec.cpp)
struct Rd
{
  std::vector<u64> const& a;
  size_t i;
  u64 next() { return i < a.size() ? a[i++] : 0; }
};

struct Arena
{
  std::deque<std::string> strs;
  static inline char* ref_base = nullptr;   // mapped once per process
  size_t ref_cur{0};
  char* str(Rd& r, size_t n)
  {
    strs.emplace_back(n, '\0');
    std::string& s = strs.back();
    for (size_t k = 0; k < n; ++k) s[k] = static_cast<char>(r.next());
    return s.data();
  }
  static constexpr uintptr_t REF_ADDR = 0x200000000000ull;
  static constexpr size_t REF_SIZE = 1u << 22;
  char* ref(Rd& r, size_t n)
  {
    if (!ref_base)
    {
      void* p = mmap(reinterpret_cast<void*>(REF_ADDR), REF_SIZE, PROT_READ | PROT_WRITE,
                     MAP_PRIVATE | MAP_ANONYMOUS | MAP_FIXED_NOREPLACE, -1, 0);
      if (p != reinterpret_cast<void*>(REF_ADDR)) { fprintf(stderr, "cannot map the StringRef arena\n"); std::abort(); }
      ref_base = static_cast<char*>(p);
    }
    if (ref_cur + n + 1 > REF_SIZE) ref_cur = 0;
    char* d = ref_base + ref_cur;
    for (size_t k = 0; k < n; ++k) d[k] = static_cast<char>(r.next());
    d[n] = '\0';
    ref_cur += n + 1;
    return d;
  }
};

template <class T, class = void> struct Mk;

template <class T>
struct Mk<T, std::enable_if_t<std::is_arithmetic_v<T> || std::is_enum_v<T> || std::is_same_v<T, PodA> || std::is_same_v<T, PodB>>>
{
  static T make(Rd& r, Arena&)
  {
    unsigned char b[sizeof(T)];
    for (auto& x : b) x = static_cast<unsigned char>(r.next());
    T v; std::memcpy(&v, b, sizeof(T)); return v;
  }
};
template <> struct Mk<void const*> {
  static void const* make(Rd& r, Arena&) { uintptr_t v = 0; for (int k = 0; k < 8; ++k) v |= static_cast<uintptr_t>(r.next() & 0xff) << (8 * k); return reinterpret_cast<void const*>(v); } };
template <> struct Mk<char const*> {
  static char const* make(Rd& r, Arena& ar) { if (r.next() == 0) return nullptr; size_t n = r.next(); return ar.str(r, n); } };
template <> struct Mk<char*> {
  static char* make(Rd& r, Arena& ar) { if (r.next() == 0) return nullptr; size_t n = r.next(); return ar.str(r, n); } };
template <> struct Mk<std::string> {
  static std::string make(Rd& r, Arena&) { size_t n = r.next(); std::string s(n, '\0'); for (size_t k = 0; k < n; ++k) s[k] = static_cast<char>(r.next()); return s; } };
template <> struct Mk<std::string_view> {
  static std::string_view make(Rd& r, Arena& ar) { size_t n = r.next(); return std::string_view{ar.str(r, n), n}; } };
template <> struct Mk<fs::path> {
  static fs::path make(Rd& r, Arena& ar) { return fs::path{Mk<std::string>::make(r, ar)}; } };
template <> struct Mk<DirU> {
  static DirU make(Rd& r, Arena& ar) { return DirU{Mk<std::string>::make(r, ar)}; } };
template <> struct Mk<quill::utility::StringRef> {
  static quill::utility::StringRef make(Rd& r, Arena& ar) { r.next(); size_t n = r.next(); return quill::utility::StringRef{ar.ref(r, n), n}; } };
template <> struct Mk<Al16> {
  static Al16 make(Rd& r, Arena&) { unsigned char b[16]; for (auto& x : b) x = static_cast<unsigned char>(r.next()); Al16 v; std::memcpy(&v.a, b, 8); std::memcpy(&v.b, b + 8, 8); return v; } };
template <> struct Mk<Al8> {
  static Al8 make(Rd& r, Arena&) { unsigned char b[24]; for (auto& x : b) x = static_cast<unsigned char>(r.next()); Al8 v; std::memcpy(&v.a, b, 8); std::memcpy(&v.b, b + 8, 8); std::memcpy(&v.c, b + 16, 8); return v; } };
template <> struct Mk<DStr> {   // 40 value bytes: 32 of string content (beyond the inline capacity of std::string), 4 of x, 4 ignored
  static DStr make(Rd& r, Arena&) { DStr v; v.s.resize(32); for (auto& c : v.s) c = static_cast<char>(r.next()); unsigned char b[4]; for (auto& x : b) x = static_cast<unsigned char>(r.next()); std::memcpy(&v.x, b, 4); for (int k = 0; k < 4; ++k) r.next(); return v; } };
template <class Rep, class Period> struct Mk<std::chrono::duration<Rep, Period>> {
  static std::chrono::duration<Rep, Period> make(Rd& r, Arena& ar) { return std::chrono::duration<Rep, Period>{Mk<Rep>::make(r, ar)}; } };

template <class C, class E> struct MkSeq {
  static C make(Rd& r, Arena& ar) { size_t n = r.next(); C c; for (size_t k = 0; k < n; ++k) c.insert(c.end(), Mk<E>::make(r, ar)); return c; } };
template <class T, class A> struct Mk<std::vector<T, A>> : MkSeq<std::vector<T, A>, T> {};
template <class T, class A> struct Mk<std::deque<T, A>> : MkSeq<std::deque<T, A>, T> {};
template <class T, class A> struct Mk<std::list<T, A>> : MkSeq<std::list<T, A>, T> {};
template <class T, class C, class A> struct Mk<std::set<T, C, A>> : MkSeq<std::set<T, C, A>, T> {};
template <class T, class C, class A> struct Mk<std::multiset<T, C, A>> : MkSeq<std::multiset<T, C, A>, T> {};
template <class T, class H, class Q, class A> struct Mk<std::unordered_set<T, H, Q, A>> : MkSeq<std::unordered_set<T, H, Q, A>, T> {};
template <class T, class A> struct Mk<std::forward_list<T, A>> {
  static std::forward_list<T, A> make(Rd& r, Arena& ar) { size_t n = r.next(); std::forward_list<T, A> c; auto it = c.before_begin(); for (size_t k = 0; k < n; ++k) it = c.insert_after(it, Mk<T>::make(r, ar)); return c; } };
template <class M, class K, class V> struct MkMap {
  static M make(Rd& r, Arena& ar) { size_t n = r.next(); M m; for (size_t k = 0; k < n; ++k) { K key = Mk<K>::make(r, ar); V val = Mk<V>::make(r, ar); m.insert(m.end(), std::pair<K const, V>(std::move(key), std::move(val))); } return m; } };
template <class K, class V, class C, class A> struct Mk<std::map<K, V, C, A>> : MkMap<std::map<K, V, C, A>, K, V> {};
template <class K, class V, class C, class A> struct Mk<std::multimap<K, V, C, A>> : MkMap<std::multimap<K, V, C, A>, K, V> {};
template <class K, class V, class H, class Q, class A> struct Mk<std::unordered_map<K, V, H, Q, A>> {
  static std::unordered_map<K, V, H, Q, A> make(Rd& r, Arena& ar) { size_t n = r.next(); std::unordered_map<K, V, H, Q, A> m; for (size_t k = 0; k < n; ++k) { K key = Mk<K>::make(r, ar); V val = Mk<V>::make(r, ar); m.emplace(std::move(key), std::move(val)); } return m; } };
template <class T, size_t N> struct Mk<std::array<T, N>> {
  static std::array<T, N> make(Rd& r, Arena& ar) { std::array<T, N> a{}; for (size_t k = 0; k < N; ++k) a[k] = Mk<T>::make(r, ar); return a; } };
template <class T> struct Mk<std::optional<T>> {
  static std::optional<T> make(Rd& r, Arena& ar) { if (r.next() == 0) return std::nullopt; return std::optional<T>{Mk<T>::make(r, ar)}; } };
template <class A, class B> struct Mk<std::pair<A, B>> {
  static std::pair<A, B> make(Rd& r, Arena& ar) { A a = Mk<A>::make(r, ar); B b = Mk<B>::make(r, ar); return std::pair<A, B>(std::move(a), std::move(b)); } };
template <class... Ts> struct Mk<std::tuple<Ts...>> {
  static std::tuple<Ts...> make(Rd& r, Arena& ar) { return std::tuple<Ts...>{Mk<Ts>::make(r, ar)...}; } };

template <class T> struct Holder
{
  T v;
  Holder(Rd& r, Arena& ar) : v(Mk<T>::make(r, ar)) {}
  T& get() { return v; }
};
template <size_t N> struct Holder<char[N]>
{
  char v[N];
  Holder(Rd& r, Arena&) { for (size_t k = 0; k < N; ++k) v[k] = static_cast<char>(r.next()); }
  char (&get())[N] { return v; }
};
template <size_t M, size_t N> struct Holder<char[M][N]>
{
  char v[M][N];
  Holder(Rd& r, Arena&) { for (size_t j = 0; j < M; ++j) for (size_t k = 0; k < N; ++k) v[j][k] = static_cast<char>(r.next()); }
  char (&get())[M][N] { return v; }
};
template <class T, size_t N> struct Holder<T[N]>
{
  T v[N];
  Holder(Rd& r, Arena& ar) { for (size_t k = 0; k < N; ++k) v[k] = Mk<T>::make(r, ar); }
  T (&get())[N] { return v; }
};

// ------------------------------------------------------------------ one operation on the logging thread
struct OpRes
{
  unsigned long cnt[E_N]{};
  bool threw{false};
  int ret{-1};         // log_statement's return value when it is visible (-1: hidden by the macro)
};

static inline void win_begin()
{
  for (int e = 0; e < E_N; ++e) tl_cnt[e] = 0;
  std::atomic_signal_fence(std::memory_order_seq_cst);
  tl_on = 1;
  std::atomic_signal_fence(std::memory_order_seq_cst);
}
static inline void win_end(OpRes& r)
{
  std::atomic_signal_fence(std::memory_order_seq_cst);
  tl_on = 0;
  std::atomic_signal_fence(std::memory_order_seq_cst);
  for (int e = 0; e < E_N; ++e) r.cnt[e] = tl_cnt[e];
}
// the window brackets exactly the statement; an exception leaving it is an observation
#define WIN(...)                                                                                   \
  do { win_begin(); try { __VA_ARGS__; } catch (...) { r.threw = true; } win_end(r); } while (0)
#define CALL(M, ...) M(__VA_ARGS__)

template <size_t N> struct Arity {};

// every macro family on a statement with the arguments a0 .. a(N-1) of the pack
#define DEF_ARITY(N, BIND, ARGS, FMT)                                                                              \
  template <int FE, class Pack> static void do_log(Arity<N>, [[maybe_unused]] Pack& pack, int fam, OpRes& r)       \
  {                                                                                                                \
    BIND                                                                                                           \
    auto* lg = Fe<FE>::logger;                                                                                     \
    switch (fam)                                                                                                   \
    {                                                                                                              \
    case 0: WIN(CALL(QUILL_LOG_INFO, lg, FMT ARGS)); break;                                                        \
    case 1: WIN(CALL(QUILL_LOGV_INFO, lg, "v" ARGS)); break;                                                       \
    case 2: WIN(CALL(QUILL_LOGJ_INFO, lg, "j" ARGS)); break;                                                       \
    case 3: WIN(CALL(QUILL_LOG_DYNAMIC, lg, quill::LogLevel::Info, FMT ARGS)); break;                              \
    case 4: WIN(CALL(QUILL_LOG_INFO_LIMIT, std::chrono::nanoseconds{0}, lg, FMT ARGS)); break;                     \
    case 5: WIN(CALL(QUILL_LOG_INFO_LIMIT_EVERY_N, 1, lg, FMT ARGS)); break;                                       \
    case 6: WIN(CALL(QUILL_LOG_BACKTRACE, lg, FMT ARGS)); break;                                                   \
    case 7: WIN(CALL(QUILL_LOG_INFO_TAGS, lg, QUILL_TAGS("t1", "t2"), FMT ARGS)); break;                           \
    default:                                                                                                       \
    {                                                                                                              \
      static constexpr quill::MacroMetadata md{"alloc.cpp:1", "harness", FMT, nullptr, quill::LogLevel::Info,      \
                                               quill::MacroMetadata::Event::Log};                                  \
      WIN(r.ret = lg->template log_statement<false, false>(quill::LogLevel::None, &md ARGS) ? 1 : 0);              \
      break;                                                                                                       \
    }                                                                                                              \
    }                                                                                                              \
  }

#define B_(k) auto& a##k = std::get<k>(pack).get();
#define A_(...) , __VA_ARGS__
DEF_ARITY(0, , , "plain")
DEF_ARITY(1, B_(0), A_(a0), "{}")
DEF_ARITY(2, B_(0) B_(1), A_(a0, a1), "{} {}")
DEF_ARITY(3, B_(0) B_(1) B_(2), A_(a0, a1, a2), "{} {} {}")
DEF_ARITY(4, B_(0) B_(1) B_(2) B_(3), A_(a0, a1, a2, a3), "{} {} {} {}")
DEF_ARITY(5, B_(0) B_(1) B_(2) B_(3) B_(4), A_(a0, a1, a2, a3, a4), "{} {} {} {} {}")
DEF_ARITY(6, B_(0) B_(1) B_(2) B_(3) B_(4) B_(5), A_(a0, a1, a2, a3, a4, a5), "{} {} {} {} {} {}")
DEF_ARITY(7, B_(0) B_(1) B_(2) B_(3) B_(4) B_(5) B_(6), A_(a0, a1, a2, a3, a4, a5, a6), "{} {} {} {} {} {} {}")
DEF_ARITY(8, B_(0) B_(1) B_(2) B_(3) B_(4) B_(5) B_(6) B_(7), A_(a0, a1, a2, a3, a4, a5, a6, a7), "{} {} {} {} {} {} {} {}")
DEF_ARITY(9, B_(0) B_(1) B_(2) B_(3) B_(4) B_(5) B_(6) B_(7) B_(8), A_(a0, a1, a2, a3, a4, a5, a6, a7, a8), "{} {} {} {} {} {} {} {} {}")
DEF_ARITY(10, B_(0) B_(1) B_(2) B_(3) B_(4) B_(5) B_(6) B_(7) B_(8) B_(9), A_(a0, a1, a2, a3, a4, a5, a6, a7, a8, a9), "{} {} {} {} {} {} {} {} {} {}")
DEF_ARITY(11, B_(0) B_(1) B_(2) B_(3) B_(4) B_(5) B_(6) B_(7) B_(8) B_(9) B_(10), A_(a0, a1, a2, a3, a4, a5, a6, a7, a8, a9, a10), "{} {} {} {} {} {} {} {} {} {} {}")
DEF_ARITY(12, B_(0) B_(1) B_(2) B_(3) B_(4) B_(5) B_(6) B_(7) B_(8) B_(9) B_(10) B_(11), A_(a0, a1, a2, a3, a4, a5, a6, a7, a8, a9, a10, a11), "{} {} {} {} {} {} {} {} {} {} {} {}")
DEF_ARITY(13, B_(0) B_(1) B_(2) B_(3) B_(4) B_(5) B_(6) B_(7) B_(8) B_(9) B_(10) B_(11) B_(12), A_(a0, a1, a2, a3, a4, a5, a6, a7, a8, a9, a10, a11, a12), "{} {} {} {} {} {} {} {} {} {} {} {} {}")
DEF_ARITY(14, B_(0) B_(1) B_(2) B_(3) B_(4) B_(5) B_(6) B_(7) B_(8) B_(9) B_(10) B_(11) B_(12) B_(13), A_(a0, a1, a2, a3, a4, a5, a6, a7, a8, a9, a10, a11, a12, a13), "{} {} {} {} {} {} {} {} {} {} {} {} {} {}")

// ------------------------------------------------------------------ lock step between the logging thread and the main (backend) thread
struct Step
{
  std::mutex m;
  std::condition_variable cv;
  int turn{1};          // 0: main, 1: logging thread (which starts by parsing its operations)
  bool ready{false};    // the logging thread has parsed its operations
  bool bad{false};      // malformed case
  uint32_t tid{0};
  std::vector<int> kinds;
  std::vector<OpRes> res;
  void give(int to) { { std::lock_guard<std::mutex> l(m); turn = to; } cv.notify_all(); }
  void wait_for(int me) { std::unique_lock<std::mutex> l(m); cv.wait(l, [&] { return turn == me; }); }
};

template <int FE, class... Ts>
static void logging_thread(std::vector<u64> const& a, size_t pos, size_t nops, Step& st)
{
  tl_role = 1;
  using Pack = std::tuple<Holder<Ts>...>;
  struct Op { int kind; int fam; u64 x; std::unique_ptr<Pack> pack; };
  Arena arena;
  Rd rd{a, pos};
  std::vector<Op> ops;
  for (size_t k = 0; k < nops; ++k)
  {
    Op o{static_cast<int>(rd.next()), 0, 0, nullptr};
    if (o.kind == 1) { o.fam = static_cast<int>(rd.next()); o.pack.reset(new Pack{Holder<Ts>(rd, arena)...}); }
    else if (o.kind == 2 || o.kind == 3) o.x = rd.next();
    else if (o.kind != 0 && o.kind != 4) st.bad = true;
    if (o.kind == 2 && o.x > sizeof(g_fill)) st.bad = true;
    ops.push_back(std::move(o));
  }
  st.tid = quill::detail::get_thread_id();
  for (auto const& o : ops) st.kinds.push_back(o.kind);
  st.res.resize(ops.size());
  st.ready = true;
  st.give(0);
  if (st.bad) return;
  for (size_t k = 0; k < ops.size(); ++k)
  {
    if (ops[k].kind == 4) continue;       // the backend's turn, handled by the main thread
    st.wait_for(1);
    OpRes& r = st.res[k];
    switch (ops[k].kind)
    {
    case 0: WIN(Fe<FE>::Frontend::preallocate()); break;
    case 1: do_log<FE>(Arity<sizeof...(Ts)>{}, *ops[k].pack, ops[k].fam, r); break;
    case 2:
    {
      auto* lg = Fe<FE>::logger;
      std::string_view const sv{g_fill, static_cast<size_t>(ops[k].x)};
      WIN(QUILL_LOG_INFO(lg, "{}", sv));
      break;
    }
    case 3: WIN(Fe<FE>::Frontend::shrink_thread_local_queue(static_cast<size_t>(ops[k].x))); break;
    default: break;
    }
    st.give(0);
  }
  st.wait_for(1);       // stay alive (thread context valid) until the main thread has read its observations
}

static quill::detail::ThreadContext* find_ctx(uint32_t tid)
{
  quill::detail::ThreadContext* found = nullptr;
  std::string const want = std::to_string(tid);
  quill::detail::ThreadContextManager::instance().for_each_thread_context(
    [&](quill::detail::ThreadContext* c) { if (c->is_valid() && c->thread_id() == want) found = c; });
  return found;
}

static void drain()
{
  g_mbw->poll_one();
  g_mbw->poll_one();
  g_mbw->poll();
}

static constexpr u64 BAD = 18446744073709551614ull;

template <int FE, class... Ts>
static void run_fe(std::vector<u64> const& a)
{
  using HOpts = typename Fe<FE>::Opts;
  std::vector<u64> out, side;
  u64 const unb = a[0], drop = a[1], init = a[2], mx = a[3], cid = a[6] >> 16, tylen = a[7], nargs = a[8];
  size_t pos = 9 + tylen;
  bool const cfg_ok = (unb != 0) == (FE != 0) && drop == 1 && init == HOpts::initial_queue_capacity &&
    (!FE || mx == HOpts::unbounded_queue_max_capacity) && a[4] == std::string{}.capacity();
  if (!cfg_ok || nargs != sizeof...(Ts) || pos >= a.size()) { out.push_back(BAD); vh::print_line(out); return; }
  size_t const nops = a[pos++];

  unsigned long f0[K_N][2];
  auto snap = [&](unsigned long (&f)[K_N][2]) { for (int k = 0; k < K_N; ++k) for (int w = 0; w < 2; ++w) f[k][w] = g_fmt[k][w].load(); };
  unsigned long fstart[K_N][2]; snap(fstart);
  size_t const nerr0 = g_nerr, nmsg0 = g_sink->n;

  Step st;
  std::thread th([&] { logging_thread<FE, Ts...>(a, pos, nops, st); });
  st.wait_for(0);
  if (st.bad) { th.join(); out.push_back(BAD); vh::print_line(out); return; }
  {
    std::lock_guard<std::mutex> l(st.m);   // turn is 0: the logging thread is parked
  }
  side.push_back(cid); side.push_back(nops);
  for (size_t k = 0; k < nops; ++k)
  {
    snap(f0);
    int const kind = st.kinds[k];
    if (kind == 4) drain();
    else { st.give(1); st.wait_for(0); }
    OpRes const& r = st.res[k];
    unsigned long f1[K_N][2]; snap(f1);
    quill::detail::ThreadContext* ctx = find_ctx(st.tid);
    unsigned long heap = r.cnt[E_NEW] + r.cnt[E_MALLOC] + r.cnt[E_CALLOC] + r.cnt[E_REALLOC] + r.cnt[E_MEMALIGN];
    out.push_back(heap ? 1 : 0);
    out.push_back(r.cnt[E_MMAP] ? 1 : 0);
    u64 res = 4;
    if (kind == 1 || kind == 2)
    {
      size_t const failed = ctx ? ctx->get_and_reset_failure_counter() : 0;
      res = r.threw ? 3 : (failed ? 0 : 1);
      if (r.ret >= 0 && !r.threw && static_cast<u64>(r.ret) != res) res = 90 + static_cast<u64>(r.ret);   // return value and failure counter disagree
    }
    else if (r.threw) res = 3;
    out.push_back(res);
    if (ctx)
    {
      auto& q = ctx->template get_spsc_queue<HOpts::queue_type>();
      if constexpr (FE != 0) out.push_back(q.producer_capacity());
      else out.push_back(q.capacity());
      out.push_back(ctx->get_conditional_arg_size_cache().capacity());
    }
    else { out.push_back(0); out.push_back(0); }
    out.push_back(f1[K_DIRECT][0] - f0[K_DIRECT][0]);
    out.push_back((f1[K_DEFER][0] - f0[K_DEFER][0]) + (f1[K_ENUM][0] - f0[K_ENUM][0]));
    for (int e = 0; e < E_N; ++e) side.push_back(r.cnt[e]);
  }
  st.give(1);
  th.join();
  drain();               // everything still queued is formatted now; the exited thread's context is reclaimed
  g_mbw->poll_one();
  unsigned long fend[K_N][2]; snap(fend);
  vh::print_line(out);
  if (g_side)
  {
    side.push_back(fend[K_DEFER][1] - fstart[K_DEFER][1]);
    side.push_back(fend[K_DIRECT][1] - fstart[K_DIRECT][1]);
    side.push_back(fend[K_ENUM][1] - fstart[K_ENUM][1]);
    side.push_back(g_nerr - nerr0);
    side.push_back(g_sink->n - nmsg0);
    std::string s;
    for (size_t k = 0; k < side.size(); ++k) { if (k) s += ' '; s += std::to_string(side[k]); }
    s += '\n';
    fwrite(s.data(), 1, s.size(), g_side);
    fflush(g_side);
  }
}

template <bool WithDyn, class... Ts>
static void run_case(std::vector<u64> const& a)
{
  if (a[0]) run_fe<1, Ts...>(a);
  else run_fe<0, Ts...>(a);
}

#ifndef SIG_PART
  #define SIG_PART 0
#endif

static bool dispatch_sig(u64 sig, std::vector<u64> const& a)
{
  switch (sig)
  {
#include "codec_sigs.h"
  default: return false;
  }
  return true;
}

int main(int argc, char** argv)
{
  if (argc > 1) g_side = fopen(argv[1], "a");
  std::memset(g_fill, 'x', sizeof(g_fill));
  g_mbw = quill::Backend::acquire_manual_backend_worker();
  quill::BackendOptions bo;
  bo.error_notifier = [](std::string const&) { ++g_nerr; };
  bo.log_timestamp_ordering_grace_period = std::chrono::microseconds{0};
  g_mbw->init(bo);
  auto sink = Fe<0>::Frontend::create_or_get_sink<CountSink>("cnt");
  g_sink = static_cast<CountSink*>(sink.get());
  quill::PatternFormatterOptions pfo;
  pfo.add_metadata_to_multi_line_logs = false;
  Fe<0>::logger = Fe<0>::Frontend::create_or_get_logger("bounded", sink, pfo, quill::ClockSourceType::System);
  Fe<1>::logger = Fe<1>::Frontend::create_or_get_logger("unbounded", sink, pfo, quill::ClockSourceType::System);
  // LOG_BACKTRACE needs a storage on the backend.  One thread may use one kind of frontend only (the cached
  // thread context pointer is shared by all LoggerImpl instantiations), hence a thread per frontend.
  std::thread([] { Fe<0>::logger->init_backtrace(2, quill::LogLevel::None); }).join();
  std::thread([] { Fe<1>::logger->init_backtrace(2, quill::LogLevel::None); }).join();
  drain();
  g_mbw->poll_one();

  std::string model; std::vector<u64> a;
  while (vh::read_case(model, a))
  {
    if (model == "alloc" && a.size() >= 11)
    {
      a.erase(a.begin());   // <mapcp>: the model's code-variant flag
      if (dispatch_sig(a[6] & 0xffff, a)) continue;
    }
    std::vector<u64> o{BAD - 1}; vh::print_line(o);
  }
  if (g_side) fclose(g_side);
  fflush(stdout);
  std::_Exit(0);
}
