// C16 at the macro level: the real LOG_* macro families with an argument that has a side effect.
// case: lvl <logger level> {<family> <level>}*      (level 0..8 = TraceL3..Critical)
// family: 0 LOG_<L>  1 LOGV_<L>  2 LOGJ_<L>  3 LOG_<L>_LIMIT(0ns)  4 LOG_DYNAMIC  5 LOGV_DYNAMIC  6 LOGJ_DYNAMIC
// output per statement: <arguments evaluated 0/1> <written to the sink 0/1>
// The backend is polled by hand after every statement (ManualBackendWorker), one recording sink.
#include "common.h"
#include "quill/Backend.h"
#include "quill/Frontend.h"
#include "quill/LogMacros.h"
#include "quill/Logger.h"
#include "quill/backend/ManualBackendWorker.h"
#include "quill/sinks/Sink.h"
#include <atomic>
#include <chrono>

using u64 = unsigned long long;
static std::atomic<u64> g_written{0};

class CountSink : public quill::Sink
{
public:
  void write_log(quill::MacroMetadata const*, uint64_t, std::string_view, std::string_view, std::string const&,
                 std::string_view, quill::LogLevel, std::string_view, std::string_view,
                 std::vector<std::pair<std::string, std::string>> const*, std::string_view, std::string_view) override
  {
    g_written.fetch_add(1);
  }
  void flush_sink() override {}
};

static quill::Logger* g_logger = nullptr;
static int g_counter = 0;

#define STMT_BY_LEVEL(PFX, SFX, ...)                                                                             \
  switch (level)                                                                                                 \
  {                                                                                                              \
  case 0: PFX##TRACE_L3##SFX(__VA_ARGS__); break;                                                                \
  case 1: PFX##TRACE_L2##SFX(__VA_ARGS__); break;                                                                \
  case 2: PFX##TRACE_L1##SFX(__VA_ARGS__); break;                                                                \
  case 3: PFX##DEBUG##SFX(__VA_ARGS__); break;                                                                   \
  case 4: PFX##INFO##SFX(__VA_ARGS__); break;                                                                    \
  case 5: PFX##NOTICE##SFX(__VA_ARGS__); break;                                                                  \
  case 6: PFX##WARNING##SFX(__VA_ARGS__); break;                                                                 \
  case 7: PFX##ERROR##SFX(__VA_ARGS__); break;                                                                   \
  case 8: PFX##CRITICAL##SFX(__VA_ARGS__); break;                                                                \
  default: break;                                                                                                \
  }

static void one_statement(int family, int level)
{
  int x = 5;
  auto const dyn = static_cast<quill::LogLevel>(level);
  switch (family)
  {
  case 0: STMT_BY_LEVEL(LOG_, , g_logger, "v {} {}", g_counter++, x) break;
  case 1: STMT_BY_LEVEL(LOGV_, , g_logger, "v", g_counter++, x) break;
  case 2: STMT_BY_LEVEL(LOGJ_, , g_logger, "v", g_counter++, x) break;
  case 3: STMT_BY_LEVEL(LOG_, _LIMIT, std::chrono::nanoseconds{0}, g_logger, "v {} {}", g_counter++, x) break;
  case 4: LOG_DYNAMIC(g_logger, dyn, "v {} {}", g_counter++, x); break;
  case 5: LOGV_DYNAMIC(g_logger, dyn, "v", g_counter++, x); break;
  case 6: LOGJ_DYNAMIC(g_logger, dyn, "v", g_counter++, x); break;
  default: break;
  }
}

int main()
{
  quill::ManualBackendWorker* backend = quill::Backend::acquire_manual_backend_worker();
  quill::BackendOptions bo;
  bo.log_timestamp_ordering_grace_period = std::chrono::microseconds{0};
  bo.sink_min_flush_interval = std::chrono::milliseconds{0};
  backend->init(bo);
  auto sink = quill::Frontend::create_or_get_sink<CountSink>("macro_sink");
  g_logger = quill::Frontend::create_or_get_logger("macro_logger", sink);

  std::string model;
  std::vector<u64> a;
  while (vh::read_case(model, a))
  {
    std::vector<u64> out;
    if (model == "lvl" && !a.empty())
    {
      g_logger->set_log_level(static_cast<quill::LogLevel>(a[0]));
      for (size_t i = 1; i + 1 < a.size(); i += 2)
      {
        int const before = g_counter;
        u64 const wbefore = g_written.load();
        one_statement(static_cast<int>(a[i]), static_cast<int>(a[i + 1]));
        for (int k = 0; k < 4; ++k) backend->poll_one();
        out.push_back(g_counter != before ? 1 : 0);
        out.push_back(g_written.load() != wbefore ? 1 : 0);
      }
    }
    vh::print_line(out);
  }
  return 0;
}
