// T-corr harness for C04 (M-CODEC / Sanitize / M-IV vs the real codecs, logger and backend).
//
// stdin: case lines (see coq/theories/Codec/CodecRun.v for the "codec" format)
//   codec <clear> <showbytes> <base> <dyn> <sig> <fmtk> <nstale> stale... <tylen> <nargs> ty... val...
//   san  bytes...           one std::string argument logged with "{}", what the sink receives
//   iv   ops...             0 x = push_back x ; 1 = clear  -> size, capacity after each op
// stdout, one line per case, same encoding as extract/modelrun:
//   args_size ncache cache... enc_ok [nbytes bytes... dec_ok consumed] reserved
//   - args_size / cache: detail::compute_encoded_size_and_cache_string_lengths on a SizeCacheVector
//     pre-filled with the stale entries
//   - bytes: detail::encode into a zero-filled buffer at (64-aligned address + base)
//   - consumed: detail::decode_and_store_args<Args...> on those bytes, in place
//   - reserved: what LoggerImpl::log_statement took from the SPSC queue for the same arguments
//     (difference of the queue's write position around the call, public API only)
// argv[1] (optional): side file, one line per codec case with the end-to-end text observables:
//   cid strrel cs_ok cs_len cs... nmsg (len bytes...)*nmsg nerr
//   cs = fmtquill::format(fmt, args...) evaluated BEFORE the log call; afterwards the harness
//   overwrites every string the arguments pointed to and destroys the arguments, logs a sentinel
//   statement, and only then lets the (manually driven) backend run.
// -DSIG_PART=k selects the slice of instantiations compiled into this binary (codec_sigs.h).
#include "common.h"

#include <array>
#include <chrono>
#include <cstdlib>
#include <cstring>
#include <deque>
#include <filesystem>
#include <forward_list>
#include <list>
#include <map>
#include <memory>
#include <optional>
#include <set>
#include <string>
#include <string_view>
#include <tuple>
#include <unordered_map>
#include <unordered_set>
#include <vector>
#include <sys/mman.h>

#include "quill/Backend.h"
#include "quill/Frontend.h"
#include "quill/Logger.h"
#include "quill/sinks/Sink.h"
#include "quill/StringRef.h"
#include "quill/DirectFormatCodec.h"
#include "quill/DeferredFormatCodec.h"
#include "quill/std/Array.h"
#include "quill/std/Chrono.h"
#include "quill/std/Deque.h"
#include "quill/std/FilesystemPath.h"
#include "quill/std/ForwardList.h"
#include "quill/std/List.h"
#include "quill/std/Map.h"
#include "quill/std/Optional.h"
#include "quill/std/Pair.h"
#include "quill/std/Set.h"
#include "quill/std/Tuple.h"
#include "quill/std/UnorderedMap.h"
#include "quill/std/UnorderedSet.h"
#include "quill/std/Vector.h"
#include "quill/bundled/fmt/format.h"
#include "quill/bundled/fmt/ranges.h"
#include "quill/bundled/fmt/std.h"
#include "quill/bundled/fmt/chrono.h"

using vh::u64;
namespace fs = std::filesystem;

// ------------------------------------------------------------------ user types
enum E8 : uint8_t { E8_A = 0 };
enum class E32 : int32_t { A = 0 };
inline auto format_as(E8 e) { return static_cast<unsigned>(e); }
inline auto format_as(E32 e) { return static_cast<int32_t>(e); }

struct PodA { uint32_t a; uint16_t b; uint8_t c; uint8_t d; };                    // 8 bytes, memcpy
struct PodB { uint32_t x, y, z; };                                                // 12 bytes, memcpy
struct alignas(16) Al16                                                           // not trivially copyable
{
  uint64_t a{0}, b{0};
  Al16() = default;
  Al16(Al16 const& o) : a(o.a), b(o.b) {}
  Al16& operator=(Al16 const& o) { a = o.a; b = o.b; return *this; }
};
struct Al8
{
  uint64_t a{0}, b{0}, c{0};
  Al8() = default;
  Al8(Al8 const& o) : a(o.a), b(o.b), c(o.c) {}
  Al8& operator=(Al8 const& o) { a = o.a; b = o.b; c = o.c; return *this; }
};
struct DStr { std::string s; uint32_t x{0}; };                                    // owns heap memory
struct DirU { std::string s; };                                                   // formatted on the caller

static_assert(sizeof(PodA) == 8 && sizeof(PodB) == 12 && sizeof(Al16) == 16 && alignof(Al16) == 16 &&
              sizeof(Al8) == 24 && alignof(Al8) == 8 && sizeof(DStr) == 40 && alignof(DStr) == 8, "model widths");

template <> struct fmtquill::formatter<PodA> {
  constexpr auto parse(format_parse_context& ctx) { return ctx.begin(); }
  auto format(PodA const& p, format_context& ctx) const { return fmtquill::format_to(ctx.out(), "PodA({},{},{},{})", p.a, p.b, p.c, p.d); } };
template <> struct fmtquill::formatter<PodB> {
  constexpr auto parse(format_parse_context& ctx) { return ctx.begin(); }
  auto format(PodB const& p, format_context& ctx) const { return fmtquill::format_to(ctx.out(), "PodB({},{},{})", p.x, p.y, p.z); } };
template <> struct fmtquill::formatter<Al16> {
  constexpr auto parse(format_parse_context& ctx) { return ctx.begin(); }
  auto format(Al16 const& p, format_context& ctx) const { return fmtquill::format_to(ctx.out(), "Al16({},{})", p.a, p.b); } };
template <> struct fmtquill::formatter<Al8> {
  constexpr auto parse(format_parse_context& ctx) { return ctx.begin(); }
  auto format(Al8 const& p, format_context& ctx) const { return fmtquill::format_to(ctx.out(), "Al8({},{},{})", p.a, p.b, p.c); } };
template <> struct fmtquill::formatter<DStr> {
  constexpr auto parse(format_parse_context& ctx) { return ctx.begin(); }
  auto format(DStr const& p, format_context& ctx) const { return fmtquill::format_to(ctx.out(), "DStr({},{})", p.s, p.x); } };
template <> struct fmtquill::formatter<DirU> {
  constexpr auto parse(format_parse_context& ctx) { return ctx.begin(); }
  auto format(DirU const& p, format_context& ctx) const { return fmtquill::format_to(ctx.out(), "{}", p.s); } };

template <> struct quill::Codec<PodA> : quill::DeferredFormatCodec<PodA> {};
template <> struct quill::Codec<PodB> : quill::DeferredFormatCodec<PodB> {};
template <> struct quill::Codec<Al16> : quill::DeferredFormatCodec<Al16> {};
template <> struct quill::Codec<Al8> : quill::DeferredFormatCodec<Al8> {};
template <> struct quill::Codec<DStr> : quill::DeferredFormatCodec<DStr> {};
template <> struct quill::Codec<DirU> : quill::DirectFormatCodec<DirU> {};

// ------------------------------------------------------------------ frontend / backend set-up
struct HOpts
{
  static constexpr quill::QueueType queue_type = quill::QueueType::BoundedBlocking;
  static constexpr size_t initial_queue_capacity = 8u * 1024u * 1024u;
  static constexpr uint32_t blocking_queue_retry_interval_ns = 800;
  static constexpr size_t unbounded_queue_max_capacity = 2ull * 1024u * 1024u * 1024u;
  static constexpr quill::HugePagesPolicy huge_pages_policy = quill::HugePagesPolicy::Never;
};
using HFrontend = quill::FrontendImpl<HOpts>;
using HLogger = quill::LoggerImpl<HOpts>;

struct RecSink : quill::Sink
{
  std::vector<std::string> msgs;
  void write_log(quill::MacroMetadata const*, uint64_t, std::string_view, std::string_view, std::string const&,
                 std::string_view, quill::LogLevel, std::string_view, std::string_view,
                 std::vector<std::pair<std::string, std::string>> const*, std::string_view log_message,
                 std::string_view) override
  {
    msgs.emplace_back(log_message);
  }
  void flush_sink() override {}
};

// ------------------------------------------------------------------ case reader / storage
struct Rd
{
  std::vector<u64> const& a;
  size_t i;
  u64 next() { return i < a.size() ? a[i++] : 0; }
};

// storage for everything the arguments point to; stable addresses; overwritten after the log call
struct Arena
{
  std::deque<std::string> strs;
  static inline char* ref_base = nullptr;   // mapped once per process
  size_t ref_cur{0};
  char* str(Rd& r, size_t n)                      // n bytes + terminator
  {
    strs.emplace_back(n, '\0');
    std::string& s = strs.back();
    for (size_t k = 0; k < n; ++k) s[k] = static_cast<char>(r.next());
    return s.data();
  }
  void scribble()
  {
    for (auto& s : strs) for (auto& c : s) c = '#';
  }
  // StringRef targets live at a fixed address so that the encoded pointer is reproducible
  static constexpr uintptr_t REF_ADDR = 0x200000000000ull;
  static constexpr size_t REF_SIZE = 1u << 22;
  char* ref(Rd& r, size_t n)
  {
    if (!ref_base)
    {
      void* p = mmap(reinterpret_cast<void*>(REF_ADDR), REF_SIZE, PROT_READ | PROT_WRITE,
                     MAP_PRIVATE | MAP_ANONYMOUS | MAP_FIXED_NOREPLACE, -1, 0);
      if (p != reinterpret_cast<void*>(REF_ADDR)) { fprintf(stderr, "cannot map the StringRef arena\n"); std::abort(); }
      ref_base = static_cast<char*>(p);
    }
    char* d = ref_base + ref_cur;
    for (size_t k = 0; k < n; ++k) d[k] = static_cast<char>(r.next());
    d[n] = '\0';
    ref_cur += n + 1;
    return d;
  }
};

template <class T> struct is_tuple : std::false_type {};
template <class... Ts> struct is_tuple<std::tuple<Ts...>> : std::true_type {};

// Mk<T>::make : build a T from the value encoding of the case line
template <class T, class = void> struct Mk;

template <class T>
struct Mk<T, std::enable_if_t<std::is_arithmetic_v<T> || std::is_enum_v<T> || std::is_same_v<T, PodA> || std::is_same_v<T, PodB>>>
{
  static T make(Rd& r, Arena&)
  {
    unsigned char b[sizeof(T)];
    for (auto& x : b) x = static_cast<unsigned char>(r.next());
    T v; std::memcpy(&v, b, sizeof(T)); return v;
  }
};
template <> struct Mk<void const*> {
  static void const* make(Rd& r, Arena&) { uintptr_t v = 0; for (int k = 0; k < 8; ++k) v |= static_cast<uintptr_t>(r.next() & 0xff) << (8 * k); return reinterpret_cast<void const*>(v); } };
template <> struct Mk<char const*> {
  static char const* make(Rd& r, Arena& ar) { if (r.next() == 0) return nullptr; size_t n = r.next(); return ar.str(r, n); } };
template <> struct Mk<char*> {
  static char* make(Rd& r, Arena& ar) { if (r.next() == 0) return nullptr; size_t n = r.next(); return ar.str(r, n); } };
template <> struct Mk<std::string> {
  static std::string make(Rd& r, Arena&) { size_t n = r.next(); std::string s(n, '\0'); for (size_t k = 0; k < n; ++k) s[k] = static_cast<char>(r.next()); return s; } };
template <> struct Mk<std::string_view> {
  static std::string_view make(Rd& r, Arena& ar) { size_t n = r.next(); return std::string_view{ar.str(r, n), n}; } };
template <> struct Mk<fs::path> {
  static fs::path make(Rd& r, Arena& ar) { return fs::path{Mk<std::string>::make(r, ar)}; } };
template <> struct Mk<DirU> {
  static DirU make(Rd& r, Arena& ar) { return DirU{Mk<std::string>::make(r, ar)}; } };
template <> struct Mk<quill::utility::StringRef> {
  static quill::utility::StringRef make(Rd& r, Arena& ar) { r.next(); /* p, predicted by the generator */ size_t n = r.next(); return quill::utility::StringRef{ar.ref(r, n), n}; } };
template <> struct Mk<Al16> {
  static Al16 make(Rd& r, Arena&) { unsigned char b[16]; for (auto& x : b) x = static_cast<unsigned char>(r.next()); Al16 v; std::memcpy(&v.a, b, 8); std::memcpy(&v.b, b + 8, 8); return v; } };
template <> struct Mk<Al8> {
  static Al8 make(Rd& r, Arena&) { unsigned char b[24]; for (auto& x : b) x = static_cast<unsigned char>(r.next()); Al8 v; std::memcpy(&v.a, b, 8); std::memcpy(&v.b, b + 8, 8); std::memcpy(&v.c, b + 16, 8); return v; } };
template <> struct Mk<DStr> {   // 40 value bytes: 32 of string content, 4 of x, 4 ignored (object representation is opaque)
  static DStr make(Rd& r, Arena&) { DStr v; v.s.resize(32); for (auto& c : v.s) c = static_cast<char>(r.next()); unsigned char b[4]; for (auto& x : b) x = static_cast<unsigned char>(r.next()); std::memcpy(&v.x, b, 4); for (int k = 0; k < 4; ++k) r.next(); return v; } };
template <class Rep, class Period> struct Mk<std::chrono::duration<Rep, Period>> {
  static std::chrono::duration<Rep, Period> make(Rd& r, Arena& ar) { return std::chrono::duration<Rep, Period>{Mk<Rep>::make(r, ar)}; } };

template <class C, class E> struct MkSeq {
  static C make(Rd& r, Arena& ar) { size_t n = r.next(); C c; for (size_t k = 0; k < n; ++k) c.insert(c.end(), Mk<E>::make(r, ar)); return c; } };
template <class T, class A> struct Mk<std::vector<T, A>> : MkSeq<std::vector<T, A>, T> {};
template <class T, class A> struct Mk<std::deque<T, A>> : MkSeq<std::deque<T, A>, T> {};
template <class T, class A> struct Mk<std::list<T, A>> : MkSeq<std::list<T, A>, T> {};
template <class T, class C, class A> struct Mk<std::set<T, C, A>> : MkSeq<std::set<T, C, A>, T> {};
template <class T, class C, class A> struct Mk<std::multiset<T, C, A>> : MkSeq<std::multiset<T, C, A>, T> {};
template <class T, class H, class Q, class A> struct Mk<std::unordered_set<T, H, Q, A>> : MkSeq<std::unordered_set<T, H, Q, A>, T> {};
template <class T, class A> struct Mk<std::forward_list<T, A>> {
  static std::forward_list<T, A> make(Rd& r, Arena& ar) { size_t n = r.next(); std::forward_list<T, A> c; auto it = c.before_begin(); for (size_t k = 0; k < n; ++k) it = c.insert_after(it, Mk<T>::make(r, ar)); return c; } };
template <class M, class K, class V> struct MkMap {
  static M make(Rd& r, Arena& ar) { size_t n = r.next(); M m; for (size_t k = 0; k < n; ++k) { K key = Mk<K>::make(r, ar); V val = Mk<V>::make(r, ar); m.insert(m.end(), std::pair<K const, V>(std::move(key), std::move(val))); } return m; } };
template <class K, class V, class C, class A> struct Mk<std::map<K, V, C, A>> : MkMap<std::map<K, V, C, A>, K, V> {};
template <class K, class V, class C, class A> struct Mk<std::multimap<K, V, C, A>> : MkMap<std::multimap<K, V, C, A>, K, V> {};
template <class K, class V, class H, class Q, class A> struct Mk<std::unordered_map<K, V, H, Q, A>> {
  static std::unordered_map<K, V, H, Q, A> make(Rd& r, Arena& ar) { size_t n = r.next(); std::unordered_map<K, V, H, Q, A> m; for (size_t k = 0; k < n; ++k) { K key = Mk<K>::make(r, ar); V val = Mk<V>::make(r, ar); m.emplace(std::move(key), std::move(val)); } return m; } };
template <class T, size_t N> struct Mk<std::array<T, N>> {
  static std::array<T, N> make(Rd& r, Arena& ar) { std::array<T, N> a{}; for (size_t k = 0; k < N; ++k) a[k] = Mk<T>::make(r, ar); return a; } };
template <class T> struct Mk<std::optional<T>> {
  static std::optional<T> make(Rd& r, Arena& ar) { if (r.next() == 0) return std::nullopt; return std::optional<T>{Mk<T>::make(r, ar)}; } };
template <class A, class B> struct Mk<std::pair<A, B>> {
  static std::pair<A, B> make(Rd& r, Arena& ar) { A a = Mk<A>::make(r, ar); B b = Mk<B>::make(r, ar); return std::pair<A, B>(std::move(a), std::move(b)); } };
template <class... Ts> struct Mk<std::tuple<Ts...>> {
  static std::tuple<Ts...> make(Rd& r, Arena& ar) { return std::tuple<Ts...>{Mk<Ts>::make(r, ar)...}; } };   // braces: left to right

// Holder<T>: owns one argument; get() = what is passed to the logger, view() = what the caller's
// own formatting is given (a C string / char array as the string it denotes)
template <class T> struct Holder
{
  T v;
  Holder(Rd& r, Arena& ar) : v(Mk<T>::make(r, ar)) {}
  T& get() { return v; }
  T const& view() const { return v; }
};
template <> struct Holder<char const*>
{
  char const* v;
  Holder(Rd& r, Arena& ar) : v(Mk<char const*>::make(r, ar)) {}
  char const*& get() { return v; }
  std::string_view view() const { return v ? std::string_view{v} : std::string_view{}; }
};
template <> struct Holder<char*>
{
  char* v;
  Holder(Rd& r, Arena& ar) : v(Mk<char*>::make(r, ar)) {}
  char*& get() { return v; }
  std::string_view view() const { return v ? std::string_view{v} : std::string_view{}; }
};
template <> struct Holder<quill::utility::StringRef>
{
  quill::utility::StringRef v;
  Holder(Rd& r, Arena& ar) : v(Mk<quill::utility::StringRef>::make(r, ar)) {}
  quill::utility::StringRef& get() { return v; }
  std::string_view view() const { return v.get_string_view(); }
};
template <> struct Holder<std::tuple<quill::utility::StringRef, int32_t>>
{
  std::tuple<quill::utility::StringRef, int32_t> v;
  Holder(Rd& r, Arena& ar) : v(Mk<std::tuple<quill::utility::StringRef, int32_t>>::make(r, ar)) {}
  std::tuple<quill::utility::StringRef, int32_t>& get() { return v; }
  std::tuple<std::string_view, int32_t> view() const { return {std::get<0>(v).get_string_view(), std::get<1>(v)}; }
};
template <size_t N> struct Holder<char[N]>
{
  char v[N];
  Holder(Rd& r, Arena&) { for (size_t k = 0; k < N; ++k) v[k] = static_cast<char>(r.next()); }
  char (&get())[N] { return v; }
  std::string_view view() const { return std::string_view{v, strnlen(v, N)}; }
};
template <size_t M, size_t N> struct Holder<char[M][N]>
{
  char v[M][N];
  Holder(Rd& r, Arena&) { for (size_t j = 0; j < M; ++j) for (size_t k = 0; k < N; ++k) v[j][k] = static_cast<char>(r.next()); }
  char (&get())[M][N] { return v; }
  std::array<std::string_view, M> view() const { std::array<std::string_view, M> a; for (size_t j = 0; j < M; ++j) a[j] = std::string_view{v[j], strnlen(v[j], N)}; return a; }
};
template <class T, size_t N> struct Holder<T[N]>
{
  T v[N];
  Holder(Rd& r, Arena& ar) { for (size_t k = 0; k < N; ++k) v[k] = Mk<T>::make(r, ar); }
  T (&get())[N] { return v; }
  T const (&view() const)[N] { return v; }
};

// ------------------------------------------------------------------ globals
static quill::ManualBackendWorker* g_mbw = nullptr;
static HLogger* g_logger = nullptr;
static RecSink* g_sink = nullptr;
static quill::detail::ThreadContext* g_ctx = nullptr;
static size_t g_nerr = 0;
static FILE* g_side = nullptr;

static std::string make_fmt(u64 fmtk, size_t nargs)
{
  std::string f;
  switch (fmtk % 4)
  {
  case 0: for (size_t k = 0; k < nargs; ++k) { if (k) f += ' '; f += "{}"; } if (!nargs) f = "plain"; break;
  case 1: f = "T"; for (size_t k = 0; k < nargs; ++k) f += "\t{}|"; break;
  case 2: f = "{{}}"; for (size_t k = 0; k < nargs; ++k) f += "[{}]"; break;
  default: f = "\x01\x7f"; for (size_t k = 0; k < nargs; ++k) f += "{}\xc3\xa9"; break;
  }
  return f;
}

static void put_bytes(std::vector<u64>& o, char const* d, size_t n)
{
  o.push_back(n);
  for (size_t k = 0; k < n; ++k) o.push_back(static_cast<unsigned char>(d[k]));
}

template <bool WithDyn, class... Ts>
static void run_case(std::vector<u64> const& a)
{
  std::vector<u64> out, side;
  size_t i = 0;
  u64 const showbytes = a[1], base = a[2] % 64, dyn = a[3], cid = a[4] >> 16, fmtk = a[5], nstale = a[6];
  i = 7;
  std::vector<uint32_t> stale0;
  for (u64 k = 0; k < nstale; ++k) stale0.push_back(static_cast<uint32_t>(a[i++]));
  u64 const tylen = a[i++];
  u64 const nargs = a[i++];
  i += tylen;
  if (nargs != sizeof...(Ts)) { out.push_back(18446744073709551615ull); vh::print_line(out); return; }

  Arena arena;
  Rd rd{a, i};
  using Pack = std::tuple<Holder<Ts>...>;
  auto pack = std::unique_ptr<Pack>(new Pack{Holder<Ts>(rd, arena)...});
  std::string const fmt = make_fmt(fmtk, sizeof...(Ts));

  // ---- (0) the caller's own formatting, before anything else
  std::string cs; bool cs_ok = true;
  try
  {
    cs = std::apply([&](auto&... h) { return fmtquill::format(fmtquill::runtime(fmt), h.view()...); }, *pack);
  }
  catch (std::exception const&) { cs_ok = false; }

  // ---- (1) size pass + encode pass on a private cache / buffer
  quill::detail::SizeCacheVector cache;
  for (uint32_t x : stale0) cache.push_back(x);
  size_t const sz = std::apply([&](auto&... h) { return quill::detail::compute_encoded_size_and_cache_string_lengths(cache, h.get()...); }, *pack);
  out.push_back(sz);
  out.push_back(cache.size());
  for (size_t k = 0; k < cache.size(); ++k) out.push_back(cache[k]);

  size_t const slack = 4096;
  size_t const buf_len = ((sz + base + slack + 63) / 64) * 64;
  std::byte* buf = static_cast<std::byte*>(std::aligned_alloc(64, buf_len));
  std::memset(buf, 0, buf_len);
  std::byte* const start = buf + base;
  std::byte* p = start;
  bool enc_ok = true;
  try
  {
    std::apply([&](auto&... h) { quill::detail::encode(p, cache, h.get()...); }, *pack);
  }
  catch (std::exception const&) { enc_ok = false; }
  bool strrel = false;
  bool unit_ok = enc_ok;
  if (!enc_ok) { out.push_back(0); }
  else
  {
    size_t const written = static_cast<size_t>(p - start);
    out.push_back(1);
    out.push_back(written);
    if (showbytes) for (size_t k = 0; k < written; ++k) out.push_back(static_cast<unsigned char>(start[k]));
    // ---- (2) the real decoder on those bytes, in place
    std::byte* q = start;
    quill::DynamicFormatArgStore store;
    quill::detail::decode_and_store_args<quill::detail::remove_cvref_t<Ts>...>(q, store);
    strrel = store.has_string_related_type();
    out.push_back(1);
    out.push_back(static_cast<size_t>(q - start));
    unit_ok = (written == sz) && (static_cast<size_t>(q - start) == written);
  }
  std::free(buf);
  if (!unit_ok)
  {
    // reserved != written or written != consumed: the real queue would be corrupted by this
    // statement; report the unit-level numbers only (reserved = "not run")
    out.push_back(18446744073709551611ull);
    vh::print_line(out);
    return;
  }

  // ---- (3) end to end through the logger, the queue and the backend
  auto& queue = g_ctx->get_spsc_queue<HOpts::queue_type>();
  g_sink->msgs.clear();
  size_t const nerr0 = g_nerr;
  quill::MacroMetadata const md{"codec.cpp:1", "harness", fmt.c_str(), nullptr,
                                WithDyn && dyn ? quill::LogLevel::Dynamic : quill::LogLevel::Info, quill::MacroMetadata::Event::Log};
  static constexpr quill::MacroMetadata md_sentinel{"codec.cpp:2", "harness", "S {}", nullptr, quill::LogLevel::Info, quill::MacroMetadata::Event::Log};
  std::byte* const w0 = queue.prepare_write(0);
  if constexpr (WithDyn)
  {
    if (dyn)
      std::apply([&](auto&... h) { g_logger->template log_statement<false, true>(static_cast<quill::LogLevel>(dyn - 1), &md, h.get()...); }, *pack);
    else
      std::apply([&](auto&... h) { g_logger->template log_statement<false, false>(quill::LogLevel::None, &md, h.get()...); }, *pack);
  }
  else
  {
    std::apply([&](auto&... h) { g_logger->template log_statement<false, false>(quill::LogLevel::None, &md, h.get()...); }, *pack);
  }
  std::byte* const w1 = queue.prepare_write(0);
  size_t const cap = queue.capacity();
  out.push_back(static_cast<size_t>((w1 - w0 + static_cast<std::ptrdiff_t>(cap)) % static_cast<std::ptrdiff_t>(cap)));
  vh::print_line(out);

  // the caller now overwrites / destroys everything the arguments referred to
  arena.scribble();
  pack.reset();
  int sentinel = 424242;
  g_logger->template log_statement<false, false>(quill::LogLevel::None, &md_sentinel, sentinel);
  g_mbw->poll();

  if (g_side)
  {
    side.push_back(cid);
    side.push_back(strrel ? 1 : 0);
    side.push_back(cs_ok ? 1 : 0);
    put_bytes(side, cs.data(), cs.size());
    side.push_back(g_sink->msgs.size());
    for (auto const& m : g_sink->msgs) put_bytes(side, m.data(), m.size());
    side.push_back(g_nerr - nerr0);
    std::string s;
    for (size_t k = 0; k < side.size(); ++k) { if (k) s += ' '; s += std::to_string(side[k]); }
    s += '\n';
    fwrite(s.data(), 1, s.size(), g_side);
    fflush(g_side);
  }
}

static void run_san(std::vector<u64> const& a)
{
  std::string s(a.size(), '\0');
  for (size_t k = 0; k < a.size(); ++k) s[k] = static_cast<char>(a[k]);
  // "|" after the payload: the backend drops one trailing newline of a message, which is not the sanitiser's doing
  static constexpr quill::MacroMetadata md{"codec.cpp:3", "harness", "{}|", nullptr, quill::LogLevel::Info, quill::MacroMetadata::Event::Log};
  g_sink->msgs.clear();
  g_logger->template log_statement<false, false>(quill::LogLevel::None, &md, s);
  for (auto& c : s) c = '#';
  g_mbw->poll();
  std::vector<u64> out;
  if (g_sink->msgs.size() == 1 && !g_sink->msgs[0].empty() && g_sink->msgs[0].back() == '|')
    for (size_t k = 0; k + 1 < g_sink->msgs[0].size(); ++k) out.push_back(static_cast<unsigned char>(g_sink->msgs[0][k]));
  else out.push_back(18446744073709551615ull);
  vh::print_line(out);
}

static void run_iv(std::vector<u64> const& a)
{
  quill::detail::SizeCacheVector v;
  std::vector<u64> out;
  size_t i = 0;
  while (i < a.size())
  {
    if (a[i] == 0 && i + 1 < a.size()) { v.push_back(static_cast<uint32_t>(a[i + 1])); i += 2; }
    else if (a[i] == 1) { v.clear(); i += 1; }
    else break;
    out.push_back(v.size()); out.push_back(v.capacity());
  }
  vh::print_line(out);
}

#ifndef SIG_PART
  #define SIG_PART 0
#endif

static bool dispatch_sig(u64 sig, std::vector<u64> const& a)
{
  switch (sig)
  {
#include "codec_sigs.h"
  default: return false;
  }
  return true;
}

int main(int argc, char** argv)
{
  if (argc > 1) g_side = fopen(argv[1], "a");
  g_mbw = quill::Backend::acquire_manual_backend_worker();
  quill::BackendOptions bo;
  bo.error_notifier = [](std::string const&) { ++g_nerr; };
  bo.log_timestamp_ordering_grace_period = std::chrono::microseconds{0};
  g_mbw->init(bo);
  auto sink = HFrontend::create_or_get_sink<RecSink>("rec");
  g_sink = static_cast<RecSink*>(sink.get());
  quill::PatternFormatterOptions pfo;
  pfo.add_metadata_to_multi_line_logs = false;   // one write_log per statement (a trailing newline is dropped by the backend)
  g_logger = HFrontend::create_or_get_logger("l", sink, pfo, quill::ClockSourceType::System);
  g_ctx = quill::detail::get_local_thread_context<HOpts>();

  std::string model; std::vector<u64> a;
  while (vh::read_case(model, a))
  {
    if (model == "codec")
    {
      if (a.size() < 9 || !dispatch_sig(a[4] & 0xffff, a)) { std::vector<u64> o{18446744073709551614ull}; vh::print_line(o); }
    }
    else if (model == "san") run_san(a);
    else if (model == "iv") run_iv(a);
    else { std::vector<u64> o{18446744073709551613ull}; vh::print_line(o); }
  }
  if (g_side) fclose(g_side);
  fflush(stdout);
  std::_Exit(0);
}
