// T-corr harness for C02 / C09 (unbounded clause): drives the real quill::detail::UnboundedSPSCQueue
// with the composite ops of Queue/UQDefs.v (single thread) and prints API-level observations.
// case: uq <on_batch> <on_drain> <recheck> <commit_before_delete> <pct> <initial> <max> ops...
//   (the first five numbers only select the model variant; the implementation is what /repo has)
//   ops: 0 n c = W  (prepare_write n; if granted: fill, finish_write n, commit_write iff c)
//        1     = commit_write      2 = R (prepare_read; if non-null: check + finish_read of the oldest record)
//        3     = commit_read       4 = empty()          5 c = shrink(c)
// observations per op:
//   W : kind(0 null,1 ptr,2 throw) offset producer_capacity() #node-allocations
//   R : kind(0 null,1 ptr) offset size allocation new_capacity previous_capacity capacity() #node-frees
//   E : 0/1          shrink : producer_capacity() #node-allocations
// trailer: #allocs cap... #frees cap... live-nodes-after-destruction
// Node allocations are measured twice: the over-aligned operator new/delete used for `new Node`
// (replaced below; backed by aligned_alloc so ASan still poisons freed nodes) and the mmap/munmap
// calls of BoundedSPSCQueue::_alloc_aligned (wrapped at link time with -Wl,--wrap=mmap,--wrap=munmap;
// the capacity is recovered from the mapping size). A disagreement between the two counts, a
// payload mismatch, or an offset outside the node append the markers below.
#include "common.h"
#include <cstdlib>
#include <cstring>
#include <deque>
#include <map>
#include <new>
#include <sys/mman.h>

static long g_node_new = 0, g_node_del = 0;
static std::vector<vh::u64> g_maps, g_unmaps;
static std::map<void*, size_t> g_live_maps;
static constexpr size_t NODE_ALIGN = 128; // QUILL_CACHE_LINE_ALIGNED; checked against quill below

void* operator new(std::size_t n, std::align_val_t a)
{
  void* p = aligned_alloc(static_cast<size_t>(a), (n + static_cast<size_t>(a) - 1) / static_cast<size_t>(a) * static_cast<size_t>(a));
  if (!p) throw std::bad_alloc();
  if (static_cast<size_t>(a) >= NODE_ALIGN) ++g_node_new;
  return p;
}
void operator delete(void* p, std::align_val_t a) noexcept
{
  if (p && static_cast<size_t>(a) >= NODE_ALIGN) ++g_node_del;
  free(p);
}
void operator delete(void* p, std::size_t, std::align_val_t a) noexcept { operator delete(p, a); }

extern "C" void* __real_mmap(void*, size_t, int, int, int, off_t);
extern "C" int __real_munmap(void*, size_t);
extern "C" void* __wrap_mmap(void* addr, size_t len, int prot, int flags, int fd, off_t off)
{
  void* p = __real_mmap(addr, len, prot, flags, fd, off);
  if (p != MAP_FAILED)
  {
    g_live_maps[p] = len;
    g_maps.push_back((len - 2 * sizeof(size_t) - NODE_ALIGN) / 2);
  }
  return p;
}
extern "C" int __wrap_munmap(void* addr, size_t len)
{
  auto it = g_live_maps.find(addr);
  if (it != g_live_maps.end())
  {
    g_unmaps.push_back((it->second - 2 * sizeof(size_t) - NODE_ALIGN) / 2);
    g_live_maps.erase(it);
  }
  return __real_munmap(addr, len);
}

#include "quill/core/UnboundedSPSCQueue.h"
using namespace quill::detail;
static_assert(quill::detail::QUILL_CACHE_LINE_ALIGNED == NODE_ALIGN, "node alignment changed");

static constexpr vh::u64 MARK_PAYLOAD = 999999999ull, MARK_COUNT = 888888888ull, MARK_OFFSET = 777777777ull;

static void run_case(std::vector<vh::u64> const& a, std::vector<vh::u64>& out)
{
  g_node_new = g_node_del = 0; g_maps.clear(); g_unmaps.clear(); g_live_maps.clear();
  vh::u64 const initial = a[5], maxc = a[6];
  {
    UnboundedSPSCQueue q(static_cast<size_t>(initial), static_cast<size_t>(maxc));
    struct Rec { vh::u64 n; unsigned char tag; };
    std::deque<Rec> fifo;
    std::map<long, std::byte*> base; // node index -> pointer of its first grant (logical position 0)
    unsigned char tag = 1;
    size_t unc = 0; // records finished but not yet committed (they are abandoned by a shrink that takes effect)
    size_t i = 7;
    auto counts_ok = [&] { return g_node_new == static_cast<long>(g_maps.size()) && g_node_del == static_cast<long>(g_unmaps.size()); };
    while (i < a.size())
    {
      vh::u64 op = a[i];
      if (op == 0 && i + 2 < a.size())
      {
        vh::u64 n = a[i + 1]; bool c = a[i + 2] != 0; i += 3;
        std::byte* p = nullptr; vh::u64 kind = 0;
        try { p = q.prepare_write(static_cast<size_t>(n)); kind = p ? 1 : 0; }
        catch (quill::QuillError const&) { kind = 2; }
        vh::u64 off = 0;
        if (kind == 1)
        {
          long node = static_cast<long>(g_maps.size()) - 1;
          if (!base.count(node)) unc = 0; // a new node: _handle_full_queue committed the old one
          if (!base.count(node)) base[node] = p;
          off = static_cast<vh::u64>(p - base[node]);
          std::memset(p, tag, n);
          fifo.push_back({n, tag}); tag = static_cast<unsigned char>(tag == 255 ? 1 : tag + 1);
          q.finish_write(static_cast<size_t>(n));
          if (c) { q.commit_write(); unc = 0; } else ++unc;
        }
        out.push_back(kind); out.push_back(off); out.push_back(q.producer_capacity()); out.push_back(g_maps.size());
        if (kind == 1 && off + n > 2 * q.producer_capacity()) out.push_back(MARK_OFFSET);
        if (!counts_ok()) out.push_back(MARK_COUNT);
      }
      else if (op == 1) { q.commit_write(); unc = 0; i += 1; }
      else if (op == 2)
      {
        i += 1;
        UnboundedSPSCQueue::ReadResult rr = q.prepare_read();
        long node = static_cast<long>(g_unmaps.size());
        vh::u64 off = 0, size = 0; bool ok = true, offok = true;
        if (rr.read_pos)
        {
          if (base.count(node)) off = static_cast<vh::u64>(rr.read_pos - base[node]); else offok = false;
          if (!fifo.empty())
          {
            Rec r = fifo.front(); fifo.pop_front(); size = r.n;
            for (vh::u64 j = 0; j < r.n; ++j) ok = ok && (static_cast<unsigned char>(rr.read_pos[j]) == r.tag);
            q.finish_read(static_cast<size_t>(r.n));
          }
        }
        out.push_back(rr.read_pos ? 1 : 0); out.push_back(off); out.push_back(size);
        out.push_back(rr.allocation ? 1 : 0); out.push_back(rr.new_capacity); out.push_back(rr.previous_capacity);
        out.push_back(q.capacity()); out.push_back(g_unmaps.size());
        if (!ok) out.push_back(MARK_PAYLOAD);
        if (!offok) out.push_back(MARK_OFFSET);
        if (!counts_ok()) out.push_back(MARK_COUNT);
      }
      else if (op == 3) { q.commit_read(); i += 1; }
      else if (op == 4) { out.push_back(q.empty() ? 1 : 0); i += 1; }
      else if (op == 5 && i + 1 < a.size())
      {
        size_t const before = g_maps.size();
        q.shrink(static_cast<size_t>(a[i + 1])); i += 2;
        if (g_maps.size() != before) { while (unc > 0 && !fifo.empty()) { fifo.pop_back(); --unc; } unc = 0; }
        out.push_back(q.producer_capacity()); out.push_back(g_maps.size());
        if (!counts_ok()) out.push_back(MARK_COUNT);
      }
      else break;
    }
    out.push_back(g_maps.size()); for (auto c : g_maps) out.push_back(c);
    out.push_back(g_unmaps.size()); for (auto c : g_unmaps) out.push_back(c);
  }
  out.push_back(static_cast<vh::u64>(g_node_new - g_node_del));
  if (g_maps.size() != g_unmaps.size()) out.push_back(MARK_COUNT);
}

int main()
{
  std::string model; std::vector<vh::u64> a;
  while (vh::read_case(model, a))
  {
    std::vector<vh::u64> out;
    if (a.size() >= 7) run_case(a, out);
    vh::print_line(out);
  }
  return 0;
}
