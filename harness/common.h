// Shared helpers for the correspondence harnesses. Each harness reads case lines
// "<model> <int> <int> ..." on stdin, drives the real quill code and prints one line of space
// separated integers per case (same format as extract/modelrun), flushed per case.
#pragma once
#include <cstdint>
#include <cstdio>
#include <iostream>
#include <sstream>
#include <string>
#include <vector>

namespace vh
{
using u64 = unsigned long long;
inline bool read_case(std::string& model, std::vector<u64>& args)
{
  std::string line;
  while (std::getline(std::cin, line))
  {
    if (line.empty() || line[0] == '#') continue;
    std::istringstream is(line);
    is >> model;
    args.clear();
    std::string tok;
    while (is >> tok) args.push_back(std::stoull(tok));
    return true;
  }
  return false;
}
inline void print_line(std::vector<u64> const& out)
{
  std::string s;
  for (size_t i = 0; i < out.size(); ++i)
  {
    if (i) s += ' ';
    s += std::to_string(out[i]);
  }
  s += '\n';
  fwrite(s.data(), 1, s.size(), stdout);
  fflush(stdout);
}
} // namespace vh
