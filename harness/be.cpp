// Deterministic driver for the quill backend (T-corr for the M-BE family: C03 C05 C06 C08 C10 C16 C20).
// One OS thread runs at any time: the coordinator (main thread) owns the backend through
// ManualBackendWorker::poll_one(); logical frontend threads are real OS threads (they need their own
// thread_local context) that execute one command at a time and then park. A frontend call that would
// sleep (blocked producer retry loop, flush_log wait loop) parks in the interposed nanosleep; a
// "stalled" log call parks in the interposed clock_gettime right after its timestamp was taken. The
// QUILL_VERIF yield points let the coordinator run frontend commands inside a poll.
// Time is virtual (interposed clock_gettime(CLOCK_REALTIME)).
//
// case line: see Backend/BEExec.v (be_run_enc). Output: the observation stream (same encoding).
#include "common.h"

#include <atomic>
#include <condition_variable>
#include <cstring>
#include <ctime>
#include <dlfcn.h>
#include <map>
#include <mutex>
#include <thread>

#include "quill/Backend.h"
#include "quill/Frontend.h"
#include "quill/Logger.h"
#include "quill/DeferredFormatCodec.h"
#include "quill/sinks/Sink.h"
#include "quill/filters/Filter.h"
#include "quill/core/ThreadContextManager.h"

using vh::u64;

// ------------------------------------------------------------------ virtual time + parking
static std::atomic<long long> g_clock{1700000000000000000LL};
static std::atomic<long long> g_clock0{1700000000000000000LL};
static std::atomic<long long> g_mono_base{0};
static std::atomic<bool> g_mono_on{false};
static std::atomic<long long> g_stop_tick{0};

struct Worker;
static thread_local Worker* tl_worker = nullptr;

struct Worker
{
  std::thread th;
  std::mutex m;
  std::condition_variable cv;
  enum State { IDLE, RUN, PARKED, RESUME, DONE, QUIT } state{IDLE};
  std::function<void()> cmd;
  bool stall_next_clock{false};
  bool in_cmd{false};
  long result{-1};

  void park()
  {
    std::unique_lock<std::mutex> lk(m);
    state = PARKED;
    cv.notify_all();
    cv.wait(lk, [this] { return state == RESUME; });
    state = RUN;
  }
};

extern "C" int clock_gettime(clockid_t id, struct timespec* ts) noexcept
{
  using fn = int (*)(clockid_t, struct timespec*);
  static fn real = reinterpret_cast<fn>(dlsym(RTLD_NEXT, "clock_gettime"));
  if (id == CLOCK_MONOTONIC && g_mono_on.load())
  {
    // the steady clock advances with the virtual clock; every case starts far after the previous one
    long long m = g_mono_base.load() + (g_clock.load() - g_clock0.load());
    ts->tv_sec = m / 1000000000LL;
    ts->tv_nsec = m % 1000000000LL;
    return 0;
  }
  if (id != CLOCK_REALTIME) return real(id, ts);
  // inside the stop command real time passes while the drain loop spins: d ticks per look at the clock
  if (!tl_worker && g_stop_tick.load()) g_clock.fetch_add(g_stop_tick.load());
  long long now = g_clock.load();
  ts->tv_sec = now / 1000000000LL;
  ts->tv_nsec = now % 1000000000LL;
  if (tl_worker && tl_worker->in_cmd && tl_worker->stall_next_clock)
  {
    tl_worker->stall_next_clock = false;
    tl_worker->park();
  }
  return 0;
}

static int park_sleep()
{
  if (tl_worker && tl_worker->in_cmd) { tl_worker->park(); return 0; }
  return -1;
}
extern "C" int nanosleep(const struct timespec* req, struct timespec* rem)
{
  using fn = int (*)(const struct timespec*, struct timespec*);
  static fn real = reinterpret_cast<fn>(dlsym(RTLD_NEXT, "nanosleep"));
  if (park_sleep() == 0) return 0;
  return real(req, rem);
}
extern "C" int clock_nanosleep(clockid_t id, int flags, const struct timespec* req, struct timespec* rem)
{
  using fn = int (*)(clockid_t, int, const struct timespec*, struct timespec*);
  static fn real = reinterpret_cast<fn>(dlsym(RTLD_NEXT, "clock_nanosleep"));
  if (park_sleep() == 0) return 0;
  return real(id, flags, req, rem);
}

// ------------------------------------------------------------------ BackendWorker::_exit (private) for the stop command
// explicit instantiation may name private members: the standard way to reach them without touching the class
static quill::detail::BackendWorker*& verif_backend_worker(quill::ManualBackendWorker& m);
static void verif_backend_exit(quill::detail::BackendWorker& b);
template <auto Member, auto Exit>
struct VerifAccess
{
  friend quill::detail::BackendWorker*& verif_backend_worker(quill::ManualBackendWorker& m) { return m.*Member; }
  friend void verif_backend_exit(quill::detail::BackendWorker& b) { (b.*Exit)(); }
};
template struct VerifAccess<&quill::ManualBackendWorker::_backend_worker, &quill::detail::BackendWorker::_exit>;

// ------------------------------------------------------------------ observation stream
static std::vector<u64> g_obs;
static void obs(std::initializer_list<u64> l) { g_obs.insert(g_obs.end(), l); }

// ------------------------------------------------------------------ the statement payload
struct Thrower
{
  int id;
  int mode; // 0 prints id, 1 throws std::runtime_error, 2 throws int
};
template <>
struct fmtquill::formatter<Thrower>
{
  constexpr auto parse(format_parse_context& ctx) { return ctx.begin(); }
  auto format(Thrower const& t, format_context& ctx) const
  {
    if (t.mode == 1) throw std::runtime_error("verif formatter failure");
    if (t.mode == 2)
    {
      // part of the text is already in the output buffer when the formatter fails: none of it may reach a sink
      fmtquill::format_to(ctx.out(), "{}:", t.id);
      throw 42;
    }
    return fmtquill::format_to(ctx.out(), "{}:", t.id);
  }
};
template <>
struct quill::Codec<Thrower> : quill::DeferredFormatCodec<Thrower>
{
};

// what each statement's text after "<id>:" must be (filled when the statement is issued): the sink checks that the
// payload arrived intact (a corrupted payload is reported as note kind 7, which the model never produces)
static std::mutex g_expect_m;
static std::map<u64, std::string> g_expect;
static void expect_payload(u64 id, std::string text)
{
  std::lock_guard<std::mutex> lk(g_expect_m);
  g_expect[id] = std::move(text);
}

// ------------------------------------------------------------------ recording sink
class RecSink : public quill::Sink
{
public:
  RecSink(u64 idx, std::vector<u64> throw_plan) : _idx(idx), _plan(std::move(throw_plan)) {}
  void write_log(quill::MacroMetadata const*, uint64_t, std::string_view, std::string_view, std::string const&,
                 std::string_view, quill::LogLevel level, std::string_view, std::string_view,
                 std::vector<std::pair<std::string, std::string>> const* named, std::string_view msg, std::string_view) override
  {
    u64 call = _calls++;
    for (u64 p : _plan)
      if (p == call) throw std::runtime_error("verif sink failure");
    u64 id = 0;
    size_t i = 0;
    while (i < msg.size() && msg[i] >= '0' && msg[i] <= '9') { id = id * 10 + static_cast<u64>(msg[i] - '0'); ++i; }
    if (i == 0 || i >= msg.size() || msg[i] != ':') id = 0; // error text instead of the payload
    obs({1, _idx, id, static_cast<u64>(level), static_cast<u64>(named ? named->size() : 0)});
    if (id != 0)
    {
      std::lock_guard<std::mutex> lk(g_expect_m);
      auto it = g_expect.find(id);
      if (it != g_expect.end() && msg.substr(i + 1) != it->second) obs({3, 7, id});
    }
  }
  void flush_sink() override
  {
    for (u64 p : _plan)
      if (p == 4095) throw std::runtime_error("verif sink failure"); // this sink's flush always throws
    obs({2, _idx});
  }

private:
  u64 _idx;
  std::vector<u64> _plan;
  u64 _calls{0};
};

class ModFilter : public quill::Filter
{
public:
  ModFilter(std::string name, u64 m) : quill::Filter(std::move(name)), _m(m) {}
  bool filter(quill::MacroMetadata const*, uint64_t, std::string_view, std::string_view, std::string_view,
              quill::LogLevel, std::string_view msg, std::string_view) noexcept override
  {
    u64 id = 0; size_t i = 0;
    while (i < msg.size() && msg[i] >= '0' && msg[i] <= '9') { id = id * 10 + static_cast<u64>(msg[i] - '0'); ++i; }
    if (i == 0 || i >= msg.size() || msg[i] != ':') id = 0;
    return (id % _m) != 0;
  }
private:
  u64 _m;
};

static void notifier(std::string const& s)
{
  unsigned long n = 0;
  if (s.find("Allocated a new SPSC queue") != std::string::npos) return; // unbounded queue grew: not an observation
  if (s.find("Dropped") != std::string::npos) { sscanf(s.c_str() + s.find("Dropped"), "Dropped %lu", &n); obs({3, 1, n}); }
  else if (s.find("blocking occurrences") != std::string::npos) { sscanf(s.c_str() + s.find("Experienced"), "Experienced %lu", &n); obs({3, 2, n}); }
  else if (s.find("Could not format") != std::string::npos) obs({3, 3, 0});
  else if (s.find("unhandled exception") != std::string::npos) obs({3, 4, 0});
  else if (s.find("verif sink failure") != std::string::npos) obs({3, 5, 0});
  else obs({3, 6, 0});
}

// ------------------------------------------------------------------ frontends (compile-time options)
template <quill::QueueType QT, size_t CAP>
struct FO
{
  static constexpr quill::QueueType queue_type = QT;
  static constexpr size_t initial_queue_capacity = CAP;
  static constexpr uint32_t blocking_queue_retry_interval_ns = 800;
  static constexpr size_t unbounded_queue_max_capacity = 2ull * 1024u * 1024u * 1024u;
  static constexpr quill::HugePagesPolicy huge_pages_policy = quill::HugePagesPolicy::Never;
};

struct LoggerHandle
{
  std::function<long(int level, int id, int mode, size_t pad)> log; // -1 filtered, 0 false, 1 true
  std::function<void()> flush;
  std::function<void(uint32_t, int)> init_bt;
  std::function<void()> flush_bt;
  std::function<void(int)> set_level;
  std::function<void()> remove;
  std::function<unsigned long long(size_t)> shrink; // shrink_thread_local_queue(c), then the capacity reported
};

static constexpr quill::MacroMetadata kLogMeta{"be.cpp:1", "drv", "{}{}", nullptr, quill::LogLevel::Dynamic,
                                               quill::MacroMetadata::Event::Log};
// a call site whose format string has named placeholders (structured logging): two named arguments
static constexpr quill::MacroMetadata kNamedMeta{"be.cpp:3", "drv", "{vid}{vpad}", nullptr, quill::LogLevel::Dynamic,
                                                 quill::MacroMetadata::Event::Log};
// static-level call sites (what LOG_TRACE_L3 ... LOG_CRITICAL, LOG_BACKTRACE expand to)
#define VMETA(L) quill::MacroMetadata{"be.cpp:2", "drv", "{}{}", nullptr, quill::LogLevel::L, quill::MacroMetadata::Event::Log}
static constexpr quill::MacroMetadata kStaticMeta[10] = {VMETA(TraceL3), VMETA(TraceL2), VMETA(TraceL1), VMETA(Debug), VMETA(Info),
                                                         VMETA(Notice), VMETA(Warning), VMETA(Error), VMETA(Critical), VMETA(Backtrace)};

template <typename F>
static LoggerHandle make_logger(std::string const& name, std::vector<std::shared_ptr<quill::Sink>> sinks)
{
  using L = quill::LoggerImpl<F>;
  L* lg = quill::FrontendImpl<F>::create_or_get_logger(
    name, std::move(sinks), quill::PatternFormatterOptions{"%(message)"}, quill::ClockSourceType::System);
  LoggerHandle h;
  h.log = [lg](int level, int id, int mode, size_t pad) -> long
  {
    auto lv = static_cast<quill::LogLevel>(level);
    if (!lg->should_log_statement(lv)) return -1;
    // odd ids carry the padding as a C string (its length goes through the per-thread size cache of the codec), even ids
    // as a std::string; a C string of pad + 3 characters has the same encoded size (strlen + 1 = 4 + pad)
    bool const cstr = (id & 1) != 0;
    std::string const text(cstr ? pad + 3 : pad, 'x');
    expect_payload(static_cast<u64>(id), text);
    char const* const ctext = text.c_str();
    if (mode >= 20)
      return (cstr ? lg->template log_statement<false, true>(lv, &kNamedMeta, Thrower{id, mode % 10}, ctext)
                   : lg->template log_statement<false, true>(lv, &kNamedMeta, Thrower{id, mode % 10}, text)) ? 1 : 0;
    if (mode >= 10 && level <= 9)
      return (cstr ? lg->template log_statement<false, false>(quill::LogLevel::None, &kStaticMeta[level], Thrower{id, mode % 10}, ctext)
                   : lg->template log_statement<false, false>(quill::LogLevel::None, &kStaticMeta[level], Thrower{id, mode % 10}, text)) ? 1 : 0;
    return (cstr ? lg->template log_statement<false, true>(lv, &kLogMeta, Thrower{id, mode % 10}, ctext)
                 : lg->template log_statement<false, true>(lv, &kLogMeta, Thrower{id, mode % 10}, text)) ? 1 : 0;
  };
  h.flush = [lg]() { lg->flush_log(); };
  h.init_bt = [lg](uint32_t cap, int lvl) { lg->init_backtrace(cap, static_cast<quill::LogLevel>(lvl)); };
  h.flush_bt = [lg]() { lg->flush_backtrace(); };
  h.set_level = [lg](int v) { lg->set_log_level(static_cast<quill::LogLevel>(v)); };
  h.remove = [lg]() { quill::FrontendImpl<F>::remove_logger(lg); };
  h.shrink = [](size_t c) -> unsigned long long {
    quill::FrontendImpl<F>::shrink_thread_local_queue(c);
    return static_cast<unsigned long long>(quill::FrontendImpl<F>::get_thread_local_queue_capacity());
  };
  return h;
}

// kind: 0 BoundedBlocking, 1 BoundedDropping, 2 UnboundedBlocking (initial capacity 2^capk, never reaches its maximum)
static LoggerHandle make_logger_rt(u64 kind, u64 capk, std::string const& name,
                                   std::vector<std::shared_ptr<quill::Sink>> sinks)
{
  using quill::QueueType;
#define MK(QT, K) return make_logger<FO<QT, (size_t{1} << K)>>(name, std::move(sinks))
  if (kind == 2)
  {
    if (capk == 8) MK(QueueType::UnboundedBlocking, 8);
    if (capk == 10) MK(QueueType::UnboundedBlocking, 10);
    MK(QueueType::UnboundedBlocking, 12);
  }
  bool const dropping = (kind == 1);
  if (!dropping)
  {
    if (capk == 8) MK(QueueType::BoundedBlocking, 8);
    if (capk == 10) MK(QueueType::BoundedBlocking, 10);
    MK(QueueType::BoundedBlocking, 12);
  }
  if (capk == 8) MK(QueueType::BoundedDropping, 8);
  if (capk == 10) MK(QueueType::BoundedDropping, 10);
  MK(QueueType::BoundedDropping, 12);
#undef MK
}

// ------------------------------------------------------------------ coordinator
static quill::ManualBackendWorker* g_backend = nullptr;
static std::map<u64, std::unique_ptr<Worker>> g_workers;
static std::vector<LoggerHandle> g_loggers;
static std::vector<std::shared_ptr<quill::Sink>> g_sinks;

static Worker& worker(u64 t)
{
  auto it = g_workers.find(t);
  if (it != g_workers.end()) return *it->second;
  auto w = std::make_unique<Worker>();
  Worker* wp = w.get();
  wp->th = std::thread([wp] {
    tl_worker = wp;
    std::unique_lock<std::mutex> lk(wp->m);
    while (true)
    {
      wp->cv.wait(lk, [wp] { return wp->state == Worker::RUN || wp->state == Worker::QUIT; });
      if (wp->state == Worker::QUIT) break;
      lk.unlock();
      wp->in_cmd = true;
      wp->cmd();
      wp->in_cmd = false;
      lk.lock();
      wp->state = Worker::DONE;
      wp->cv.notify_all();
    }
  });
  g_workers[t] = std::move(w);
  return *wp;
}

// returns true if the command finished, false if the thread parked
static bool wait_worker(Worker& w)
{
  std::unique_lock<std::mutex> lk(w.m);
  w.cv.wait(lk, [&w] { return w.state == Worker::DONE || w.state == Worker::PARKED; });
  if (w.state == Worker::DONE) { w.state = Worker::IDLE; return true; }
  return false;
}
static bool start_cmd(Worker& w, std::function<void()> f)
{
  {
    std::lock_guard<std::mutex> lk(w.m);
    w.cmd = std::move(f);
    w.state = Worker::RUN;
  }
  w.cv.notify_all();
  return wait_worker(w);
}
static bool resume(Worker& w)
{
  {
    std::lock_guard<std::mutex> lk(w.m);
    if (w.state != Worker::PARKED) return true;
    w.state = Worker::RESUME;
  }
  w.cv.notify_all();
  return wait_worker(w);
}
static void quit_worker(u64 t)
{
  auto it = g_workers.find(t);
  if (it == g_workers.end()) return;
  Worker& w = *it->second;
  // a parked thread is let go first (its call completes or keeps retrying; bounded by the case's clean-up)
  for (int i = 0; i < 3000; ++i)
  {
    {
      std::lock_guard<std::mutex> lk(w.m);
      if (w.state != Worker::PARKED) break;
    }
    resume(w);
    g_clock.fetch_add(1000000000LL); // let every pending timestamp fall behind ts_now
    if (g_backend) g_backend->poll_one();
  }
  {
    std::lock_guard<std::mutex> lk(w.m);
    w.state = Worker::QUIT;
  }
  w.cv.notify_all();
  w.th.join();
  g_workers.erase(it);
}

static u64 ctx_count()
{
  u64 n = 0;
  quill::detail::ThreadContextManager::instance().for_each_thread_context([&n](quill::detail::ThreadContext*) { ++n; });
  return n;
}

struct Cmd
{
  u64 code;
  std::vector<u64> a;
};
struct Inj
{
  u64 y, v;
  std::vector<Cmd> cmds;
};
static std::vector<Inj> g_inj;
static std::map<u64, u64> g_visits;

static size_t parse_simple(std::vector<u64> const& l, size_t i, size_t end, std::vector<Cmd>& out)
{
  while (i < end)
  {
    u64 c = l[i];
    size_t n = (c == 1 || c == 2) ? 6 : (c == 3 || c == 5 || c == 8) ? 1 : (c == 4 || c == 12) ? 4 : (c == 6 || c == 7 || c == 13 || c == 14 || c == 15) ? 2 : (c == 10) ? 0 : (c == 11) ? 6 : 999;
    if (n == 999 || i + 1 + n > end) break;
    out.push_back({c, std::vector<u64>(l.begin() + i + 1, l.begin() + i + 1 + n)});
    i += 1 + n;
  }
  return i;
}

static std::map<u64, bool> g_dead; // logical threads that have exited in this case

static bool busy(u64 t)
{
  if (g_dead.count(t)) return true;
  auto it = g_workers.find(t);
  if (it == g_workers.end()) return false;
  std::lock_guard<std::mutex> lk(it->second->m);
  return it->second->state == Worker::PARKED;
}

static void exec_simple(Cmd const& c)
{
  auto const& a = c.a;
  if ((c.code == 1 || c.code == 2 || c.code == 4 || c.code == 5 || c.code == 11 || c.code == 12 || c.code == 14) && busy(a[0])) { obs({5, 0}); return; }
  switch (c.code)
  {
  case 1:
  case 2:
  {
    Worker& w = worker(a[0]);
    int id = static_cast<int>(a[1]); u64 lgi = a[2]; int lvl = static_cast<int>(a[3]); u64 sz = a[4]; int mode = static_cast<int>(a[5]);
    u64 const hdr = (mode >= 10 && mode < 20) ? 44 : 45; // a static-level statement carries no dynamic level byte
    size_t pad = sz >= hdr ? static_cast<size_t>(sz - hdr) : 0;
    w.stall_next_clock = (c.code == 2);
    w.result = -2;
    bool done = start_cmd(w, [&w, lgi, lvl, id, mode, pad] { w.result = g_loggers[lgi].log(lvl, id, mode, pad); });
    w.stall_next_clock = false;
    if (!done) obs({5, 2});
    else obs({5, static_cast<u64>(w.result == 1 ? 1 : 0)});
    break;
  }
  case 3:
  {
    auto it = g_workers.find(a[0]);
    if (it == g_workers.end()) { obs({5, 0}); break; }
    Worker& w = *it->second;
    {
      std::lock_guard<std::mutex> lk(w.m);
      if (w.state != Worker::PARKED) { obs({5, 0}); break; }
    }
    bool done = resume(w);
    if (!done) obs({5, 2});
    else obs({5, static_cast<u64>(w.result == 0 ? 0 : 1)});
    break;
  }
  case 4:
  {
    Worker& w = worker(a[0]);
    u64 lgi = a[2];
    w.result = 1;
    bool done = start_cmd(w, [&w, lgi] { g_loggers[lgi].flush(); w.result = 1; });
    obs({5, static_cast<u64>(done ? 1 : 2)});
    break;
  }
  case 14:
  {
    // shrink_thread_local_queue(c) on thread a[0], then the capacity the thread reports for its queue
    Worker& w = worker(a[0]);
    size_t cap = static_cast<size_t>(a[1]);
    w.result = 0;
    bool done = start_cmd(w, [&w, cap] { w.result = static_cast<long>(g_loggers[0].shrink(cap)); });
    if (done) obs({9, static_cast<u64>(w.result)});
    else obs({5, 2});
    break;
  }
  case 11:
  {
    Worker& w = worker(a[0]);
    u64 lgi = a[2]; uint32_t cap = static_cast<uint32_t>(a[3]); int fl = static_cast<int>(a[4]);
    w.result = 1;
    bool done = start_cmd(w, [&w, lgi, cap, fl] { g_loggers[lgi].init_bt(cap, fl); w.result = 1; });
    obs({5, static_cast<u64>(done ? 1 : 2)});
    break;
  }
  case 12:
  {
    Worker& w = worker(a[0]);
    u64 lgi = a[2];
    w.result = 1;
    bool done = start_cmd(w, [&w, lgi] { g_loggers[lgi].flush_bt(); w.result = 1; });
    obs({5, static_cast<u64>(done ? 1 : 2)});
    break;
  }
  case 13:
  {
    try { g_sinks[a[0]]->add_filter(std::make_unique<ModFilter>("mod" + std::to_string(a[1]), a[1])); }
    catch (std::exception const&) {}
    break;
  }
  case 15:
  {
    // Backend::stop() as the backend thread sees it: BackendWorker::_exit() (wait_for_queues_to_empty_before_exit is on),
    // wrapped as in BackendWorker::run; the virtual clock moves a[0] ticks per look of the drain loop at the clock
    g_stop_tick.store(static_cast<long long>(a[0]));
    try { verif_backend_exit(*verif_backend_worker(*g_backend)); }
    catch (std::exception const& e) { notifier(e.what()); }
    catch (...) { notifier("Caught unhandled exception."); }
    g_stop_tick.store(0);
    obs({5, 1});
    break;
  }
  case 5: quit_worker(a[0]); g_dead[a[0]] = true; obs({5, 1}); break;
  case 6: g_loggers[a[0]].set_level(static_cast<int>(a[1])); break;
  case 7: g_sinks[a[0]]->set_log_level_filter(static_cast<quill::LogLevel>(a[1])); break;
  case 8: g_clock.fetch_add(static_cast<long long>(a[0])); break;
  case 10: obs({7, ctx_count()}); break;
  default: break;
  }
}

static void on_yield(int point)
{
  u64 y = static_cast<u64>(point);
  u64 v = g_visits[y]++;
  bool any = false;
  for (auto const& inj : g_inj)
    if (inj.y == y && inj.v == v && !inj.cmds.empty()) any = true;
  if (any) obs({8, y, v});
  for (auto const& inj : g_inj)
    if (inj.y == y && inj.v == v)
      for (auto const& c : inj.cmds) exec_simple(c);
}

static int g_case = 0;

static void run_case(std::vector<u64> const& l)
{
  ++g_case;
  size_t i = 0;
  u64 dropping = l[i++];
  u64 capk = l[i++];
  i += 3; // batch, on_batch, on_drain: facts of the source, not inputs of the implementation
  u64 tinit = l[i++], soft = l[i++], hard = l[i++], grace = l[i++];
  i += 7; // bits, refresh2, catchall, report_first, bt_reset, bt_guard, bt_catch: facts of the source
  u64 fiv = l[i++]; // sink_min_flush_interval in clock ticks (ns), a multiple of one millisecond
  i += 1;           // follow_chain: a fact of the source
  u64 clock0 = l[i++];
  g_clock.store(static_cast<long long>(clock0));
  g_clock0.store(static_cast<long long>(clock0));
  g_mono_base.store(static_cast<long long>(g_case) * 1000000000000000LL);
  g_mono_on.store(true);

  quill::BackendOptions bo;
  bo.transit_event_buffer_initial_capacity = static_cast<uint32_t>(tinit);
  bo.transit_events_soft_limit = soft;
  bo.transit_events_hard_limit = hard;
  bo.log_timestamp_ordering_grace_period = std::chrono::microseconds{0};
  bo.sink_min_flush_interval = std::chrono::milliseconds{static_cast<long long>(fiv / 1000000)};
  bo.error_notifier = notifier;
  bo.check_printable_char = {};
  // the grace period option is in microseconds; the model's unit is the nanosecond tick of the virtual
  // clock, so cases use multiples of 1000
  bo.log_timestamp_ordering_grace_period = std::chrono::microseconds{static_cast<long long>(grace / 1000)};
  g_backend->init(bo);

  u64 nl = l[i++];
  struct LSpec { u64 level; std::vector<u64> sinks; };
  std::vector<LSpec> lspec;
  for (u64 k = 0; k < nl; ++k)
  {
    LSpec s; s.level = l[i++]; u64 ns = l[i++];
    for (u64 j = 0; j < ns; ++j) s.sinks.push_back(l[i++]);
    lspec.push_back(s);
  }
  u64 ns = l[i++];
  g_sinks.clear(); g_loggers.clear(); g_dead.clear();
  { std::lock_guard<std::mutex> lk(g_expect_m); g_expect.clear(); }
  for (u64 k = 0; k < ns; ++k)
  {
    u64 level = l[i++]; u64 nt = l[i++];
    std::vector<u64> plan;
    for (u64 j = 0; j < nt; ++j) plan.push_back(l[i++]);
    auto s = quill::Frontend::create_or_get_sink<RecSink>("c" + std::to_string(g_case) + "_s" + std::to_string(k), k, plan);
    s->set_log_level_filter(static_cast<quill::LogLevel>(level));
    g_sinks.push_back(s);
  }
  for (u64 k = 0; k < nl; ++k)
  {
    std::vector<std::shared_ptr<quill::Sink>> ss;
    for (u64 j : lspec[k].sinks) ss.push_back(g_sinks[j]);
    g_loggers.push_back(make_logger_rt(dropping, capk, "c" + std::to_string(g_case) + "_L" + std::to_string(k), ss));
    g_loggers.back().set_level(static_cast<int>(lspec[k].level));
  }

  // commands
  while (i < l.size())
  {
    if (l[i] == 9)
    {
      u64 n = l[i + 1]; i += 2;
      g_inj.clear(); g_visits.clear();
      for (u64 k = 0; k < n; ++k)
      {
        Inj inj; inj.y = l[i]; inj.v = l[i + 1]; u64 ntok = l[i + 2]; i += 3;
        parse_simple(l, i, i + ntok, inj.cmds);
        i += ntok;
        g_inj.push_back(std::move(inj));
      }
      g_backend->poll_one();
      g_inj.clear();
      obs({6});
    }
    else
    {
      std::vector<Cmd> one;
      size_t j = parse_simple(l, i, l.size(), one);
      if (one.empty()) break;
      // execute only the first parsed command, then continue (polls may follow)
      exec_simple(one[0]);
      i += 1 + one[0].a.size();
      (void)j;
    }
  }
  vh::print_line(g_obs);
  g_obs.clear();

  // ---- clean-up so that the next case starts from an empty backend
  std::vector<u64> ts;
  for (auto& kv : g_workers) ts.push_back(kv.first);
  for (u64 t : ts) quit_worker(t);
  for (auto& h : g_loggers) h.remove();
  g_loggers.clear(); g_sinks.clear();
  int guard = 0;
  while ((ctx_count() != 0 || !quill::Frontend::get_all_loggers().empty()) && guard++ < 20000)
  {
    g_clock.fetch_add(1000000000LL);
    g_backend->poll_one();
  }
  if (guard >= 20000) { fprintf(stderr, "be.cpp: backend did not drain at the end of the case\n"); std::_Exit(97); }
  g_obs.clear();
}

int main()
{
  quill::detail::verif_yield_fn() = &on_yield;
  g_backend = quill::Backend::acquire_manual_backend_worker();
  std::string model; std::vector<u64> a;
  while (vh::read_case(model, a)) run_case(a);
  std::_Exit(0); // skip static destruction of the backend singleton (its _exit loop is not under test here)
}
