// T-corr harness for M-TEB (C03: backend buffer growth, C20: shrinking the backend buffer): drives the real
// quill::detail::TransitEventBuffer with the calls the backend makes, at the granularity it makes them.
// case: teb <g> <m> <r> <e> <x> <c0> ops...   (the five model flags are ignored here)
//   0 v = back(); assign every field; push_back()     1 v = back(); assign (abandoned before push_back())
//   2   = front(), pop_front() when it is not null     3   = request_shrink()        4 = try_shrink()
// output per op: front (value+1, 0 for nullptr), size(), capacity()  (same as the model's encoding)
// The value is stored twice, in `timestamp` and as text in `formatted_msg` (a member that is moved, not copied,
// by _expand): 888888888 = the two disagree, 777777777 = a slot handed out by back() without a format buffer.
#include "common.h"
#include "quill/backend/TransitEventBuffer.h"
#include <string>
using namespace quill::detail;

static void assign(TransitEvent* te, vh::u64 v, bool& bad)
{
  if (!te->formatted_msg) { bad = true; return; }
  te->timestamp = v;
  std::string s = std::to_string(v);
  te->formatted_msg->clear();
  te->formatted_msg->append(s.data(), s.data() + s.size());
}

int main()
{
  std::string model; std::vector<vh::u64> a;
  while (vh::read_case(model, a))
  {
    std::vector<vh::u64> out;
    if (a.size() < 6) { vh::print_line(out); continue; }
    TransitEventBuffer buf(static_cast<size_t>(a[5]));
    size_t i = 6;
    while (i < a.size())
    {
      bool bad = false;
      if ((a[i] == 0 || a[i] == 1) && i + 1 < a.size())
      {
        TransitEvent* te = buf.back();
        assign(te, a[i + 1], bad);
        if (a[i] == 0) buf.push_back();
        i += 2;
      }
      else if (a[i] == 2) { if (buf.front()) buf.pop_front(); i += 1; }
      else if (a[i] == 3) { buf.request_shrink(); i += 1; }
      else if (a[i] == 4) { buf.try_shrink(); i += 1; }
      else break;
      TransitEvent* f = buf.front();
      vh::u64 fv = 0;
      if (bad) fv = 777777777ull;
      else if (f)
      {
        std::string s = f->formatted_msg ? std::string(f->formatted_msg->data(), f->formatted_msg->size()) : std::string("<null>");
        fv = (s == std::to_string(f->timestamp)) ? f->timestamp + 1 : 888888888ull;
      }
      out.push_back(fv); out.push_back(buf.size()); out.push_back(buf.capacity());
      if (bad) break;
    }
    vh::print_line(out);
  }
  return 0;
}
