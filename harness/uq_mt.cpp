// Two real threads over quill::detail::UnboundedSPSCQueue with grow/shrink storms: the producer writes
// variable-length self-describing records (length, sequence number, payload byte derived from the
// sequence number), many of them larger than the current node so that the queue keeps growing, and
// keeps asking for a shrink; the consumer verifies that it receives every record exactly once, in
// order and intact, and that the switches it is told about are consistent. Built plain, with
// -fsanitize=thread (vector clocks honour the memory_order arguments: a weakened `next` publish is a
// reported race on the new node even on x86) and with -fsanitize=address (late access to a deleted node).
// usage: uq_mt <initial> <max> <records> <seed> [pin]  prints "OK <n> grows=<g> switches=<s>" or "CORRUPT <index> <why>"
// pin=1: both threads are pinned to one CPU and poll without yielding, so that they are preempted by the
// timer at arbitrary instructions (this is what opens the few-instruction windows inside prepare_read,
// e.g. between "old node is empty" and the load of `next`, on a machine with spare cores)
#include "quill/core/UnboundedSPSCQueue.h"
#include <atomic>
#include <cstdio>
#include <cstdlib>
#include <cstring>
#include <thread>
#include <pthread.h>
#include <sched.h>
using namespace quill::detail;

static void pin_to_cpu0_of_mask()
{
  cpu_set_t cur; CPU_ZERO(&cur);
  if (sched_getaffinity(0, sizeof(cur), &cur) != 0) return;
  for (int c = 0; c < CPU_SETSIZE; ++c)
    if (CPU_ISSET(c, &cur)) { cpu_set_t one; CPU_ZERO(&one); CPU_SET(c, &one); pthread_setaffinity_np(pthread_self(), sizeof(one), &one); return; }
}

static inline uint32_t lcg(uint32_t& s) { s = s * 1664525u + 1013904223u; return s >> 8; }

int main(int argc, char** argv)
{
  size_t initial = argc > 1 ? strtoull(argv[1], nullptr, 10) : 64;
  size_t maxc = argc > 2 ? strtoull(argv[2], nullptr, 10) : 65536;
  size_t nrec = argc > 3 ? strtoull(argv[3], nullptr, 10) : 100000;
  uint32_t seed = argc > 4 ? static_cast<uint32_t>(strtoul(argv[4], nullptr, 10)) : 1;
  bool const pin = argc > 5 && strtoul(argv[5], nullptr, 10) != 0;
  UnboundedSPSCQueue q(initial, maxc);
  size_t const maxlen = maxc / 2 > 16 ? maxc / 2 : 16;
  std::atomic<size_t> grows{0};
  std::thread prod([&] {
    if (pin) pin_to_cpu0_of_mask();
    uint32_t s = seed;
    for (size_t i = 0; i < nrec; ++i)
    {
      uint32_t r = lcg(s);
      size_t len;
      if (r % 16 == 0) len = 8 + lcg(s) % (maxlen - 7);                 // often larger than the node: grow
      else len = 8 + lcg(s) % 120;
      size_t const cap_before = q.producer_capacity();
      std::byte* p;
      while (!(p = q.prepare_write(len))) std::this_thread::yield();   // at the cap: block until the consumer made room
      if (pin && (r % 4 == 3)) for (volatile int k = 0; k < 200; ++k) {}  // let the consumer catch up now and then
      if (q.producer_capacity() != cap_before) grows.fetch_add(1, std::memory_order_relaxed);
      uint32_t hdr[2] = {static_cast<uint32_t>(len), static_cast<uint32_t>(i)};
      std::memcpy(p, hdr, 8);
      std::memset(p + 8, static_cast<int>(i & 0xff), len - 8);
      q.finish_and_commit_write(len);
      if (r % 8 == 1) q.shrink(initial << (lcg(s) % 3));                // shrink requests while the consumer is mid-node
      else if (r % 64 == 2) q.shrink(q.producer_capacity() / 2);
    }
  });
  size_t switches = 0;
  std::thread cons([&] {
    if (pin) pin_to_cpu0_of_mask();
    for (size_t i = 0; i < nrec; ++i)
    {
      UnboundedSPSCQueue::ReadResult rr{nullptr};
      for (;;)
      {
        rr = q.prepare_read();
        if (rr.allocation)
        {
          ++switches;
          if (rr.new_capacity != q.capacity() || rr.new_capacity > maxc || rr.previous_capacity > maxc)
          { std::printf("CORRUPT %zu switch-capacities\n", i); std::fflush(stdout); std::_Exit(3); }
        }
        if (rr.read_pos) break;
        if (!pin) std::this_thread::yield();
      }
      std::byte* p = rr.read_pos;
      uint32_t hdr[2]; std::memcpy(hdr, p, 8);
      bool ok = hdr[1] == static_cast<uint32_t>(i) && hdr[0] >= 8 && hdr[0] <= maxlen;
      for (size_t j = 8; ok && j < hdr[0]; ++j) ok = static_cast<unsigned char>(p[j]) == (i & 0xff);
      if (!ok)
      {
        std::printf("CORRUPT %zu expected-seq=%zu got-seq=%u len=%u\n", i, i, hdr[1], hdr[0]);
        std::fflush(stdout); std::_Exit(3);
      }
      q.finish_read(hdr[0]);
      q.commit_read();
    }
  });
  prod.join(); cons.join();
  std::printf("OK %zu grows=%zu switches=%zu\n", nrec, grows.load(), switches);
  return 0;
}
