// T-corr harness for C12: drives the real quill::PatternFormatter (constructor accept/throw,
// format(...) output bytes), the real multi-line path end to end (ManualBackendWorker + a
// recording sink; compile-time call sites and LOG_RUNTIME_METADATA), fmtquill::vformat_to alone
// (to validate the mini-fmt parser of the model), and fmtquill::format("{fs}", value) to fill the
// oracle table of the model.
//
// case lines (strings are <len> <byte>*len); a pat line may start with "9 <pv_bits> <pv_esc>", the
// variant of the model it is run on (ignored here):
//   pat 0 <pattern> <stmt> <table>                     create + format
//   pat 1 <add_meta> <site> <pattern> <stmt> <rt_file> <rt_line> <table>   lines at the sink
//   pat 2 <fmt> <nargs> (<0> | <1> <bytes>)*nargs <table>                  vformat_to alone
//   pat 3 <pattern>                                     constructor state (_fmt_format, ...)
//   patd <h = hoist + 2 pv_esc + 4 pv_bits> <nsinks> sink* <nloggers> logger* <nstmts> statement* <table>
//                                                       which line each sink of a logger is handed
//                                                       (see Format/PatDispatch.v, patd_run_enc)
//   pato 0 <n> (<fs> <v>)*n                             oracle: rendering of "{fs}" with v
//   pato 1 <ts>                                         oracle: text of %(time) for ts (ns, GMT)
// <stmt> = <time> <tid> <tname> <pid> <logger> <level> <short> <srcloc> <func>
//          (0 | 1 <tags>) (0 | 1 <n> (<k> <v>)*n) <msg> <ts>
// observations: see PatModel.v (pat_run_enc); the table part of a case is ignored here.

// the standard headers first, then private -> public for the quill headers only (mode 3 reads
// _fmt_format / _order_index / _is_set_in_pattern)
#include <algorithm>
#include <array>
#include <atomic>
#include <bitset>
#include <chrono>
#include <condition_variable>
#include <cstring>
#include <ctime>
#include <deque>
#include <functional>
#include <iterator>
#include <limits>
#include <map>
#include <memory>
#include <mutex>
#include <optional>
#include <set>
#include <sstream>
#include <stdexcept>
#include <string>
#include <string_view>
#include <thread>
#include <tuple>
#include <unordered_map>
#include <unordered_set>
#include <utility>
#include <vector>
#include "common.h"
#include "quill/bundled/fmt/base.h"
#include "quill/bundled/fmt/format.h"

#define private public
#include "quill/backend/PatternFormatter.h"
#undef private

#include "quill/Backend.h"
#include "quill/Frontend.h"
#include "quill/LogMacros.h"
#include "quill/Logger.h"
#include "quill/filters/Filter.h"
#include "quill/sinks/Sink.h"

using vh::u64;

namespace
{
struct Reader
{
  std::vector<u64> const& a;
  size_t i;
  bool ok{true};
  u64 num()
  {
    if (i >= a.size()) { ok = false; return 0; }
    return a[i++];
  }
  std::string str()
  {
    u64 n = num();
    std::string s;
    if (!ok || i + n > a.size()) { ok = false; return s; }
    for (u64 k = 0; k < n; ++k) s.push_back(static_cast<char>(static_cast<unsigned char>(a[i + k])));
    i += n;
    return s;
  }
};

struct Stmt
{
  std::string time, tid, tname, pid, logger, level, shortc, srcloc, func, tags, msg;
  bool has_tags{false};
  bool has_nargs{false};
  std::vector<std::pair<std::string, std::string>> nargs;
  u64 ts{0};
};

Stmt read_stmt(Reader& r)
{
  Stmt s;
  s.time = r.str(); s.tid = r.str(); s.tname = r.str(); s.pid = r.str(); s.logger = r.str();
  s.level = r.str(); s.shortc = r.str(); s.srcloc = r.str(); s.func = r.str();
  s.has_tags = r.num() != 0;
  if (s.has_tags) s.tags = r.str();
  s.has_nargs = r.num() != 0;
  if (s.has_nargs)
  {
    u64 n = r.num();
    for (u64 k = 0; k < n && r.ok; ++k)
    {
      std::string key = r.str(); std::string v = r.str();
      s.nargs.emplace_back(key, v);
    }
  }
  s.msg = r.str();
  s.ts = r.num();
  return s;
}

void put_bytes(std::vector<u64>& out, std::string_view s)
{
  out.push_back(s.size());
  for (char c : s) out.push_back(static_cast<unsigned char>(c));
}

u64 fmt_error_code(char const* what)
{
  std::string w{what};
  if (w.find("unmatched '}'") != std::string::npos) return 1;
  if (w == "invalid format string" || w.find("missing '}'") != std::string::npos) return 2;
  if (w.find("argument not found") != std::string::npos) return 3;
  return 6;
}

constexpr char const* TS_PATTERN = "%H:%M:%S.%Qns";

quill::PatternFormatterOptions options_for(std::string const& pattern, bool add_meta)
{
  return quill::PatternFormatterOptions{pattern, TS_PATTERN, quill::Timezone::GmtTime, add_meta};
}

// constructor accept / throw; returns nullptr and the kind when it throws
std::unique_ptr<quill::PatternFormatter> create(std::string const& pattern, bool add_meta, u64& kind)
{
  try
  {
    return std::make_unique<quill::PatternFormatter>(options_for(pattern, add_meta));
  }
  catch (std::exception const& e)
  {
    std::string w{e.what()};
    if (w == "Invalid format pattern") kind = 1;
    else if (w.find("is invalid") != std::string::npos || w.find("does not exist") != std::string::npos) kind = 2;
    else kind = 3;
    return nullptr;
  }
}

void put_format(std::vector<u64>& out, quill::PatternFormatter& pf, Stmt const& s, std::string_view msg,
                quill::MacroMetadata const& mm)
{
  try
  {
    std::string_view line = pf.format(s.ts, s.tid, s.tname, s.pid, s.logger, s.level, s.shortc, mm,
                                      s.has_nargs ? &s.nargs : nullptr, msg);
    out.push_back(0);
    put_bytes(out, line);
  }
  catch (std::exception const& e)
  {
    out.push_back(1);
    out.push_back(fmt_error_code(e.what()));
  }
}

/** ---- end to end: recording sink + manual backend worker ---- **/
class RecSink : public quill::Sink
{
public:
  void write_log(quill::MacroMetadata const*, uint64_t, std::string_view, std::string_view, std::string const&,
                 std::string_view, quill::LogLevel, std::string_view, std::string_view,
                 std::vector<std::pair<std::string, std::string>> const*, std::string_view,
                 std::string_view log_statement) override
  {
    lines.emplace_back(log_statement);
  }
  void flush_sink() override {}
  std::vector<std::string> lines;
};

std::vector<std::string> g_errors;
quill::ManualBackendWorker* g_worker = nullptr;

void ensure_backend()
{
  if (g_worker) return;
  g_worker = quill::Backend::acquire_manual_backend_worker();
  quill::BackendOptions bo;
  bo.error_notifier = [](std::string const& e) { g_errors.push_back(e); };
  bo.check_printable_char = {};   // messages are passed through unchanged
  g_worker->init(bo);
}

quill::LogLevel level_of(std::string const& name)
{
  static char const* const names[] = {"TRACE_L3", "TRACE_L2", "TRACE_L1", "DEBUG", "INFO", "NOTICE",
                                      "WARNING",  "ERROR",    "CRITICAL"};
  for (size_t i = 0; i < 9; ++i)
    if (name == names[i]) return static_cast<quill::LogLevel>(i);
  return quill::LogLevel::Info;
}

// compile-time call sites with pinned __FILE__ / __LINE__ (the constants are mirrored in props/c12.py)
// clang-format off
void site1(quill::Logger* l, std::string const& m)
{
#line 4242 "/src/app/main.cpp"
  QUILL_LOG_INFO(l, "{}", m);
}
void site2(quill::Logger* l, std::string const& m)
{
#line 7 "plain.cpp"
  QUILL_LOG_WARNING_TAGS(l, QUILL_TAGS("net", "io"), "{}", m);
}
void site3(quill::Logger* l, std::string const& m)
{
#line 99 "a/b/c/named.cpp"
  QUILL_LOG_ERROR(l, "{k}", m);
}
#line 214 "pat.cpp"
// clang-format on

u64 g_case_no = 0;

/** ---- patd: several sinks (with / without override pattern options, level filter, user filter) ---- **/
class RecSinkD : public quill::Sink
{
public:
  explicit RecSinkD(std::optional<quill::PatternFormatterOptions> override_options)
    : quill::Sink(std::move(override_options))
  {
  }
  void write_log(quill::MacroMetadata const*, uint64_t, std::string_view, std::string_view, std::string const&,
                 std::string_view, quill::LogLevel, std::string_view, std::string_view,
                 std::vector<std::pair<std::string, std::string>> const*, std::string_view,
                 std::string_view log_statement) override
  {
    lines.emplace_back(log_statement);
  }
  void flush_sink() override {}
  std::vector<std::string> lines;
};

// kind 1: reject when the message line contains the byte; kind 2: when the (logger's) statement contains it
class ByteFilter : public quill::Filter
{
public:
  ByteFilter(u64 kind, char b) : quill::Filter("bytefilter"), _kind(kind), _b(b) {}
  bool filter(quill::MacroMetadata const*, uint64_t, std::string_view, std::string_view, std::string_view,
              quill::LogLevel, std::string_view log_message, std::string_view log_statement) noexcept override
  {
    std::string_view hay = (_kind == 1) ? log_message : log_statement;
    return hay.find(_b) == std::string_view::npos;
  }

private:
  u64 _kind;
  char _b;
};

void log_at_site(quill::Logger* l, u64 site, Stmt const& s, std::string const& rt_file, std::string const& rt_line)
{
  if (site == 0)
  {
    QUILL_LOG_RUNTIME_METADATA(l, level_of(s.level), rt_file.c_str(),
                               static_cast<uint32_t>(std::strtoul(rt_line.c_str(), nullptr, 10)),
                               s.func.c_str(), "{}", s.msg);
  }
  else if (site == 1) site1(l, s.msg);
  else if (site == 2) site2(l, s.msg);
  else site3(l, s.msg);
}

void run_patd(Reader& r, std::vector<u64>& out)
{
  struct LoggerSpec
  {
    std::string name, pattern;
    bool add_meta;
    std::vector<u64> sinks;
  };
  (void)r.num(); // the model's variant flag
  ensure_backend();
  g_errors.clear();
  std::string uniq = std::to_string(g_case_no);
  std::vector<std::shared_ptr<RecSinkD>> sinks;
  u64 ns = r.num();
  for (u64 k = 0; k < ns && r.ok; ++k)
  {
    std::optional<quill::PatternFormatterOptions> ov;
    if (r.num() != 0)
    {
      std::string p = r.str();
      bool am = r.num() != 0;
      ov = options_for(p, am);
    }
    u64 minlv = r.num();
    u64 fk = r.num();
    u64 fb = fk ? r.num() : 0;
    if (!r.ok) break;
    auto sk = std::static_pointer_cast<RecSinkD>(
      quill::Frontend::create_or_get_sink<RecSinkD>("d" + uniq + "_" + std::to_string(k), ov));
    sk->set_log_level_filter(static_cast<quill::LogLevel>(minlv > 8 ? 8 : minlv));
    if (fk) sk->add_filter(std::make_unique<ByteFilter>(fk, static_cast<char>(static_cast<unsigned char>(fb))));
    sinks.push_back(sk);
  }
  std::vector<LoggerSpec> specs;
  u64 nl = r.num();
  for (u64 k = 0; k < nl && r.ok; ++k)
  {
    LoggerSpec ls;
    ls.name = r.str(); ls.pattern = r.str(); ls.add_meta = r.num() != 0;
    u64 n = r.num();
    for (u64 j = 0; j < n && r.ok; ++j) ls.sinks.push_back(r.num());
    specs.push_back(ls);
  }
  struct DS
  {
    u64 logger, lv, site;
    Stmt s;
    std::string rt_file, rt_line;
  };
  std::vector<DS> sts;
  u64 nst = r.num();
  for (u64 k = 0; k < nst && r.ok; ++k)
  {
    DS d;
    d.logger = r.num(); d.lv = r.num(); d.site = r.num();
    d.s = read_stmt(r); d.rt_file = r.str(); d.rt_line = r.str();
    sts.push_back(d);
  }
  if (!r.ok) return;
  std::vector<quill::Logger*> loggers;
  for (auto const& ls : specs)
  {
    std::vector<std::shared_ptr<quill::Sink>> v;
    for (u64 ix : ls.sinks)
      if (ix < sinks.size()) v.push_back(sinks[ix]);
    quill::Logger* l = quill::Frontend::create_or_get_logger(ls.name, std::move(v), options_for(ls.pattern, ls.add_meta));
    l->set_log_level(quill::LogLevel::TraceL3);
    loggers.push_back(l);
  }
  out.push_back(0);
  out.push_back(sts.size());
  for (auto const& d : sts)
  {
    if (d.logger >= loggers.size()) { out.push_back(8); continue; }
    size_t before = g_errors.size();
    log_at_site(loggers[d.logger], d.site, d.s, d.rt_file, d.rt_line);
    g_worker->poll();
    out.push_back(g_errors.size() > before ? 1 : 0);
  }
  for (auto* l : loggers) quill::Frontend::remove_logger(l);
  g_worker->poll();
  g_worker->poll_one();
  out.push_back(sinks.size());
  for (auto const& sk : sinks)
  {
    out.push_back(sk->lines.size());
    for (auto const& ln : sk->lines) put_bytes(out, ln);
  }
}
} // namespace

int main()
{
  std::string model;
  std::vector<u64> a;
  while (vh::read_case(model, a))
  {
    std::vector<u64> out;
    ++g_case_no;
    Reader r{a, 0};
    u64 mode = r.num();
    if (model == "pato")
    {
      if (mode == 0)
      {
        u64 n = r.num();
        for (u64 k = 0; k < n && r.ok; ++k)
        {
          std::string fs = r.str(); std::string v = r.str();
          std::string f = "{" + fs + "}";
          try
          {
            std::string s = fmtquill::format(fmtquill::runtime(f), std::string_view{v});
            put_bytes(out, s);
          }
          catch (std::exception const&)
          {
            out.push_back(1); out.push_back(256);   // "fmt throws for this field"
          }
        }
      }
      else
      {
        u64 ts = r.num();
        quill::detail::TimestampFormatter tf{TS_PATTERN, quill::Timezone::GmtTime};
        put_bytes(out, tf.format_timestamp(std::chrono::nanoseconds{ts}));
      }
      vh::print_line(out);
      continue;
    }

    if (model == "patd")
    {
      Reader rd{a, 0};
      run_patd(rd, out);
      if (!rd.ok) { out = {999999}; }
      vh::print_line(out);
      continue;
    }

    if (mode == 9)
    {
      // "9 <pv_bits> <pv_esc>": the variant of the MODEL the case is run on (PatModel.v, pat_run_enc)
      (void)r.num(); (void)r.num();
      mode = r.num();
    }

    if (mode == 0)
    {
      std::string pattern = r.str();
      Stmt s = read_stmt(r);
      u64 kind = 0;
      auto pf = create(pattern, true, kind);
      if (!pf) { out = {1, kind}; }
      else
      {
        quill::MacroMetadata mm{s.srcloc.c_str(), s.func.c_str(), "{}", s.has_tags ? s.tags.c_str() : nullptr,
                                quill::LogLevel::Info, quill::MacroMetadata::Event::Log};
        {
          // the formatter is used for another statement first (every attribute non-empty): nothing of it
          // may leak into the line of the case's statement (slots, named-args buffer, tags)
          Stmt decoy;
          decoy.tid = "tid-decoy"; decoy.tname = "tname-decoy"; decoy.pid = "pid-decoy"; decoy.logger = "logger-decoy";
          decoy.level = "LEVEL-DECOY"; decoy.shortc = "LD"; decoy.srcloc = "decoy/dir/decoy.cpp:999"; decoy.func = "decoy_fn";
          decoy.has_nargs = true; decoy.nargs = {{"dk1", "dv1"}, {"dk2", "dv2"}}; decoy.msg = "decoy message"; decoy.ts = 86399999999999ULL;
          quill::MacroMetadata dmm{decoy.srcloc.c_str(), decoy.func.c_str(), "{}", "#decoy ", quill::LogLevel::Info,
                                   quill::MacroMetadata::Event::Log};
          std::vector<u64> ignored;
          put_format(ignored, *pf, decoy, decoy.msg, dmm);
        }
        out.push_back(0);
        put_format(out, *pf, s, s.msg, mm);
        // a second call on the same formatter (buffers and slots are reused) must give the same bytes
        std::vector<u64> again{0};
        put_format(again, *pf, s, s.msg, mm);
        if (again != out) { out.push_back(424242); }
      }
    }
    else if (mode == 1)
    {
      bool add_meta = r.num() != 0;
      u64 site = r.num();
      std::string pattern = r.str();
      Stmt s = read_stmt(r);
      std::string rt_file = r.str();
      std::string rt_line = r.str();
      u64 kind = 0;
      auto probe = create(pattern, add_meta, kind);
      if (!probe) { out = {1, kind}; }
      else
      {
        ensure_backend();
        g_errors.clear();
        std::string uniq = std::to_string(g_case_no);
        auto sink = std::static_pointer_cast<RecSink>(quill::Frontend::create_or_get_sink<RecSink>("rec" + uniq));
        quill::Logger* l = quill::Frontend::create_or_get_logger(s.logger, sink, options_for(pattern, add_meta));
        l->set_log_level(quill::LogLevel::TraceL3);
        if (site == 0)
        {
          QUILL_LOG_RUNTIME_METADATA(l, level_of(s.level), rt_file.c_str(),
                                     static_cast<uint32_t>(std::strtoul(rt_line.c_str(), nullptr, 10)),
                                     s.func.c_str(), "{}", s.msg);
        }
        else if (site == 1) site1(l, s.msg);
        else if (site == 2) site2(l, s.msg);
        else site3(l, s.msg);
        g_worker->poll();
        quill::Frontend::remove_logger(l);
        g_worker->poll();
        g_worker->poll_one();
        out.push_back(0);
        out.push_back(sink->lines.size());
        for (auto const& ln : sink->lines) { out.push_back(0); put_bytes(out, ln); }
        for (auto const& e : g_errors) { (void)e; out.push_back(777); }
      }
    }
    else if (mode == 2)
    {
      std::string f = r.str();
      u64 n = r.num();
      std::vector<std::string> vals; std::vector<bool> has;
      for (u64 k = 0; k < n && r.ok; ++k)
      {
        bool h = r.num() != 0; has.push_back(h); vals.push_back(h ? r.str() : std::string{});
      }
      std::vector<fmtquill::basic_format_arg<fmtquill::format_context>> args(n);
      for (u64 k = 0; k < n; ++k)
        if (has[k]) args[k] = std::string_view{vals[k]};
      try
      {
        fmtquill::basic_memory_buffer<char, 512> buf;
        fmtquill::vformat_to(std::back_inserter(buf), f,
                             fmtquill::basic_format_args(args.data(), static_cast<int>(args.size())));
        out.push_back(0);
        put_bytes(out, std::string_view{buf.data(), buf.size()});
      }
      catch (std::exception const& e)
      {
        out.push_back(1); out.push_back(fmt_error_code(e.what()));
      }
    }
    else if (mode == 3)
    {
      std::string pattern = r.str();
      u64 kind = 0;
      auto pf = create(pattern, true, kind);
      if (!pf) { out = {1, kind}; }
      else
      {
        out.push_back(0);
        put_bytes(out, pf->_fmt_format);
        for (size_t k = 0; k < pf->_order_index.size(); ++k) out.push_back(pf->_order_index[k]);
        for (size_t k = 0; k < pf->_is_set_in_pattern.size(); ++k) out.push_back(pf->_is_set_in_pattern[k] ? 1 : 0);
      }
    }
    else
    {
      out.push_back(999999);
    }
    if (!r.ok) { out = {999999}; }
    vh::print_line(out);
  }
  return 0;
}
