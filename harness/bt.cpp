// T-corr harness for C18 (unit level): drives quill::detail::BacktraceStorage with the op
// sequence of each case and prints what the replay callback saw.
// case: bt <reset> <guard> ops...   (the two model flags are ignored here)
//   0 x = store event x ; 1 = process ; 2 c = set_capacity c
// output per op: count, then id+1 of each replayed event (same as the model's encoding)
#include "common.h"
#include "quill/backend/BacktraceStorage.h"
using namespace quill::detail;

int main()
{
  std::string model; std::vector<vh::u64> a;
  while (vh::read_case(model, a))
  {
    std::vector<vh::u64> out;
    BacktraceStorage bs;
    size_t i = 2;
    while (i < a.size())
    {
      if (a[i] == 0 && i + 1 < a.size())
      {
        TransitEvent te; te.timestamp = a[i + 1];
        bs.store(std::move(te), "1", "t");
        out.push_back(0); i += 2;
      }
      else if (a[i] == 1)
      {
        std::vector<vh::u64> got;
        bs.process([&](TransitEvent const& e, std::string_view, std::string_view) { got.push_back(e.timestamp + 1); });
        out.push_back(got.size()); out.insert(out.end(), got.begin(), got.end()); i += 1;
      }
      else if (a[i] == 2 && i + 1 < a.size())
      {
        bs.set_capacity(static_cast<uint32_t>(a[i + 1]));
        out.push_back(0); i += 2;
      }
      else break;
    }
    vh::print_line(out);
  }
  return 0;
}
