// T-corr harness for C01/C09 (sequential layer): drives quill::detail::BoundedSPSCQueueImpl<T>
// for T = uint8_t / uint16_t / size_t with the composite ops of Queue/BQDefs.v and prints the
// API-level observations (null / offset of the returned pointer, record sizes, empty()).
// case: bq <wb> <k> <batch> <on_batch> <on_drain> <pct> ops...
//   ops: 0 n c = W (prepare_write n; if granted fill, finish_write n, commit_write iff c)
//        1 = commit_write ; 2 = R (prepare_read; if non-null check + finish_read of the oldest record)
//        3 = commit_read ; 4 = empty()
// A payload mismatch (bytes read != bytes written for that record) appends the marker 999999999.
#include "common.h"
#include "quill/core/BoundedSPSCQueue.h"
#include <cstring>
#include <deque>
using namespace quill::detail;

template <typename T>
static void run_case(std::vector<vh::u64> const& a, std::vector<vh::u64>& out)
{
  vh::u64 const k = a[1], pct = a[5];
  BoundedSPSCQueueImpl<T> q(static_cast<T>(1ull << k), quill::HugePagesPolicy::Never, static_cast<T>(pct));
  std::byte* base = nullptr;
  struct Rec { vh::u64 n; unsigned char tag; };
  std::deque<Rec> fifo;
  unsigned char tag = 1;
  size_t i = 6;
  while (i < a.size())
  {
    vh::u64 op = a[i];
    if (op == 0 && i + 2 < a.size())
    {
      vh::u64 n = a[i + 1]; bool c = a[i + 2] != 0; i += 3;
      std::byte* p = q.prepare_write(static_cast<T>(n));
      if (!p) { out.push_back(0); continue; }
      if (!base) base = p; // the first grant is at logical position 0
      std::memset(p, tag, n);
      fifo.push_back({n, tag}); tag = static_cast<unsigned char>(tag == 255 ? 1 : tag + 1);
      q.finish_write(static_cast<T>(n));
      if (c) q.commit_write();
      out.push_back(static_cast<vh::u64>(p - base) + 1);
    }
    else if (op == 1) { q.commit_write(); i += 1; }
    else if (op == 2)
    {
      i += 1;
      std::byte* p = q.prepare_read();
      if (!p) { out.push_back(0); continue; }
      out.push_back(static_cast<vh::u64>(p - base) + 1);
      if (fifo.empty()) { out.push_back(0); continue; }
      Rec r = fifo.front(); fifo.pop_front();
      bool ok = true;
      for (vh::u64 j = 0; j < r.n; ++j) ok = ok && (static_cast<unsigned char>(p[j]) == r.tag);
      q.finish_read(static_cast<T>(r.n));
      out.push_back(r.n);
      if (!ok) out.push_back(999999999ull);
    }
    else if (op == 3) { q.commit_read(); i += 1; }
    else if (op == 4) { out.push_back(q.empty() ? 1 : 0); i += 1; }
    else break;
  }
}

int main()
{
  std::string model; std::vector<vh::u64> a;
  while (vh::read_case(model, a))
  {
    std::vector<vh::u64> out;
    if (a.size() >= 6)
    {
      if (a[0] == 8) run_case<uint8_t>(a, out);
      else if (a[0] == 16) run_case<uint16_t>(a, out);
      else run_case<size_t>(a, out);
    }
    vh::print_line(out);
  }
  return 0;
}
