// Real threads on the real quill::detail::ThreadContextManager (the singleton the frontends and the backend
// share): K producer threads each register N fresh thread contexts as fast as they can (what
// ScopedThreadContext's constructor does on a thread's first log call: make_shared<ThreadContext>(...) +
// register_thread_context; the contexts are created before the start signal so that only the registration
// itself races), one consumer thread loops the backend's cache refresh - the real private
// BackendWorker::_update_active_thread_contexts_cache() of a BackendWorker object that is never started
// (this translation unit is compiled with -fno-access-control): if (new_thread_context_flag()) {
// _active_thread_contexts_cache.clear(); for_each_thread_context(push_back); } - until the producers are
// done; after the producers are joined the refresh is called twice more (it rebuilds only when the flag
// says so). The cache that is checked is the BackendWorker's own _active_thread_contexts_cache.
// Property C03 (registration clause): every registered context is in the consumer's cache - a context
// that is not is a thread whose queue the backend never reads. Proved for every interleaving of the
// micro-steps in Backend/RegProtoProofs.v when the append precedes the flag store and the flag is consumed
// before the rebuild; this harness is the search for a failing input when that tie breaks, and a standing
// stress check. The registry is only touched under the spinlock and the flag is atomic, so a broken order
// is not a data race: the outcome itself is the observation (the TSan build catches a registry that is no
// longer protected).
//
// case line:   reg_mt <K> <N> <pin>     pin: 0 = do not pin, 1 = pin consumer and producers to different CPUs
// observation: <registered> <cached> <missing>
//              registered = K*N, cached = size of the consumer's cache after the final refreshes,
//              missing = registered contexts that are not in the cache
// All contexts are invalidated and removed from the manager at the end of a case (mark_invalid,
// add_invalid_thread_context, remove_shared_invalidated_thread_context), so cases are independent.
#include "common.h"
#include "quill/backend/BackendWorker.h"
#include "quill/backend/ThreadUtilities.h" // defines get_thread_id / get_thread_name used by the ThreadContext constructor
#include "quill/core/ThreadContextManager.h"
#include <algorithm>
#include <atomic>
#include <memory>
#include <thread>
#include <vector>
#if defined(__linux__)
  #include <pthread.h>
  #include <sched.h>
#endif
using namespace quill;
using namespace quill::detail;

static void pin_to(unsigned k)
{
#if defined(__linux__)
  cpu_set_t all;
  CPU_ZERO(&all);
  if (sched_getaffinity(0, sizeof(all), &all) != 0) return;
  int n = CPU_COUNT(&all);
  if (n < 2) return;
  int want = static_cast<int>(k % static_cast<unsigned>(n)), seen = 0;
  for (int c = 0; c < CPU_SETSIZE; ++c)
  {
    if (!CPU_ISSET(c, &all)) continue;
    if (seen++ == want)
    {
      cpu_set_t one;
      CPU_ZERO(&one);
      CPU_SET(c, &one);
      pthread_setaffinity_np(pthread_self(), sizeof(one), &one); // best effort
      return;
    }
  }
#else
  (void)k;
#endif
}

// start signal: spin briefly, then give the CPU away (under load a thread that is not yet scheduled would otherwise
// keep the others spinning for a whole time slice)
static void wait_for(std::atomic<size_t> const& v, size_t want)
{
  for (unsigned spins = 0; v.load(std::memory_order_acquire) < want; ++spins)
    if (spins > 2000) std::this_thread::yield();
}

int main()
{
  std::string model;
  std::vector<vh::u64> a;
  ThreadContextManager& tcm = ThreadContextManager::instance();
  while (vh::read_case(model, a))
  {
    size_t const K = a.size() > 0 ? static_cast<size_t>(std::min<vh::u64>(std::max<vh::u64>(a[0], 1), 64)) : 3;
    size_t const N = a.size() > 1 ? static_cast<size_t>(std::min<vh::u64>(a[1], 100000)) : 1;
    bool const pin = a.size() > 2 && a[2] != 0;

    std::vector<std::vector<std::shared_ptr<ThreadContext>>> ctx(K);
    for (size_t k = 0; k < K; ++k)
      for (size_t i = 0; i < N; ++i)
        ctx[k].push_back(std::make_shared<ThreadContext>(QueueType::BoundedDropping, size_t{256}, size_t{256}, HugePagesPolicy::Never));

    BackendWorker bw; // never started: only its cache refresh is used
    bw._options.transit_event_buffer_initial_capacity = 2; // the refresh creates a transit event buffer per new context
    std::vector<ThreadContext*> const& cache = bw._active_thread_contexts_cache;
    auto refresh = [&bw] { bw._update_active_thread_contexts_cache(); };

    std::atomic<size_t> ready{0}, done{0};
    std::thread cons([&] {
      if (pin) pin_to(0);
      ready.fetch_add(1);
      wait_for(ready, K + 1);
      while (done.load(std::memory_order_acquire) < K) refresh();
    });
    std::vector<std::thread> prod;
    for (size_t k = 0; k < K; ++k)
      prod.emplace_back([&, k] {
        if (pin) pin_to(static_cast<unsigned>(k + 1));
        ready.fetch_add(1);
        wait_for(ready, K + 1);
        for (auto const& c : ctx[k]) tcm.register_thread_context(c);
        done.fetch_add(1, std::memory_order_release);
      });
    for (auto& t : prod) t.join();
    cons.join();
    // every registration call has returned and is visible here: the backend's next refreshes
    refresh();
    refresh();

    std::vector<ThreadContext*> sorted(cache);
    std::sort(sorted.begin(), sorted.end());
    vh::u64 missing = 0;
    for (auto const& v : ctx)
      for (auto const& c : v) missing += !std::binary_search(sorted.begin(), sorted.end(), c.get());
    vh::print_line({static_cast<vh::u64>(K * N), static_cast<vh::u64>(cache.size()), missing});

    for (auto const& v : ctx)
      for (auto const& c : v)
      {
        c->mark_invalid();
        tcm.add_invalid_thread_context();
        tcm.remove_shared_invalidated_thread_context(c.get());
      }
  }
  return 0;
}
