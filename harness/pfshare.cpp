// C12/C16: "each sink receives the line formatted with its own override pattern if it has one, else the logger's" when
// several loggers exist: the backend shares one PatternFormatter among loggers whose PatternFormatterOptions are equal.
// For every member of the options (format pattern, timestamp pattern, time zone, multi-line flag) two loggers that
// differ in that member only log through the real backend, in both orders, with other loggers in between; every line
// must carry its own logger's options. Timestamp patterns are literal text (strftime copies it), so no clock is involved.
// case: pfshare <member 0..3> <order 0|1> <noise loggers 0..3>     output: 1 (ok) or 0 + text on stderr
#include "common.h"

#include <cstdlib>
#include <string>
#include <vector>

#include "quill/Backend.h"
#include "quill/Frontend.h"
#include "quill/LogMacros.h"
#include "quill/Logger.h"
#include "quill/sinks/Sink.h"

using vh::u64;

class Rec : public quill::Sink
{
public:
  void write_log(quill::MacroMetadata const*, uint64_t, std::string_view, std::string_view, std::string const&,
                 std::string_view, quill::LogLevel, std::string_view, std::string_view,
                 std::vector<std::pair<std::string, std::string>> const*, std::string_view,
                 std::string_view log_statement) override
  {
    lines.emplace_back(log_statement);
  }
  void flush_sink() override {}
  std::vector<std::string> lines;
};

static quill::ManualBackendWorker* g_bw = nullptr;
static int g_case = 0;

static std::string expect(quill::PatternFormatterOptions const& o, std::string const& msg)
{
  // pattern "<tag> %(time) %(message)", timestamp pattern = literal text (or %z for the time-zone member)
  std::string const tag = o.format_pattern.substr(0, o.format_pattern.find(' '));
  std::string ts = o.timestamp_pattern;
  if (ts == "%z") ts = (o.timestamp_timezone == quill::Timezone::GmtTime) ? "+0000" : "+0900";
  std::string out;
  if (o.add_metadata_to_multi_line_logs)
  {
    size_t p = 0;
    while (p <= msg.size())
    {
      size_t q = msg.find('\n', p);
      std::string part = msg.substr(p, q == std::string::npos ? std::string::npos : q - p);
      out += tag + " " + ts + " " + part + "\n";
      if (q == std::string::npos) break;
      p = q + 1;
    }
  }
  else out = tag + " " + ts + " " + msg + "\n";
  return out;
}

static bool run_case(std::vector<u64> const& a)
{
  ++g_case;
  u64 member = a[0], order = a[1], noise = a[2];
  quill::PatternFormatterOptions oa{"A %(time) %(message)", "TTT", quill::Timezone::GmtTime, false};
  quill::PatternFormatterOptions ob = oa;
  if (member == 0) ob.format_pattern = "B %(time) %(message)";
  if (member == 1) ob.timestamp_pattern = "UUU";
  if (member == 2) { oa.timestamp_pattern = "%z"; ob.timestamp_pattern = "%z"; ob.timestamp_timezone = quill::Timezone::LocalTime; }
  if (member == 3) ob.add_metadata_to_multi_line_logs = true;
  std::string const u = std::to_string(g_case);
  auto sa = quill::Frontend::create_or_get_sink<Rec>("sa" + u);
  auto sb = quill::Frontend::create_or_get_sink<Rec>("sb" + u);
  std::vector<quill::Logger*> all;
  quill::Logger* la = quill::Frontend::create_or_get_logger("la" + u, sa, oa);
  quill::Logger* lb = quill::Frontend::create_or_get_logger("lb" + u, sb, ob);
  all.push_back(la); all.push_back(lb);
  std::vector<std::shared_ptr<quill::Sink>> ns;
  for (u64 k = 0; k < noise; ++k)
  {
    auto s = quill::Frontend::create_or_get_sink<Rec>("sn" + u + "_" + std::to_string(k));
    ns.push_back(s);
    quill::PatternFormatterOptions on{"N" + std::to_string(k) + " %(time) %(message)", "TTT", quill::Timezone::GmtTime, false};
    all.push_back(quill::Frontend::create_or_get_logger("ln" + u + "_" + std::to_string(k), s, on));
  }
  std::string const msg = "x\ny";
  quill::Logger* first = order ? lb : la;
  quill::Logger* second = order ? la : lb;
  for (size_t k = 2; k < all.size(); ++k) LOG_INFO(all[k], "{}", msg);
  LOG_INFO(first, "{}", msg);
  g_bw->poll();
  LOG_INFO(second, "{}", msg);
  g_bw->poll();
  LOG_INFO(first, "{}", msg);
  LOG_INFO(second, "{}", msg);
  g_bw->poll();
  auto text = [](std::shared_ptr<quill::Sink> const& s) { std::string t; for (auto const& l : static_cast<Rec*>(s.get())->lines) t += l; return t; };
  std::string wa = expect(oa, msg) + expect(oa, msg), wb = expect(ob, msg) + expect(ob, msg);
  bool ok = text(sa) == wa && text(sb) == wb;
  if (!ok)
    fprintf(stderr, "pfshare member=%llu order=%llu noise=%llu: logger A lines [%s] expected [%s]; logger B lines [%s] expected [%s]\n",
            (unsigned long long)member, (unsigned long long)order, (unsigned long long)noise, text(sa).c_str(), wa.c_str(), text(sb).c_str(), wb.c_str());
  for (auto* l : all) quill::Frontend::remove_logger(l);
  sa.reset(); sb.reset(); ns.clear();
  for (int k = 0; k < 8; ++k) g_bw->poll_one();
  return ok;
}

int main()
{
  setenv("TZ", "Asia/Tokyo", 1);
  tzset();
  g_bw = quill::Backend::acquire_manual_backend_worker();
  quill::BackendOptions bo;
  bo.check_printable_char = {};
  g_bw->init(bo);
  std::string model; std::vector<u64> a;
  while (vh::read_case(model, a))
  {
    std::vector<u64> out{run_case(a) ? 1u : 0u};
    vh::print_line(out);
  }
  std::_Exit(0);
}
