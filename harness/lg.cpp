// Deterministic driver of the real logger / sink registries and of the removal protocol (T-corr for C17):
// Frontend::create_or_get_logger / get_logger / remove_logger / remove_logger_blocking / create_or_get_sink,
// LoggerManager, SinkManager and the backend through ManualBackendWorker::poll_one().
// One OS thread runs at any time: the coordinator (main thread) owns the backend and executes the registry
// calls; logical frontend threads are real OS threads (own thread_local context, registered in a fixed order
// at start-up) that execute one command at a time and park. remove_logger_blocking parks in the interposed
// nanosleep of its wait loop; command 8 lets it look at the flag once more. Frontend commands can be injected
// at the QUILL_VERIF yield points inside a poll, and inside the destructor of a recording sink when the sink is
// destroyed by the backend, i.e. inside the loop of LoggerManager::cleanup_invalidated_loggers while it erases a
// logger (no hook of the library involved: a sink destructor is user code). Time is virtual (one tick per
// committed record), so the backend's "lowest timestamp first" is the commit order.
//
// Injection keys of a poll (11 n (key ntok tok..)*n): 1, 5, 6, 8 = yield point; 30+k = yield point 3 before queue k is
// read; 100+name = inside the destructor of the sink of that name when the backend destroys it (fires when that sink is
// the last one of every logger created over it, so that the destructor is the last event of the erase; calls that need
// the LoggerManager lock, held by the backend there, make no step).
// case line: see Registry/RegExec.v (lg_run_enc). Output: the API-level observation stream (same encoding):
// (every call echoes its arguments, so the stream is a self-contained API trace)
//   1 S L m          sink S wrote message m of logger object L        2 S   sink S destroyed
//   3 h name S       handle h := create_or_get_sink(name) returned object S (0: handle in use, call skipped)
//   14 h r           handle h reset (r = 0: was empty)
//   4 v name L k h.. v := create_or_get_logger(name, handles h..) returned object L
//   5 v name L       v := get_logger(name) returned L (0: null)
//   6 t v m r        thread t logs m through v (r = 1 committed, 0 skipped: v empty or t blocked)
//   7 v r            remove_logger(v)
//   8 t v r          thread t: remove_logger_blocking(v) (2 parked in the wait loop, 1 returned, 0 skipped)
//   9 t r            thread t looks at its flag once more (1 returned, 2 still parked, 0 not blocked)
//   10 n             get_number_of_loggers (also printed after every poll)   11 n L1..Ln  get_all_loggers
// Object identities are creation numbers: a logger carries its number in its pattern ("%(message)|k"), a sink
// in a constructor argument; both are read back through the returned pointer.
#include "common.h"

#include <algorithm>
#include <atomic>
#include <condition_variable>
#include <cstring>
#include <ctime>
#include <dlfcn.h>
#include <functional>
#include <map>
#include <mutex>
#include <thread>

#include "quill/Backend.h"
#include "quill/Frontend.h"
#include "quill/Logger.h"
#include "quill/sinks/Sink.h"

using vh::u64;

// ------------------------------------------------------------------ virtual time + parking
static std::atomic<long long> g_clock{1700000000000000000LL};

struct Worker;
static thread_local Worker* tl_worker = nullptr;

struct Worker
{
  std::thread th;
  std::mutex m;
  std::condition_variable cv;
  enum State { IDLE, RUN, PARKED, RESUME, DONE, QUIT } state{IDLE};
  std::function<void()> cmd;
  bool in_cmd{false};

  void park()
  {
    std::unique_lock<std::mutex> lk(m);
    state = PARKED;
    cv.notify_all();
    cv.wait(lk, [this] { return state == RESUME; });
    state = RUN;
  }
};

extern "C" int clock_gettime(clockid_t id, struct timespec* ts) noexcept
{
  using fn = int (*)(clockid_t, struct timespec*);
  static fn real = reinterpret_cast<fn>(dlsym(RTLD_NEXT, "clock_gettime"));
  if (id != CLOCK_REALTIME) return real(id, ts);
  long long now = g_clock.load();
  ts->tv_sec = now / 1000000000LL;
  ts->tv_nsec = now % 1000000000LL;
  return 0;
}

static int park_sleep()
{
  if (tl_worker && tl_worker->in_cmd) { tl_worker->park(); return 0; }
  return -1;
}
extern "C" int nanosleep(const struct timespec* req, struct timespec* rem)
{
  using fn = int (*)(const struct timespec*, struct timespec*);
  static fn real = reinterpret_cast<fn>(dlsym(RTLD_NEXT, "nanosleep"));
  if (park_sleep() == 0) return 0;
  return real(req, rem);
}
extern "C" int clock_nanosleep(clockid_t id, int flags, const struct timespec* req, struct timespec* rem)
{
  using fn = int (*)(clockid_t, int, const struct timespec*, struct timespec*);
  static fn real = reinterpret_cast<fn>(dlsym(RTLD_NEXT, "clock_nanosleep"));
  if (park_sleep() == 0) return 0;
  return real(id, flags, req, rem);
}

// ------------------------------------------------------------------ observation stream
static std::vector<u64> g_obs;
static bool g_rec = false;
static void obs(std::initializer_list<u64> l)
{
  if (g_rec) g_obs.insert(g_obs.end(), l);
}

static bool parse_num(std::string_view s, size_t& i, u64& out)
{
  size_t b = i;
  out = 0;
  while (i < s.size() && s[i] >= '0' && s[i] <= '9') { out = out * 10 + static_cast<u64>(s[i] - '0'); ++i; }
  return i > b;
}

// ------------------------------------------------------------------ recording sink
static void on_sink_destroyed(u64 uid, u64 name);

class RecSink : public quill::Sink
{
public:
  RecSink(u64 uid, u64 name) : _uid(uid), _name(name) {}
  ~RecSink() override
  {
    obs({2, _uid});
    on_sink_destroyed(_uid, _name);
  }
  void write_log(quill::MacroMetadata const*, uint64_t, std::string_view, std::string_view, std::string const&,
                 std::string_view, quill::LogLevel, std::string_view, std::string_view,
                 std::vector<std::pair<std::string, std::string>> const*, std::string_view, std::string_view statement) override
  {
    size_t i = 0;
    u64 m = 0, k = 0;
    bool ok = parse_num(statement, i, m) && i < statement.size() && statement[i] == '|';
    if (ok) { ++i; ok = parse_num(statement, i, k); }
    if (!ok) { obs({15, 1}); return; }
    obs({1, _uid, k, m});
  }
  void flush_sink() override {}
  u64 uid() const { return _uid; }

private:
  u64 _uid;
  u64 _name;
};

static void notifier(std::string const&) { obs({15, 2}); }

static constexpr quill::MacroMetadata kLogMeta{"lg.cpp:1", "drv", "{}", nullptr, quill::LogLevel::Info,
                                               quill::MacroMetadata::Event::Log};

// ------------------------------------------------------------------ coordinator
static constexpr u64 NTMAX = 3;
static quill::ManualBackendWorker* g_backend = nullptr;
static std::vector<std::unique_ptr<Worker>> g_workers;
static std::map<u64, std::shared_ptr<quill::Sink>> g_hnd; // user handles
static std::map<u64, quill::Logger*> g_vars;               // user logger variables
static u64 g_next_sink = 1, g_next_logger = 1, g_nt = 0;
static int g_case = 0;
static std::vector<std::vector<u64>> g_lsinks; // sink objects given to each logger object created in this case
static bool g_in_poll = false;                 // the coordinator is inside poll_one()
static int g_in_cmd = 0;                       // ... inside a command of the case (top level or injected)
static bool g_in_dtor = false;                 // ... inside an injection at a sink destructor (LoggerManager lock held by the backend)

static void spawn_worker()
{
  auto w = std::make_unique<Worker>();
  Worker* wp = w.get();
  wp->th = std::thread([wp] {
    tl_worker = wp;
    std::unique_lock<std::mutex> lk(wp->m);
    while (true)
    {
      wp->cv.wait(lk, [wp] { return wp->state == Worker::RUN || wp->state == Worker::QUIT; });
      if (wp->state == Worker::QUIT) break;
      lk.unlock();
      wp->in_cmd = true;
      wp->cmd();
      wp->in_cmd = false;
      lk.lock();
      wp->state = Worker::DONE;
      wp->cv.notify_all();
    }
  });
  g_workers.push_back(std::move(w));
}

// returns true if the command finished, false if the thread parked
static bool wait_worker(Worker& w)
{
  std::unique_lock<std::mutex> lk(w.m);
  w.cv.wait(lk, [&w] { return w.state == Worker::DONE || w.state == Worker::PARKED; });
  if (w.state == Worker::DONE) { w.state = Worker::IDLE; return true; }
  return false;
}
static bool start_cmd(Worker& w, std::function<void()> f)
{
  {
    std::lock_guard<std::mutex> lk(w.m);
    w.cmd = std::move(f);
    w.state = Worker::RUN;
  }
  w.cv.notify_all();
  return wait_worker(w);
}
static bool parked(Worker& w)
{
  std::lock_guard<std::mutex> lk(w.m);
  return w.state == Worker::PARKED;
}
static bool resume(Worker& w)
{
  {
    std::lock_guard<std::mutex> lk(w.m);
    if (w.state != Worker::PARKED) return true;
    w.state = Worker::RESUME;
  }
  w.cv.notify_all();
  return wait_worker(w);
}

static std::string lname(u64 n)
{
  char b[64];
  snprintf(b, sizeof b, "c%07d_L%08llu", g_case, n);
  return b;
}
static std::string sname(u64 n)
{
  char b[64];
  snprintf(b, sizeof b, "c%07d_S%08llu", g_case, n);
  return b;
}
static u64 logger_uid(quill::detail::LoggerBase* lg)
{
  std::string const& p = lg->get_pattern_formatter_options().format_pattern;
  size_t i = p.rfind('|');
  if (i == std::string::npos) return 0;
  return std::stoull(p.substr(i + 1));
}

struct Cmd
{
  u64 code;
  std::vector<u64> a;
};

static size_t parse_simple(std::vector<u64> const& l, size_t i, size_t end, std::vector<Cmd>& out, size_t max_cmds)
{
  while (i < end && out.size() < max_cmds)
  {
    u64 c = l[i];
    size_t n;
    if (c == 1 || c == 4 || c == 7) n = 2;
    else if (c == 2 || c == 6 || c == 8) n = 1;
    else if (c == 5) n = 3;
    else if (c == 9 || c == 10) n = 0;
    else if (c == 3)
    {
      if (i + 3 >= end) break;
      n = 3 + static_cast<size_t>(l[i + 3]);
    }
    else break;
    if (i + 1 + n > end) break;
    out.push_back({c, std::vector<u64>(l.begin() + i + 1, l.begin() + i + 1 + n)});
    i += 1 + n;
  }
  return i;
}

static bool tfree(u64 t) { return t < g_nt && !parked(*g_workers[t]); }

static void exec_simple(Cmd const& c)
{
  auto const& a = c.a;
  // create_or_get_logger / get_logger / get_number_of_loggers / get_all_loggers take the LoggerManager lock: a thread
  // calling them while the backend is inside the clean-up loop makes no step until the loop is over
  if (g_in_dtor && (c.code == 3 || c.code == 4 || c.code == 9 || c.code == 10)) return;
  struct Depth { Depth() { ++g_in_cmd; } ~Depth() { --g_in_cmd; } } depth;
  switch (c.code)
  {
  case 1: // handle h := create_or_get_sink(name)
  {
    if (g_hnd.count(a[0])) { obs({3, a[0], a[1], 0}); break; }
    auto s = quill::Frontend::create_or_get_sink<RecSink>(sname(a[1]), g_next_sink, a[1]);
    u64 uid = static_cast<RecSink*>(s.get())->uid();
    if (uid == g_next_sink) ++g_next_sink;
    g_hnd[a[0]] = std::move(s);
    obs({3, a[0], a[1], uid});
    break;
  }
  case 2: // handle reset
  {
    auto it = g_hnd.find(a[0]);
    if (it == g_hnd.end()) { obs({14, a[0], 0}); break; }
    obs({14, a[0], 1});
    g_hnd.erase(it);
    break;
  }
  case 3: // v := create_or_get_logger(name, {handles})
  {
    std::vector<std::shared_ptr<quill::Sink>> ss;
    std::vector<u64> suids;
    for (size_t j = 0; j < a[2]; ++j)
    {
      auto it = g_hnd.find(a[3 + j]);
      if (it != g_hnd.end()) { ss.push_back(it->second); suids.push_back(static_cast<RecSink*>(it->second.get())->uid()); }
    }
    quill::Logger* lg = quill::Frontend::create_or_get_logger(
      lname(a[1]), std::move(ss), quill::PatternFormatterOptions{"%(message)|" + std::to_string(g_next_logger)},
      quill::ClockSourceType::System);
    u64 uid = logger_uid(lg);
    if (uid == g_next_logger) { ++g_next_logger; g_lsinks.push_back(std::move(suids)); }
    g_vars[a[0]] = lg;
    obs({4, a[0], a[1], uid, a[2]});
    for (size_t j = 0; j < a[2]; ++j) obs({a[3 + j]});
    break;
  }
  case 4: // v := get_logger(name)
  {
    quill::Logger* lg = quill::Frontend::get_logger(lname(a[1]));
    if (lg) { g_vars[a[0]] = lg; obs({5, a[0], a[1], logger_uid(lg)}); }
    else { g_vars.erase(a[0]); obs({5, a[0], a[1], 0}); }
    break;
  }
  case 5: // thread t logs m through v
  {
    if (!tfree(a[0])) { obs({6, a[0], a[1], a[2], 0}); break; }
    auto it = g_vars.find(a[1]);
    if (it == g_vars.end()) { obs({6, a[0], a[1], a[2], 0}); break; }
    quill::Logger* lg = it->second;
    u64 m = a[2];
    g_clock.fetch_add(1);
    static std::atomic<bool> ok;
    ok.store(false);
    bool done = start_cmd(*g_workers[a[0]], [lg, m] { ok.store(lg->log_statement<false, false>(quill::LogLevel::None, &kLogMeta, m)); });
    obs({6, a[0], a[1], a[2], static_cast<u64>(done && ok.load() ? 1 : 0)});
    break;
  }
  case 6: // remove_logger(v)
  {
    auto it = g_vars.find(a[0]);
    if (it == g_vars.end()) { obs({7, a[0], 0}); break; }
    quill::Frontend::remove_logger(it->second);
    g_vars.erase(it);
    obs({7, a[0], 1});
    break;
  }
  case 7: // thread t: remove_logger_blocking(v)
  {
    if (!tfree(a[0])) { obs({8, a[0], a[1], 0}); break; }
    auto it = g_vars.find(a[1]);
    if (it == g_vars.end()) { obs({8, a[0], a[1], 0}); break; }
    quill::Logger* lg = it->second;
    u64 const var = a[1];
    g_vars.erase(it);
    g_clock.fetch_add(1);
    bool done = start_cmd(*g_workers[a[0]], [lg] { quill::Frontend::remove_logger_blocking(lg, 100); });
    obs({8, a[0], var, static_cast<u64>(done ? 1 : 2)});
    break;
  }
  case 8: // the parked thread looks at its flag once more
  {
    if (a[0] >= g_nt || !parked(*g_workers[a[0]])) { obs({9, a[0], 0}); break; }
    bool done = resume(*g_workers[a[0]]);
    obs({9, a[0], static_cast<u64>(done ? 1 : 2)});
    break;
  }
  case 9: obs({10, static_cast<u64>(quill::Frontend::get_number_of_loggers())}); break;
  case 10:
  {
    auto v = quill::Frontend::get_all_loggers();
    obs({11, static_cast<u64>(v.size())});
    for (auto* lg : v) obs({logger_uid(lg)});
    break;
  }
  default: break;
  }
}

struct Inj
{
  u64 key;
  std::vector<Cmd> cmds;
};
static std::vector<Inj> g_inj;
static std::map<int, u64> g_visits;

static void on_yield(int point)
{
  u64 v = g_visits[point]++;
  u64 key;
  if (point == 3)
  {
    if (v >= g_nt) return; // the case uses the first g_nt thread contexts only
    key = 30 + v;
  }
  else if ((point == 1 || point == 5 || point == 6 || point == 8) && v == 0) key = static_cast<u64>(point);
  else return;
  for (auto const& inj : g_inj)
    if (inj.key == key)
      for (auto const& c : inj.cmds) exec_simple(c);
}

// Runs inside ~RecSink. The sink is destroyed by the backend iff the coordinator is inside poll_one() and not inside a
// command injected there (a handle reset): the backend owns no sink, it releases one only when it erases a logger in
// the clean-up loop. The injection (key 100 + sink name) fires when this destructor is the last event of the erase:
// the sink is the last one of every logger created over it (Registry/RegExec.v, dtor_fires).
static void on_sink_destroyed(u64 uid, u64 name)
{
  if (!g_rec || !g_in_poll || g_in_cmd != 0 || g_in_dtor) return;
  for (auto const& l : g_lsinks)
    if (std::find(l.begin(), l.end(), uid) != l.end() && l.back() != uid) return;
  g_in_dtor = true;
  for (auto const& inj : g_inj)
    if (inj.key == 100 + name)
      for (auto const& c : inj.cmds) exec_simple(c);
  g_in_dtor = false;
}

static void do_poll()
{
  g_visits.clear();
  g_in_poll = true;
  g_backend->poll_one();
  g_in_poll = false;
  g_inj.clear();
  obs({10, static_cast<u64>(quill::Frontend::get_number_of_loggers())});
}

static void run_case(std::vector<u64> const& l)
{
  ++g_case;
  if (l.size() < 7) { vh::print_line({}); return; }
  size_t i = 6; // the six configuration flags are facts of the source, not inputs of the implementation
  g_nt = l[i++];
  if (g_nt > NTMAX) g_nt = NTMAX;
  g_next_sink = 1; g_next_logger = 1;
  g_lsinks.clear();
  g_obs.clear();
  g_rec = true;

  while (i < l.size())
  {
    if (l[i] == 11)
    {
      if (i + 1 >= l.size()) break;
      u64 n = l[i + 1]; i += 2;
      g_inj.clear();
      bool bad = false;
      for (u64 k = 0; k < n; ++k)
      {
        if (i + 1 >= l.size()) { bad = true; i = l.size(); break; }
        Inj inj; inj.key = l[i]; u64 ntok = l[i + 1]; i += 2;
        size_t end = std::min(l.size(), i + static_cast<size_t>(ntok));
        parse_simple(l, i, end, inj.cmds, static_cast<size_t>(-1));
        i = end;
        g_inj.push_back(std::move(inj));
      }
      (void)bad;
      do_poll();
    }
    else if (l[i] == 12) { ++i; g_inj.clear(); do_poll(); }
    else if (l[i] == 13)
    {
      if (i + 2 >= l.size()) break;
      u64 t = l[i + 1], ntok = l[i + 2]; i += 3;
      size_t end = std::min(l.size(), i + static_cast<size_t>(ntok));
      std::vector<Cmd> cs;
      parse_simple(l, i, end, cs, static_cast<size_t>(-1));
      i = end;
      if (tfree(t))
        for (auto const& c : cs) exec_simple(c);
    }
    else
    {
      std::vector<Cmd> one;
      size_t j = parse_simple(l, i, l.size(), one, 1);
      if (one.empty()) break;
      exec_simple(one[0]);
      i = j;
    }
  }
  g_rec = false;
  vh::print_line(g_obs);
  g_obs.clear();

  // ---- clean-up so that the next case starts from empty registries
  g_vars.clear();
  for (auto* lg : quill::Frontend::get_all_loggers()) quill::Frontend::remove_logger(lg);
  g_hnd.clear();
  int guard = 0;
  while (guard++ < 20000)
  {
    bool any_parked = false;
    for (auto& w : g_workers)
      if (parked(*w)) { resume(*w); any_parked = any_parked || parked(*w); }
    if (!any_parked && quill::Frontend::get_number_of_loggers() == 0) break;
    g_backend->poll_one();
  }
  if (guard >= 20000) { fprintf(stderr, "lg.cpp: registries did not drain at the end of the case\n"); std::_Exit(97); }
}

int main()
{
  quill::detail::verif_yield_fn() = &on_yield;
  g_backend = quill::Backend::acquire_manual_backend_worker();
  quill::BackendOptions bo;
  bo.error_notifier = notifier;
  bo.log_timestamp_ordering_grace_period = std::chrono::microseconds{0};
  bo.check_printable_char = {};
  g_backend->init(bo);
  // the logical threads register their contexts in a fixed order: the backend's cache order is 0, 1, 2
  for (u64 t = 0; t < NTMAX; ++t)
  {
    spawn_worker();
    start_cmd(*g_workers[t], [] { quill::Frontend::preallocate(); });
    g_backend->poll_one();
  }
  std::string model; std::vector<u64> a;
  while (vh::read_case(model, a)) run_case(a);
  std::_Exit(0); // skip static destruction of the backend singleton
}
