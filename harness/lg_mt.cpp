// Real-thread stress for C17 (schedule independent monitor): T frontend threads and the real backend thread.
// Each thread repeatedly: creates a private sink and a logger of its own name over {private sink, one shared sink},
// looks loggers up by name (its own, the other threads', a shared one), logs M numbered statements, drops its handle
// on the private sink and calls remove_logger_blocking. When that call returns it checks, on the spot:
//   - all M statements of this round are in the private sink, in order (nothing logged before the removal is lost),
//   - the private sink has been destroyed (no other owner), the shared sink has not,
//   - get_logger(name) is null and create_or_get_logger(name) builds a new logger over the next round's sink.
// Then all threads create one shared fresh name at the same moment (spin barrier): everybody must get the same logger;
// one of them removes it again.
// At the end the shared sink holds T*R*M statements. Prints "OK ..." or the first failure. Built plain, with
// ThreadSanitizer and with AddressSanitizer by props/c17.py (thorough tier).
// usage: lg_mt <threads> <rounds> <statements per round>
#include <algorithm>
#include <atomic>
#include <cstdio>
#include <cstdlib>
#include <string>
#include <thread>
#include <vector>

#include "quill/Backend.h"
#include "quill/Frontend.h"
#include "quill/LogMacros.h"
#include "quill/Logger.h"
#include "quill/sinks/Sink.h"

static std::atomic<bool> g_fail{false};
static std::string g_msg;
static std::atomic<int> g_msg_lock{0};
static void fail(std::string const& m)
{
  if (g_msg_lock.exchange(1) == 0) g_msg = m;
  g_fail.store(true);
}

struct Slot
{
  std::atomic<long> count{0};
  std::atomic<long> last{-1};
  std::atomic<bool> order_ok{true};
  std::atomic<bool> destroyed{false};
};

class CountSink : public quill::Sink
{
public:
  explicit CountSink(Slot* s) : _s(s) {}
  ~CountSink() override { _s->destroyed.store(true); }
  void write_log(quill::MacroMetadata const*, uint64_t, std::string_view, std::string_view, std::string const&,
                 std::string_view, quill::LogLevel, std::string_view, std::string_view,
                 std::vector<std::pair<std::string, std::string>> const*, std::string_view msg, std::string_view) override
  {
    long v = std::atol(std::string(msg).c_str());
    if (_ordered)
    {
      if (v != _s->last.load() + 1) _s->order_ok.store(false);
      _s->last.store(v);
    }
    _s->count.fetch_add(1);
  }
  void flush_sink() override {}
  void unordered() { _ordered = false; }

private:
  Slot* _s;
  bool _ordered{true};
};

// spin barrier that gives up when a failure was recorded (the other threads leave their loops then)
static std::atomic<int> g_bar_count{0};
static std::atomic<int> g_bar_gen{0};
static bool barrier(int T)
{
  int const g = g_bar_gen.load();
  if (g_bar_count.fetch_add(1) + 1 == T)
  {
    g_bar_count.store(0);
    g_bar_gen.fetch_add(1);
    return !g_fail.load();
  }
  while (g_bar_gen.load() == g)
  {
    if (g_fail.load()) return false;
    std::this_thread::yield();
  }
  return !g_fail.load();
}

int main(int argc, char** argv)
{
  int T = argc > 1 ? std::atoi(argv[1]) : 4;
  int R = argc > 2 ? std::atoi(argv[2]) : 200;
  int M = argc > 3 ? std::atoi(argv[3]) : 20;
  quill::BackendOptions bo;
  bo.sleep_duration = std::chrono::nanoseconds{0};
  quill::Backend::start(bo);

  static Slot shared_slot;
  auto shared = quill::Frontend::create_or_get_sink<CountSink>("shared", &shared_slot);
  static_cast<CountSink*>(shared.get())->unordered();
  std::vector<std::vector<Slot>> slots(static_cast<size_t>(T));
  for (auto& v : slots) v = std::vector<Slot>(static_cast<size_t>(R));

  static std::vector<std::atomic<quill::Logger*>> got(static_cast<size_t>(T));
  std::vector<std::thread> ths;
  for (int t = 0; t < T; ++t)
  {
    ths.emplace_back([t, T, R, M, &slots, shared] {
      std::string const name = "L" + std::to_string(t);
      for (int r = 0; r < R && !g_fail.load(); ++r)
      {
        Slot* sl = &slots[static_cast<size_t>(t)][static_cast<size_t>(r)];
        std::string const sname = "s" + std::to_string(t) + "_" + std::to_string(r);
        auto priv = quill::Frontend::create_or_get_sink<CountSink>(sname, sl);
        if (quill::Frontend::create_or_get_sink<CountSink>(sname, sl).get() != priv.get()) { fail("create_or_get_sink not idempotent"); break; }
        quill::Logger* lg = quill::Frontend::create_or_get_logger(name, {priv, shared}, quill::PatternFormatterOptions{"%(message)"});
        if (quill::Frontend::create_or_get_logger(name, {shared}) != lg) { fail("create_or_get_logger not idempotent"); break; }
        if (quill::Frontend::get_logger(name) != lg) { fail("get_logger does not return the created logger"); break; }
        // concurrent look-ups of other threads' names and of the whole registry. The returned pointers are not dereferenced:
        // another thread's logger may be removed (and freed by the backend) at any time after the call returns
        (void)quill::Frontend::get_logger("L" + std::to_string((t + 1) % T));
        {
          auto all = quill::Frontend::get_all_loggers();
          if (std::find(all.begin(), all.end(), lg) == all.end()) { fail("get_all_loggers does not list the caller's valid logger"); break; }
        }
        for (int i = 0; i < M; ++i) LOG_INFO(lg, "{}", i);
        priv.reset();
        quill::Frontend::remove_logger_blocking(lg, 0);
        if (sl->count.load() != M) { fail("remove_logger_blocking returned with " + std::to_string(sl->count.load()) + " of " + std::to_string(M) + " statements written (thread " + std::to_string(t) + " round " + std::to_string(r) + ")"); break; }
        if (!sl->order_ok.load()) { fail("statements out of order in the private sink"); break; }
        if (!sl->destroyed.load()) { fail("remove_logger_blocking returned but the unshared sink is not destroyed"); break; }
        if (shared_slot.destroyed.load()) { fail("shared sink destroyed while referenced"); break; }
        if (quill::Frontend::get_logger(name) != nullptr) { fail("get_logger finds the removed logger"); break; }
        // all threads create one and the same fresh name at once: one logger, the same pointer for everybody
        std::string const gname = "G" + std::to_string(r);
        if (!barrier(T)) break;
        quill::Logger* g = quill::Frontend::create_or_get_logger(gname, {shared}, quill::PatternFormatterOptions{"%(message)"});
        got[static_cast<size_t>(t)].store(g);
        if (!barrier(T)) break;
        for (int u = 0; u < T; ++u)
          if (got[static_cast<size_t>(u)].load() != g) fail("threads creating logger '" + gname + "' at the same time got different loggers: two loggers registered under one name");
        if (!barrier(T)) break;
        if (t == 0)
        {
          quill::Frontend::remove_logger_blocking(g, 0);
          if (quill::Frontend::get_logger(gname) != nullptr) fail("get_logger('" + gname + "') still finds a logger after remove_logger_blocking returned");
        }
      }
    });
  }
  for (auto& th : ths) th.join();
  // the removals are complete; the shared sink received everything
  long want = static_cast<long>(T) * R * M;
  if (!g_fail.load() && shared_slot.count.load() != want)
    fail("shared sink has " + std::to_string(shared_slot.count.load()) + " of " + std::to_string(want) + " statements");
  if (!g_fail.load() && quill::Frontend::get_number_of_loggers() != 0)
    fail("loggers left: " + std::to_string(quill::Frontend::get_number_of_loggers()));
  shared.reset();
  quill::Backend::stop();
  if (g_fail.load()) { printf("FAIL %s\n", g_msg.c_str()); return 1; }
  printf("OK threads=%d rounds=%d statements=%ld\n", T, R, want);
  return 0;
}
