// Two real threads over quill::detail::BoundedSPSCQueueImpl<size_t>: variable-length self-describing
// records with a checksum; the consumer verifies order and content. Built plain and with
// -fsanitize=thread (TSan's vector clocks honour the memory_order arguments, so a weakened order
// shows up as a data race on the payload even on x86).
// usage: bq_mt <capacity> <records> <seed>     prints "OK <n>" or "CORRUPT <index>"
#include "quill/core/BoundedSPSCQueue.h"
#include <atomic>
#include <cstdio>
#include <cstdlib>
#include <cstring>
#include <thread>
using namespace quill::detail;

static inline uint32_t lcg(uint32_t& s) { s = s * 1664525u + 1013904223u; return s >> 8; }

int main(int argc, char** argv)
{
  size_t cap = argc > 1 ? strtoull(argv[1], nullptr, 10) : 1024;
  size_t nrec = argc > 2 ? strtoull(argv[2], nullptr, 10) : 100000;
  uint32_t seed = argc > 3 ? static_cast<uint32_t>(strtoul(argv[3], nullptr, 10)) : 1;
  BoundedSPSCQueueImpl<size_t> q(cap);
  size_t const maxlen = q.capacity() / 2 > 8 ? q.capacity() / 2 : 8;
  std::atomic<long> bad{-1};
  std::thread prod([&] {
    uint32_t s = seed;
    for (size_t i = 0; i < nrec; ++i)
    {
      size_t len = 8 + lcg(s) % (maxlen - 7);
      std::byte* p;
      while (!(p = q.prepare_write(len))) std::this_thread::yield();
      uint32_t hdr[2] = {static_cast<uint32_t>(len), static_cast<uint32_t>(i)};
      std::memcpy(p, hdr, 8);
      std::memset(p + 8, static_cast<int>(i & 0xff), len - 8);
      q.finish_and_commit_write(len);
    }
  });
  std::thread cons([&] {
    for (size_t i = 0; i < nrec; ++i)
    {
      std::byte* p;
      while (!(p = q.prepare_read())) std::this_thread::yield();
      uint32_t hdr[2]; std::memcpy(hdr, p, 8);
      bool ok = hdr[1] == static_cast<uint32_t>(i) && hdr[0] >= 8 && hdr[0] <= maxlen;
      for (size_t j = 8; ok && j < hdr[0]; ++j) ok = static_cast<unsigned char>(p[j]) == (i & 0xff);
      if (!ok) { bad.store(static_cast<long>(i)); std::printf("CORRUPT %zu\n", i); std::fflush(stdout); std::_Exit(3); }
      q.finish_read(hdr[0]);
      q.commit_read();
    }
  });
  prod.join(); cons.join();
  std::printf("OK %zu\n", nrec);
  return 0;
}
