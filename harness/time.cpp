// T-corr harness for C13 (unit level): drives the real quill::detail::TimestampFormatter (and
// through it two StringFromTime instances) and, separately, the real libc.
//
// case "time <strict> <local> <zlen> zone.. <plen> pattern.. <n> ns_1..ns_n [oracle table ignored]"
//   (<strict> is the model's code-variant flag, ignored here)
//   -> "0 code" when the constructor throws (1 = specifiers mutually exclusive / used more than once,
//      2 = %X or another conversion that "is not currently supported", 3 = other)
//      else "1" then per instant "<len> bytes.." (what format_timestamp returned)
// case "timeo <local> <zlen> zone.. <nf> {<flen> fmt..}*nf <n> t_1..t_n"      (libc oracle)
//   -> for every format, for every instant: "<len> bytes.." of gmtime_r/localtime_r + strftime;
//      then per instant: sod (tm_hour*3600+tm_min*60+tm_sec), tm_gmtoff + 1000000, tm_isdst + 1,
//      <len> tm_zone bytes, StringFromTime::_next_noon_or_midnight_timestamp(t),
//      StringFromTime::_next_quarter_hour_timestamp(t)
// The zone is installed with setenv("TZ") + tzset() per case (the python side additionally starts
// one child process per zone with TZ already set).
#include "common.h"
#include "quill/backend/TimestampFormatter.h"
#include <cstdlib>
#include <cstring>
#include <ctime>
using namespace quill;
using namespace quill::detail;

struct SFTx : StringFromTime
{
  static time_t nnm(time_t t) { return _next_noon_or_midnight_timestamp(t); }
  static time_t nqh(time_t t) { return _next_quarter_hour_timestamp(t); }
};

static std::string take_str(std::vector<vh::u64> const& a, size_t& i)
{
  std::string s;
  if (i >= a.size()) return s;
  size_t n = static_cast<size_t>(a[i++]);
  for (size_t k = 0; k < n && i < a.size(); ++k) s.push_back(static_cast<char>(a[i++]));
  return s;
}

static void put_str(std::vector<vh::u64>& out, char const* p, size_t n)
{
  out.push_back(n);
  for (size_t k = 0; k < n; ++k) out.push_back(static_cast<unsigned char>(p[k]));
}

static void set_zone(std::string const& z)
{
  char const* cur = getenv("TZ");
  if (!cur || z != cur)
  {
    setenv("TZ", z.c_str(), 1);
  }
  tzset();
}

static std::string libc_strftime(std::string const& f, time_t t, bool local)
{
  if (f.empty()) return std::string{};
  tm ti{};
  if (local) localtime_r(&t, &ti); else gmtime_r(&t, &ti);
  std::vector<char> buf(64);
  for (;;)
  {
    buf[0] = '\1';
    size_t r = strftime(buf.data(), buf.size(), f.c_str(), &ti);
    if (r != 0 || buf[0] == '\0') return std::string(buf.data(), r);
    if (buf.size() > (1u << 16)) return std::string{};
    buf.resize(buf.size() * 2);
  }
}

int main()
{
  std::string model; std::vector<vh::u64> a;
  while (vh::read_case(model, a))
  {
    std::vector<vh::u64> out;
    size_t i = model == "time" ? 1 : 0;
    bool local = i < a.size() && a[i++] != 0;
    std::string zone = take_str(a, i);
    set_zone(zone);
    if (model == "time")
    {
      std::string pat = take_str(a, i);
      size_t n = i < a.size() ? static_cast<size_t>(a[i++]) : 0;
      std::vector<long long> nss;
      for (size_t k = 0; k < n && i < a.size(); ++k) nss.push_back(static_cast<long long>(a[i++]));
      try
      {
        TimestampFormatter tf(pat, local ? Timezone::LocalTime : Timezone::GmtTime);
        out.push_back(1);
        for (long long ns : nss)
        {
          std::string_view sv = tf.format_timestamp(std::chrono::nanoseconds(ns));
          put_str(out, sv.data(), sv.size());
        }
      }
      catch (QuillError const& e)
      {
        out.clear(); out.push_back(0);
        std::string w = e.what();
        bool const excl = w.find("mutually exclusive") != std::string::npos || w.find("only be used once") != std::string::npos;
        out.push_back(excl ? 1 : (w.find("not currently supported") != std::string::npos ? 2 : 3));
      }
    }
    else if (model == "timeo")
    {
      size_t nf = i < a.size() ? static_cast<size_t>(a[i++]) : 0;
      std::vector<std::string> fs;
      for (size_t k = 0; k < nf; ++k) fs.push_back(take_str(a, i));
      size_t n = i < a.size() ? static_cast<size_t>(a[i++]) : 0;
      std::vector<time_t> ts;
      for (size_t k = 0; k < n && i < a.size(); ++k) ts.push_back(static_cast<time_t>(a[i++]));
      for (auto const& f : fs)
        for (time_t t : ts)
        {
          std::string s = libc_strftime(f, t, local);
          put_str(out, s.data(), s.size());
        }
      for (time_t t : ts)
      {
        tm ti{};
        if (local) localtime_r(&t, &ti); else gmtime_r(&t, &ti);
        out.push_back(static_cast<vh::u64>(ti.tm_hour * 3600 + ti.tm_min * 60 + ti.tm_sec));
        out.push_back(static_cast<vh::u64>(ti.tm_gmtoff + 1000000));
        out.push_back(static_cast<vh::u64>(ti.tm_isdst + 1));
        char const* z = ti.tm_zone ? ti.tm_zone : "";
        put_str(out, z, strlen(z));
        out.push_back(static_cast<vh::u64>(SFTx::nnm(t)));
        out.push_back(static_cast<vh::u64>(SFTx::nqh(t)));
      }
    }
    else
    {
      out.push_back(9);
    }
    vh::print_line(out);
  }
  return 0;
}
