// Two real threads on one real quill::detail::ThreadContext (constructed the way ScopedThreadContext
// does: make_shared<ThreadContext>(queue_type, initial_queue_capacity, unbounded_queue_max_capacity,
// huge_pages_policy)): the producer calls increment_failure_counter() N times (what
// LoggerImpl::log_statement does for each discarded statement), the consumer keeps calling
// get_and_reset_failure_counter() and adds up what it returns (what BackendWorker::_check_failure_counter
// passes to the error notifier); after both joined one more get_and_reset drains the counter.
// Property C08 (count clause): the sum equals N. Proved for every interleaving of the micro-steps in
// Backend/FailCounterProofs.v when the increment is one atomic read-modify-write and the reset one
// atomic exchange; this harness is the search for a failing input when that tie breaks, and a standing
// stress check. Not a data race even when broken (all accesses are atomic), so the outcome itself is
// the observation; the TSan build additionally catches a counter that is no longer atomic at all.
//
// case line:  failc_mt <N> <pin>      pin: 0 = do not pin, 1 = pin the two threads to two different CPUs
// observation: <N> <sum> <consumer calls that returned non-zero>
#include "common.h"
#include "quill/backend/ThreadUtilities.h" // defines get_thread_id / get_thread_name used by the ThreadContext constructor
#include "quill/core/ThreadContextManager.h"
#include <atomic>
#include <memory>
#include <thread>
#if defined(__linux__)
  #include <pthread.h>
  #include <sched.h>
#endif
using namespace quill;
using namespace quill::detail;

static void pin_to(unsigned k)
{
#if defined(__linux__)
  cpu_set_t all;
  CPU_ZERO(&all);
  if (sched_getaffinity(0, sizeof(all), &all) != 0) return;
  int n = CPU_COUNT(&all);
  if (n < 2) return;
  int want = static_cast<int>(k % static_cast<unsigned>(n)), seen = 0;
  for (int c = 0; c < CPU_SETSIZE; ++c)
  {
    if (!CPU_ISSET(c, &all)) continue;
    if (seen++ == want)
    {
      cpu_set_t one;
      CPU_ZERO(&one);
      CPU_SET(c, &one);
      pthread_setaffinity_np(pthread_self(), sizeof(one), &one); // best effort
      return;
    }
  }
#else
  (void)k;
#endif
}

int main()
{
  std::string model;
  std::vector<vh::u64> a;
  while (vh::read_case(model, a))
  {
    vh::u64 const n = a.size() > 0 ? a[0] : 100000;
    bool const pin = a.size() > 1 && a[1] != 0;
    auto tc = std::make_shared<ThreadContext>(QueueType::BoundedDropping, size_t{4096}, size_t{4096}, HugePagesPolicy::Never);
    std::atomic<int> ready{0};
    std::atomic<bool> done{false};
    vh::u64 sum = 0, nonzero = 0;
    std::thread prod([&] {
      if (pin) pin_to(0);
      ready.fetch_add(1);
      while (ready.load() < 2) {}
      for (vh::u64 i = 0; i < n; ++i) tc->increment_failure_counter();
      done.store(true, std::memory_order_release);
    });
    std::thread cons([&] {
      if (pin) pin_to(1);
      ready.fetch_add(1);
      while (ready.load() < 2) {}
      while (!done.load(std::memory_order_acquire))
      {
        size_t const v = tc->get_and_reset_failure_counter();
        sum += v;
        nonzero += (v != 0);
      }
    });
    prod.join();
    cons.join();
    sum += tc->get_and_reset_failure_counter(); // drained: nothing is pending any more
    vh::print_line({n, sum, nonzero});
  }
  return 0;
}
