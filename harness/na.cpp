// T-corr harness for C19 (named arguments / JSON sinks). Integer-line protocol, one case per line.
//
//   nascan <tpl:str>
//       (a) unit level: calls the real BackendWorker::_process_named_args_format_message and
//       MacroMetadata::_contains_named_args.  out: contains(0/1) fmt:str nkeys (name:str spec:str)*
//
//   naoracle nreq (spec:str tag len payload...)*
//       (c) oracle: fmtquill::format("{" + spec + "}", value) on a value of the given type.
//       out per request: ok(0/1) out:str          (ok = 0: fmt threw)
//
//   na <file:str> <logger:str> nstmts stmt*
//     stmt := ts level lineno <lvl:str> <tpl:str> nargs (tag len payload...)*  ntab (spec:str idx ok out:str)*
//       (b) end to end: a real Logger with a recording sink, the real JsonFileSink and the real
//       JsonConsoleSink, driven through Backend::acquire_manual_backend_worker() + poll().
//       (lvl and the table are for the model / the monitor; the harness ignores them.)
//       out per stmt: calls err(0/1) text:str nonempty(0/1) npairs (key:str value:str)* json:str console_same(0/1)
//       calls = number of write_log calls the recording sink received for the statement;
//       text is left empty when the statement could not be formatted (err = 1, error notifier
//       called); the thread id inside the JSON line is replaced by "0".
//
// str := len byte*           value tags: 0 = long long (payload: one u64, two's complement),
// 1 = double (one u64 bit pattern), 2 = std::string (bytes), 3 = char (one byte)
//
// Values travel through the real frontend queue as a small tagged struct V whose Codec pushes the
// corresponding built-in type (long long / double / fmtquill::string_view / char) into the real
// DynamicFormatArgStore, so formatting, has_string_related_type and sanitising are the library's.
#include <algorithm>
#include <array>
#include <atomic>
#include <cassert>
#include <chrono>
#include <cstdint>
#include <cstdio>
#include <cstdlib>
#include <cstring>
#include <deque>
#include <functional>
#include <iostream>
#include <limits>
#include <map>
#include <memory>
#include <mutex>
#include <optional>
#include <sstream>
#include <string>
#include <string_view>
#include <thread>
#include <unordered_map>
#include <utility>
#include <vector>
#include <unistd.h>
#include <sys/stat.h>
#include "common.h"

#define private public
#define protected public
#include "quill/Backend.h"
#include "quill/Frontend.h"
#include "quill/Logger.h"
#include "quill/UserClockSource.h"
#include "quill/backend/BackendWorker.h"
#include "quill/backend/ManualBackendWorker.h"
#include "quill/core/Codec.h"
#include "quill/core/DynamicFormatArgStore.h"
#include "quill/core/MacroMetadata.h"
#include "quill/sinks/JsonSink.h"
#include "quill/sinks/Sink.h"
#undef private
#undef protected

using vh::u64;

// ---------------------------------------------------------------------------------------------
struct V
{
  uint8_t tag{0};
  long long i{0};
  double d{0};
  char c{0};
  std::string s;
};

template <>
struct quill::Codec<V>
{
  static size_t compute_encoded_size(quill::detail::SizeCacheVector&, V const& v) noexcept
  {
    return 1 + 8 + sizeof(uint32_t) + v.s.size();
  }
  static void encode(std::byte*& buffer, quill::detail::SizeCacheVector const&, uint32_t&, V const& v) noexcept
  {
    std::memcpy(buffer, &v.tag, 1); buffer += 1;
    if (v.tag == 1) std::memcpy(buffer, &v.d, 8);
    else if (v.tag == 3) { long long x = static_cast<unsigned char>(v.c); std::memcpy(buffer, &x, 8); }
    else std::memcpy(buffer, &v.i, 8);
    buffer += 8;
    uint32_t len = static_cast<uint32_t>(v.s.size());
    std::memcpy(buffer, &len, sizeof(len)); buffer += sizeof(len);
    std::memcpy(buffer, v.s.data(), len); buffer += len;
  }
  static void decode_and_store_arg(std::byte*& buffer, quill::DynamicFormatArgStore* store)
  {
    uint8_t tag; std::memcpy(&tag, buffer, 1); buffer += 1;
    std::byte* num = buffer; buffer += 8;
    uint32_t len; std::memcpy(&len, buffer, sizeof(len)); buffer += sizeof(len);
    char const* sp = reinterpret_cast<char const*>(buffer); buffer += len;
    if (tag == 0) { long long x; std::memcpy(&x, num, 8); store->push_back(x); }
    else if (tag == 1) { double x; std::memcpy(&x, num, 8); store->push_back(x); }
    else if (tag == 3) { long long x; std::memcpy(&x, num, 8); store->push_back(static_cast<char>(x)); }
    else store->push_back(fmtquill::string_view{sp, len});
  }
  static V decode_arg(std::byte*&) { return V{}; }
};

// ---------------------------------------------------------------------------------------------
static int g_out_fd = 1;
static void emit(std::vector<u64> const& out)
{
  std::string s;
  for (size_t i = 0; i < out.size(); ++i) { if (i) s += ' '; s += std::to_string(out[i]); }
  s += '\n';
  size_t off = 0;
  while (off < s.size())
  {
    ssize_t w = ::write(g_out_fd, s.data() + off, s.size() - off);
    if (w <= 0) std::_Exit(97);
    off += static_cast<size_t>(w);
  }
}
static void put_str(std::vector<u64>& out, std::string_view s)
{
  out.push_back(s.size());
  for (unsigned char c : s) out.push_back(c);
}
struct Rd
{
  std::vector<u64> const& a; size_t i{0}; bool bad{false};
  u64 n() { if (i >= a.size()) { bad = true; return 0; } return a[i++]; }
  std::string str()
  {
    u64 len = n(); std::string s;
    for (u64 k = 0; k < len; ++k) s.push_back(static_cast<char>(n()));
    return s;
  }
  V val()
  {
    V v; v.tag = static_cast<uint8_t>(n()); u64 len = n();
    if (v.tag == 2) { for (u64 k = 0; k < len; ++k) v.s.push_back(static_cast<char>(n())); }
    else
    {
      u64 x = 0; for (u64 k = 0; k < len; ++k) x = n();
      if (v.tag == 0) v.i = static_cast<long long>(x);
      else if (v.tag == 1) std::memcpy(&v.d, &x, 8);
      else v.c = static_cast<char>(x);
    }
    return v;
  }
};

// ---------------------------------------------------------------------------------------------
struct Rec
{
  std::string text, tid; bool has_named{false};
  std::vector<std::pair<std::string, std::string>> named; int calls{0};
};
static Rec g_rec;
static bool g_multi_line = false;   // argv[1] == "multiline" keeps the library default
class RecSink final : public quill::Sink
{
public:
  void write_log(quill::MacroMetadata const*, uint64_t, std::string_view thread_id, std::string_view,
                 std::string const&, std::string_view, quill::LogLevel, std::string_view, std::string_view,
                 std::vector<std::pair<std::string, std::string>> const* named_args,
                 std::string_view log_message, std::string_view) override
  {
    g_rec.calls++;
    g_rec.text.assign(log_message.data(), log_message.size());
    g_rec.tid.assign(thread_id.data(), thread_id.size());
    g_rec.has_named = named_args != nullptr;
    g_rec.named.clear();
    if (named_args) g_rec.named = *named_args;
  }
  void flush_sink() override {}
};
class Clock final : public quill::UserClockSource
{
public:
  uint64_t now() const override { return t; }
  uint64_t t{0};
};

template <size_t... I>
static bool call_log(quill::Logger* lg, quill::MacroMetadata const* md, std::vector<V> const& a, std::index_sequence<I...>)
{
  return lg->template log_statement<false, false>(quill::LogLevel::None, md, a[I]...);
}
template <size_t N>
static bool dispatch_log(quill::Logger* lg, quill::MacroMetadata const* md, std::vector<V> const& a)
{
  if (a.size() == N) return call_log(lg, md, a, std::make_index_sequence<N>{});
  if constexpr (N > 0) return dispatch_log<N - 1>(lg, md, a);
  return false;
}
static constexpr size_t MAX_ARGS = 20;

static std::string read_new(std::string const& path, size_t& off)
{
  std::string out;
  FILE* f = fopen(path.c_str(), "rb");
  if (!f) return out;
  fseek(f, static_cast<long>(off), SEEK_SET);
  char buf[4096]; size_t r;
  while ((r = fread(buf, 1, sizeof buf, f)) > 0) out.append(buf, r);
  fclose(f);
  off += out.size();
  return out;
}

struct E2E
{
  quill::ManualBackendWorker* mw{nullptr};
  std::shared_ptr<RecSink> rec; std::shared_ptr<quill::JsonFileSink> jf; std::shared_ptr<quill::JsonConsoleSink> jc;
  Clock clock; std::string dir, fpath, cpath; size_t foff{0}, coff{0};
  std::deque<std::string> keep; std::deque<quill::MacroMetadata> mds; int errors{0};

  void init()
  {
    char const* t = getenv("TMPDIR");
    dir = std::string(t ? t : "/tmp") + "/c19_na_" + std::to_string(getpid());
    mkdir(dir.c_str(), 0700);
    fpath = dir + "/file.json"; cpath = dir + "/console.json";
    // the JSON console sink writes to stdout: protocol output moves to a duplicate of fd 1
    fflush(stdout);
    g_out_fd = dup(1);
    if (!freopen(cpath.c_str(), "wb", stdout)) std::_Exit(96);
    mw = quill::Backend::acquire_manual_backend_worker();
    quill::BackendOptions bo;
    bo.error_notifier = [this](std::string const&) { errors++; };
    mw->init(bo);
    rec = std::make_shared<RecSink>();
    quill::FileSinkConfig cfg; cfg.set_open_mode('w'); cfg.set_filename_append_option(quill::FilenameAppendOption::None);
    jf = std::make_shared<quill::JsonFileSink>(fpath, cfg);
    jc = std::make_shared<quill::JsonConsoleSink>();
  }
  void fini()
  {
    fflush(stdout);
    unlink(fpath.c_str()); unlink(cpath.c_str()); rmdir(dir.c_str());
  }
  quill::Logger* logger(std::string const& name)
  {
    std::vector<std::shared_ptr<quill::Sink>> sinks{rec, jf, jc};
    // add_metadata_to_multi_line_logs = false: with the default (true) a statement WITHOUT named
    // arguments whose text has k lines is handed to every sink k times (k JSON objects); statements
    // with at least one key/value pair never take that path, so the option is irrelevant to them.
    quill::PatternFormatterOptions pfo; pfo.add_metadata_to_multi_line_logs = g_multi_line;
    return quill::Frontend::create_or_get_logger(name, std::move(sinks), pfo, quill::ClockSourceType::User, &clock);
  }
  void run_case(std::vector<u64> const& a)
  {
    std::vector<u64> out; Rd r{a};
    std::string file = r.str(), lname = r.str(); u64 nst = r.n();
    quill::Logger* lg = logger(lname);
    // every case starts with an empty template cache, so that a case replays in isolation
    mw->_backend_worker->_named_args_templates.clear();
    for (u64 s = 0; s < nst && !r.bad; ++s)
    {
      u64 ts = r.n(), level = r.n(), lineno = r.n(); (void)r.str();
      std::string tpl = r.str(); u64 na = r.n();
      std::vector<V> args; for (u64 k = 0; k < na; ++k) args.push_back(r.val());
      u64 nt = r.n();
      for (u64 k = 0; k < nt; ++k) { (void)r.str(); (void)r.n(); (void)r.n(); (void)r.str(); }
      if (r.bad || args.size() > MAX_ARGS) break;
      keep.push_back(file + ":" + std::to_string(lineno)); char const* loc = keep.back().c_str();
      keep.push_back(tpl); char const* fmt = keep.back().c_str();
      mds.emplace_back(loc, "na_case", fmt, nullptr, static_cast<quill::LogLevel>(level), quill::MacroMetadata::Event::Log);
      clock.t = ts; errors = 0; g_rec = Rec{};
      dispatch_log<MAX_ARGS>(lg, &mds.back(), args);
      mw->poll();
      jf->flush_sink(); jc->flush_sink(); fflush(stdout);
      std::string jl = read_new(fpath, foff), cl = read_new(cpath, coff);
      bool same = (jl == cl);
      std::string needle = "\"thread_id\":\"" + g_rec.tid + "\"";
      if (size_t p = jl.find(needle); p != std::string::npos && !g_rec.tid.empty())
        jl.replace(p, needle.size(), "\"thread_id\":\"0\"");
      out.push_back(static_cast<u64>(g_rec.calls));
      out.push_back(errors ? 1 : 0);
      put_str(out, errors ? std::string_view{} : std::string_view{g_rec.text});
      out.push_back(g_rec.named.empty() ? 0 : 1);   // a null and an empty vector are the same observation
      out.push_back(g_rec.named.size());
      for (auto const& kv : g_rec.named) { put_str(out, kv.first); put_str(out, kv.second); }
      put_str(out, jl);
      out.push_back(same ? 1 : 0);
    }
    if (r.bad) out.push_back(999999);
    emit(out);
  }
};

// ---------------------------------------------------------------------------------------------
static void run_scan(std::vector<u64> const& a)
{
  Rd r{a}; std::string tpl = r.str(); std::vector<u64> out;
  out.push_back(quill::MacroMetadata::_contains_named_args(std::string_view{tpl}) ? 1 : 0);
  auto res = quill::detail::BackendWorker::_process_named_args_format_message(std::string_view{tpl});
  put_str(out, res.first); out.push_back(res.second.size());
  for (auto const& kv : res.second) { put_str(out, kv.first); put_str(out, kv.second); }
  emit(out);
}

template <typename T>
static void fmt_one(std::vector<u64>& out, std::string const& spec, T const& v)
{
  std::string f = "{" + spec + "}";
  try
  {
    std::string s = fmtquill::vformat(fmtquill::string_view{f.data(), f.size()}, fmtquill::make_format_args(v));
    out.push_back(1); put_str(out, s);
  }
  catch (std::exception const&) { out.push_back(0); out.push_back(0); }
}
static void run_oracle(std::vector<u64> const& a)
{
  Rd r{a}; u64 n = r.n(); std::vector<u64> out;
  for (u64 k = 0; k < n && !r.bad; ++k)
  {
    std::string spec = r.str(); V v = r.val();
    if (v.tag == 0) fmt_one(out, spec, v.i);
    else if (v.tag == 1) fmt_one(out, spec, v.d);
    else if (v.tag == 3) fmt_one(out, spec, v.c);
    else { fmtquill::string_view sv{v.s.data(), v.s.size()}; fmt_one(out, spec, sv); }
  }
  if (r.bad) out.push_back(999999);
  emit(out);
}

int main(int argc, char** argv)
{
  if (argc > 1 && std::string(argv[1]) == "multiline") g_multi_line = true;
  std::string model; std::vector<u64> a; E2E e2e; bool e2e_on = false;
  while (vh::read_case(model, a))
  {
    if (model == "nascan") run_scan(a);
    else if (model == "naoracle") run_oracle(a);
    else if (model == "na")
    {
      if (!e2e_on) { e2e.init(); e2e_on = true; }
      e2e.run_case(a);
    }
    else emit({999998});
  }
  if (e2e_on) e2e.fini();
  fflush(nullptr);
  std::_Exit(0);   // skip static destruction (the backend singleton would drain again)
}
